"""Bounded stand-ins for C03: decoders whose outputs are formatted strings / sets (outside reach of the SMT encoding)
against independent reference encoders written from the format descriptions."""
import ipaddress, os, sys, logging
logging.disable(logging.CRITICAL)
sys.path.insert(0, os.path.dirname(os.path.abspath(__file__)))
from common import Component, emit, rng, TIER, ROOT, time_limit
ns = {}
exec(open(os.path.join(ROOT, "contracts", "spec", "gens.py")).read(), ns)
from dissect.cobaltstrike import beacon
from dissect.cobaltstrike.beacon import (BeaconConfig, BeaconGateOptions, beacon_gate_options_string, parse_beacon_gate,
                                          parse_execute_list, parse_gargle, SETTING_TO_PRETTYFUNC, BeaconSetting)

N = 1000 if TIER == "quick" else 20000
# ---- execute list
ex = Component("parse_execute_list", "random lists over the 8 executors; module/function names over printable ASCII (1-12 chars), "
               "offsets 0..0xffff; NUL padding of the names; terminator / end of data; " + str(N) + " lists")
NAMES = {1: "CreateThread", 2: "SetThreadContext", 3: "CreateRemoteThread", 4: "RtlCreateUserThread", 5: "NtQueueApcThread",
         6: "CreateThread", 7: "CreateRemoteThread", 8: "NtQueueApcThread_s"}
def tokn(): return "".join(rng.choice("abcdefXYZ019_.") for _ in range(rng.randrange(1, 13)))
for _ in range(N):
    items, blob = [], b""
    for _ in range(rng.randrange(0, 7)):
        e = rng.randrange(1, 9)
        if e in (6, 7):
            mod, fn, off = tokn(), tokn(), rng.choice([0, 0, 1, 0x10, 0xffff, rng.randrange(65536)])
            mb, fb = mod.encode() + b"\x00" * rng.randrange(0, 3), fn.encode() + b"\x00" * rng.randrange(0, 3)
            blob += bytes([e]) + off.to_bytes(2, "big") + len(mb).to_bytes(4, "big") + mb + len(fb).to_bytes(4, "big") + fb
            items.append('{} "{}!{}{}"'.format(NAMES[e], mod, fn, "+0x{:x}".format(off) if off else ""))
        else:
            blob += bytes([e])
            items.append(NAMES[e])
    blob += rng.choice([b"", b"\x00", b"\x00\x00\x07"])
    try:
        with time_limit(5):
            got = parse_execute_list(blob)
        ok = got == items
    except BaseException as exn:
        ok, got = False, repr(exn)
    ex.case(blob, ok, sample=blob.hex()[:60], witness={"data_hex": blob.hex(), "got": repr(got)[:200], "want": items})
# ---- gargle sections
ga = Component("parse_gargle", "random section tables of (start, end) little-endian dword pairs incl. (0,0) entries; " + str(N) + " tables")
for _ in range(N):
    pairs = [(rng.choice([0, rng.randrange(2**32)]), rng.choice([0, rng.randrange(2**32)])) for _ in range(rng.randrange(0, 6))]
    blob = b"".join(a.to_bytes(4, "little") + b.to_bytes(4, "little") for a, b in pairs)
    want = [f"0x{a:x}-0x{b:x}" for a, b in pairs if (a, b) != (0, 0)]
    try:
        got = parse_gargle(blob)
        ok = got == want
    except BaseException as exn:
        ok, got = False, repr(exn)
    ga.case(blob, ok, sample=blob.hex()[:60], witness={"data_hex": blob.hex(), "got": repr(got)[:200]})
# ---- BeaconGate groups: all 2^23 flag vectors in thorough, structured + random sample in quick
bg = Component("beacon_gate_options_string",
               "flag vectors over the 23 WinAPI flags: " + ("ALL 2^23 vectors" if TIER == "thorough" else
               "all vectors with <= 2 flags set or <= 2 cleared, every group boundary, plus 4000 random vectors") +
               "; expected = group names for complete groups (All / Comms, Core, Cleanup) followed by the remaining flags as a SET")
FIELDS = list(BeaconGateOptions.fields)
COMMS, CORE, CLEANUP = set(FIELDS[:2]), set(FIELDS[2:22]), set(FIELDS[22:])
def expected(flags):
    on = {f for f, b in zip(FIELDS, flags) if b}
    groups = []
    if on >= (COMMS | CORE | CLEANUP):
        return ["All"], set()
    for nm, g in (("Comms", COMMS), ("Core", CORE), ("Cleanup", CLEANUP)):
        if on >= g:
            groups.append(nm)
            on -= g
    return groups, on
def vectors():
    if TIER == "thorough":
        for v in range(2 ** 23):
            yield [(v >> i) & 1 for i in range(23)]
        return
    import itertools
    for k in (0, 1, 2):
        for idx in itertools.combinations(range(23), k):
            yield [1 if i in idx else 0 for i in range(23)]
            yield [0 if i in idx else 1 for i in range(23)]
    for _ in range(4000):
        yield [rng.randrange(2) for _ in range(23)]
for flags in vectors():
    data = bytes(b * rng.choice([1, 1, 255]) for b in flags)
    try:
        got = beacon_gate_options_string(parse_beacon_gate(data))
        groups, rest = expected(flags)
        ok = got[:len(groups)] == groups and set(got[len(groups):]) == rest and len(got) == len(groups) + len(rest)
    except BaseException as exn:
        ok, got = False, repr(exn)
    bg.case(bytes(flags), ok, sample=bytes(flags).hex(), witness={"flags": bytes(flags).hex(), "got": repr(got)[:200]})
# ---- derived properties
de = Component("derived-properties", "configurations with domain lists (1-4 pairs, domains/URIs over [a-z0-9./_-]), protocol flags, "
               "port, kill dates (SETTING_KILLDATE and legacy year/month/day), watermark, crypto scheme, public key padding, DNS idle; " + str(N) + " configs")
def tok2(): return "".join(rng.choice("abcdefgh0123./_-") for _ in range(rng.randrange(1, 10)))
for _ in range(N):
    pairs = [(tok2(), "/" + tok2()) for _ in range(rng.randrange(1, 5))]
    dom = ",".join(f"{d},{u}" for d, u in pairs).encode() + b"\x00" * rng.randrange(1, 5)
    proto = rng.choice([0, 1, 2, 4, 8, 16])
    port = rng.randrange(65536)
    kd = rng.choice([0, 20250131, 99999999, 20231301])
    wm = rng.randrange(2 ** 32)
    scheme = rng.choice([0, 1])
    pub = bytes(rng.randrange(1, 256) for _ in range(rng.randrange(1, 30)))
    idle = rng.randrange(2 ** 32)
    settings = [(1, 1, proto.to_bytes(2, "big")), (2, 1, port.to_bytes(2, "big")), (7, 3, pub + b"\x00" * rng.randrange(0, 9)),
                (8, 3, dom), (19, 2, idle.to_bytes(4, "big")), (31, 1, scheme.to_bytes(2, "big")), (37, 2, wm.to_bytes(4, "big"))]
    if kd:
        settings.append((40, 2, kd.to_bytes(4, "big")))
    bc = BeaconConfig(ns["tlv_block"](settings))
    try:
        names = {0: "http", 1: "dns", 2: "smb", 4: "tcp", 8: "https", 16: "bind"}
        uris, doms = [], []
        for d, u in pairs:
            if u not in uris: uris.append(u)
            if d not in doms: doms.append(d)
        s = str(kd)
        want_kd = f"{int(s[:4]):02d}-{int(s[4:6]):02d}-{int(s[6:8]):02d}" if kd else None
        ok = (bc.domain_uri_pairs == pairs and bc.uris == uris and bc.domains == doms and bc.protocol == names[proto]
              and bc.port == port and bc.watermark == wm and bc.is_trial == (scheme == 1) and bc.public_key == pub.rstrip(b"\x00")
              and bc.killdate == want_kd and bc.settings["SETTING_DNS_IDLE"] == str(ipaddress.IPv4Address(idle)))
        got = None
    except BaseException as exn:
        ok, got = False, repr(exn)
    de.case(tuple(pairs), ok, sample={"pairs": pairs[:2], "proto": proto}, witness={"pairs": pairs, "kd": kd, "got": got})
emit([ex, ga, bg, de])
