"""Bounded stand-ins for C03: decoders whose outputs are formatted strings / sets (outside reach of the SMT encoding)
against independent reference encoders written from the format descriptions."""
import ipaddress, os, sys, logging
logging.disable(logging.CRITICAL)
sys.path.insert(0, os.path.dirname(os.path.abspath(__file__)))
from common import Component, emit, rng, TIER, ROOT, time_limit
ns = {}
exec(open(os.path.join(ROOT, "contracts", "spec", "gens.py")).read(), ns)
from dissect.cobaltstrike import beacon
from dissect.cobaltstrike.beacon import (BeaconConfig, BeaconGateOptions, beacon_gate_options_string, parse_beacon_gate,
                                          parse_execute_list, parse_gargle, SETTING_TO_PRETTYFUNC, BeaconSetting)

N = 1000 if TIER == "quick" else 20000
# ---- execute list
ex = Component("parse_execute_list", "random lists over the 8 executors; module/function names over printable ASCII (1-12 chars), "
               "offsets 0..0xffff; NUL padding of the names; terminator / end of data; " + str(N) + " lists")
NAMES = {1: "CreateThread", 2: "SetThreadContext", 3: "CreateRemoteThread", 4: "RtlCreateUserThread", 5: "NtQueueApcThread",
         6: "CreateThread", 7: "CreateRemoteThread", 8: "NtQueueApcThread_s"}
def tokn(): return "".join(rng.choice("abcdefXYZ019_.") for _ in range(rng.randrange(1, 13)))
for _ in range(N):
    items, blob = [], b""
    for _ in range(rng.randrange(0, 7)):
        e = rng.randrange(1, 9)
        if e in (6, 7):
            mod, fn, off = tokn(), tokn(), rng.choice([0, 0, 1, 0x10, 0xffff, rng.randrange(65536)])
            mb, fb = mod.encode() + b"\x00" * rng.randrange(0, 3), fn.encode() + b"\x00" * rng.randrange(0, 3)
            blob += bytes([e]) + off.to_bytes(2, "big") + len(mb).to_bytes(4, "big") + mb + len(fb).to_bytes(4, "big") + fb
            items.append('{} "{}!{}{}"'.format(NAMES[e], mod, fn, "+0x{:x}".format(off) if off else ""))
        else:
            blob += bytes([e])
            items.append(NAMES[e])
    blob += rng.choice([b"", b"\x00", b"\x00\x00\x07"])
    try:
        with time_limit(5):
            got = parse_execute_list(blob)
        ok = got == items
    except BaseException as exn:
        ok, got = False, repr(exn)
    ex.case(blob, ok, sample=blob.hex()[:60], witness={"data_hex": blob.hex(), "got": repr(got)[:200], "want": items})
# ---- gargle sections
ga = Component("parse_gargle", "random section tables of (start, end) little-endian dword pairs incl. (0,0) entries; " + str(N) + " tables")
for _ in range(N):
    pairs = [(rng.choice([0, rng.randrange(2**32)]), rng.choice([0, rng.randrange(2**32)])) for _ in range(rng.randrange(0, 6))]
    blob = b"".join(a.to_bytes(4, "little") + b.to_bytes(4, "little") for a, b in pairs)
    want = [f"0x{a:x}-0x{b:x}" for a, b in pairs if (a, b) != (0, 0)]
    try:
        got = parse_gargle(blob)
        ok = got == want
    except BaseException as exn:
        ok, got = False, repr(exn)
    ga.case(blob, ok, sample=blob.hex()[:60], witness={"data_hex": blob.hex(), "got": repr(got)[:200]})
# ---- BeaconGate groups: all 2^23 flag vectors in thorough, structured + random sample in quick
bg = Component("beacon_gate_options_string",
               "flag vectors over the 23 WinAPI flags: " + ("ALL 2^23 vectors" if TIER == "thorough" else
               "all vectors with <= 2 flags set or <= 2 cleared, every group boundary, plus 4000 random vectors") +
               "; expected = group names for complete groups (All / Comms, Core, Cleanup) followed by the remaining flags as a SET")
FIELDS = list(BeaconGateOptions.fields)
COMMS, CORE, CLEANUP = set(FIELDS[:2]), set(FIELDS[2:22]), set(FIELDS[22:])
def expected(flags):
    on = {f for f, b in zip(FIELDS, flags) if b}
    groups = []
    if on >= (COMMS | CORE | CLEANUP):
        return ["All"], set()
    for nm, g in (("Comms", COMMS), ("Core", CORE), ("Cleanup", CLEANUP)):
        if on >= g:
            groups.append(nm)
            on -= g
    return groups, on
def vectors():
    if TIER == "thorough":
        for v in range(2 ** 23):
            yield [(v >> i) & 1 for i in range(23)]
        return
    import itertools
    for k in (0, 1, 2):
        for idx in itertools.combinations(range(23), k):
            yield [1 if i in idx else 0 for i in range(23)]
            yield [0 if i in idx else 1 for i in range(23)]
    for _ in range(4000):
        yield [rng.randrange(2) for _ in range(23)]
for flags in vectors():
    data = bytes(b * rng.choice([1, 1, 255]) for b in flags)
    try:
        got = beacon_gate_options_string(parse_beacon_gate(data))
        groups, rest = expected(flags)
        ok = got[:len(groups)] == groups and set(got[len(groups):]) == rest and len(got) == len(groups) + len(rest)
    except BaseException as exn:
        ok, got = False, repr(exn)
    bg.case(bytes(flags), ok, sample=bytes(flags).hex(), witness={"flags": bytes(flags).hex(), "got": repr(got)[:200]})
# ---- derived properties
de = Component("derived-properties", "configurations with domain lists (1-4 pairs, domains/URIs over [a-z0-9./_-]), protocol flags, "
               "port, kill dates (SETTING_KILLDATE and legacy year/month/day), watermark, crypto scheme, public key padding, DNS idle; " + str(N) + " configs")
def tok2(): return "".join(rng.choice("abcdefgh0123./_-" if rng.random() < 0.93 else "\x81\x85\x93\xe9\xff") for _ in range(rng.randrange(1, 10)))
for _ in range(N):
    pairs = [(tok2(), "/" + tok2()) for _ in range(rng.randrange(1, 5))]
    dom = ",".join(f"{d},{u}" for d, u in pairs).encode("latin-1") + b"\x00" * rng.randrange(1, 5)
    proto = rng.choice([0, 1, 2, 4, 8, 16])
    port = rng.randrange(65536)
    kd = rng.choice([0, 20250131, 99999999, 20231301])
    wm = rng.randrange(2 ** 32)
    scheme = rng.choice([0, 1])
    pub = bytes(rng.randrange(1, 256) for _ in range(rng.randrange(1, 30)))
    idle = rng.choice([0, 0xffffffff, rng.randrange(2 ** 32)])
    settings = [(1, 1, proto.to_bytes(2, "big")), (2, 1, port.to_bytes(2, "big")), (7, 3, pub + b"\x00" * rng.randrange(0, 9)),
                (8, 3, dom), (19, 2, idle.to_bytes(4, "big")), (31, 1, scheme.to_bytes(2, "big")), (37, 2, wm.to_bytes(4, "big"))]
    if kd:
        settings.append((40, 2, kd.to_bytes(4, "big")))
    bc = BeaconConfig(ns["tlv_block"](settings))
    try:
        names = {0: "http", 1: "dns", 2: "smb", 4: "tcp", 8: "https", 16: "bind"}
        uris, doms = [], []
        for d, u in pairs:
            if u not in uris: uris.append(u)
            if d not in doms: doms.append(d)
        s = str(kd)
        want_kd = f"{int(s[:4]):02d}-{int(s[4:6]):02d}-{int(s[6:8]):02d}" if kd else None
        ok = (bc.domain_uri_pairs == pairs and bc.uris == uris and bc.domains == doms and bc.protocol == names[proto]
              and bc.port == port and bc.watermark == wm and bc.is_trial == (scheme == 1) and bc.public_key == pub.rstrip(b"\x00")
              and bc.killdate == want_kd and bc.settings["SETTING_DNS_IDLE"] == str(ipaddress.IPv4Address(idle)))
        got = None
    except BaseException as exn:
        ok, got = False, repr(exn)
    de.case(tuple(pairs), ok, sample={"pairs": pairs[:2], "proto": proto}, witness={"pairs": pairs, "kd": kd, "got": got})
# ---- every structured setting, through every pretty view (the decoders themselves: proof part / components above)
import hashlib
from dissect.cobaltstrike.beacon import (parse_recover_binary, parse_transform_binary, parse_process_injection_transform_steps,
                                          parse_pivot_frame)
cfggen_ns = {}
exec(open(os.path.join(ROOT, "contracts", "spec", "cfggen.py")).read().replace("__file__", repr(os.path.join(ROOT, "contracts", "spec", "cfggen.py"))), cfggen_ns)
vw = Component("views-decode-every-structured-setting",
               "one configuration per (setting, raw value): all 38 settings the property names (programs, execute list, inject "
               "transforms, section table, frame headers, the 21 string settings, key digest, DNS idle, BOF allocator, BeaconGate, hex "
               "digests) x raw values {empty, all-NUL, zero, minimal, generated well-formed}; settings, settings_by_index and "
               "settings_map(pretty=True) for the three index kinds all carry the decoded value (same type), raw views the raw one")
def ref_str(b):
    # the bytes before the first NUL, one character per byte (the docstring of null_terminated_str says non-ASCII bytes are
    # dropped; the code keeps them as latin-1, which is the lossless reading and the one the property's "exact" asks for)
    return "".join(chr(c) for c in b.split(b"\x00", 1)[0])
STRINGS = [8, 54, 26, 27, 15, 29, 30, 9, 10, 60, 61, 62, 63, 64, 65, 66]
def programs():
    g, p_, sv = cfggen_ns["gen_profile"](rng)
    return (cfggen_ns["enc_recover_program"](cfggen_ns["server_recover_list"](sv)), cfggen_ns["enc_transform_program"](g),
            cfggen_ns["enc_transform_program"](p_))
TABLE = []      # (index, type, raw, expected) ; expected None = take the library decoder's direct answer
for rep in range(3 if TIER == "quick" else 40):
    rec, tget, tpost = programs()
    for raw in (b"", bytes(8), bytes(256), rec):
        TABLE.append((11, 3, raw, lambda r=raw: parse_recover_binary(r)))
    for raw in (b"", bytes(8), bytes(512), tget):
        TABLE.append((12, 3, raw, lambda r=raw: parse_transform_binary(r)))
    for raw in (b"", bytes(8), bytes(512), tpost):
        TABLE.append((13, 3, raw, lambda r=raw: parse_transform_binary(r, build="id")))
    for raw in (b"", bytes(4), bytes(128), bytes([1, 2, 8, 0]), bytes([6]) + (3).to_bytes(2, "big") + (2).to_bytes(4, "big") + b"a\x00" + (2).to_bytes(4, "big") + b"b\x00" + b"\x00"):
        TABLE.append((51, 3, raw, lambda r=raw: parse_execute_list(r)))
    for idx in (46, 47):
        for raw in (b"", bytes(8), bytes(256), (2).to_bytes(4, "big") + b"ap" + (0).to_bytes(4, "big"),
                    (0).to_bytes(4, "big") + (3).to_bytes(4, "big") + b"pre" + bytes(rng.randrange(0, 9))):
            TABLE.append((idx, 3, raw, lambda r=raw: parse_process_injection_transform_steps(r)))
    for raw in (b"", bytes(8), bytes(64), (0x1000).to_bytes(4, "little") + (0x2fff).to_bytes(4, "little") + bytes(8)):
        TABLE.append((42, 3, raw, lambda r=raw: parse_gargle(r)))
    for idx in (57, 58):
        hdr = bytes(rng.randrange(256) for _ in range(rng.randrange(0, 12)))
        for raw in ((len(hdr) + 4).to_bytes(2, "big") + hdr + bytes(rng.randrange(0, 6)), (4).to_bytes(2, "big"), (4).to_bytes(2, "big") + bytes(126)):
            TABLE.append((idx, 3, raw, lambda r=raw: parse_pivot_frame(r)))
    for idx in STRINGS:
        word = bytes(rng.choice(b"abcXYZ/%\\.-_ ") for _ in range(rng.randrange(0, 12)))
        hi = bytes(rng.randrange(0x80, 0x100) for _ in range(rng.randrange(1, 9)))
        for raw in (b"", bytes(rng.choice([1, 16, 64])), word, word + bytes(rng.randrange(1, 5)), word + b"\x00" + b"junk", b"\xff" + word + b"\x00",
                    # every byte value is one character of the decoded string (0x80-0x9f are where the 8-bit code pages differ)
                    bytes(range(1, 256)), bytes(range(0x80, 0xa0)) + b"\x00", hi + word + hi + b"\x00\x00"):
            TABLE.append((idx, 3, raw, lambda r=raw: ref_str(r)))
    key = bytes(rng.randrange(1, 256) for _ in range(rng.randrange(0, 40)))
    for raw in (b"", bytes(256), key, key + bytes(256 - len(key))):
        TABLE.append((7, 3, raw, lambda r=raw: hashlib.sha256(r.rstrip(b"\x00")).hexdigest()))
    for v in (0, 1, 0xffffffff, 0x7f000001, rng.randrange(2 ** 32)):
        TABLE.append((19, 2, v.to_bytes(4, "big"), lambda v=v: str(ipaddress.IPv4Address(v))))
    for v in (0, 1, 2):
        TABLE.append((16, 1, v.to_bytes(2, "big"), lambda v=v: ["VirtualAlloc", "MapViewOfFile", "HeapAlloc"][v]))
    for raw in (bytes(23), bytes([1]) * 23, bytes([0, 0] + [1] * 21), bytes(rng.randrange(2) for _ in range(23))):
        TABLE.append((78, 3, raw, lambda r=raw: beacon_gate_options_string(parse_beacon_gate(r))))
    for idx in (53, 14, 74):
        for raw in (b"", bytes(16), bytes(rng.randrange(256) for _ in range(16))):
            TABLE.append((idx, 3, raw, lambda r=raw: r.hex()))
    for raw in (b"", bytes(32), b"hash" + bytes(4) + b"x"):
        TABLE.append((36, 3, raw, lambda r=raw: r.split(b"\x00", 1)[0]))
for idx, ty, raw, fexp in TABLE:
    try:
        want = fexp()
    except Exception:       # noqa: the raw value is outside the decoder's well-formed domain
        continue
    try:
        bc = BeaconConfig(ns["tlv_block"]([(1, 1, b"\x00\x00"), (idx, ty, raw), (2, 1, b"\x00\x50")]))
        en = BeaconSetting(idx)
        got = [bc.settings[en.name], bc.settings_by_index[idx], bc.settings_map(index_type="enum", pretty=True)[en],
               bc.settings_map(index_type="name", pretty=True)[en.name], bc.settings_map(index_type="const", pretty=True)[idx]]
        rawwant = raw if ty == 3 else int.from_bytes(raw, "big")
        base = next(t for t in (bool, int, str, bytes, list) if isinstance(want, t))
        ok = all(g == want and isinstance(g, base) for g in got) and bc.raw_settings[en.name] == rawwant and bc.raw_settings_by_index[idx] == rawwant
        w = {"setting": en.name, "raw_hex": raw.hex()[:200], "expected": repr(want)[:300], "views": repr(got)[:600]}
    except Exception as exn:      # noqa
        ok, w = False, {"setting": idx, "raw_hex": raw.hex()[:200], "expected": repr(want)[:300], "error": repr(exn)[:300]}
    vw.case((idx, raw), ok, sample={"setting": idx, "raw": raw.hex()[:40]}, witness=w)
emit([ex, ga, bg, de, vw])
