"""Bounded stand-in for C16: round trip through a reference serializer (written from RFC 7230 message syntax) for the
part that rests on urllib (percent-decoding of the query) and on whitespace splitting."""
import os, sys
sys.path.insert(0, os.path.dirname(os.path.abspath(__file__)))
from common import Component, emit, rng, TIER
from urllib.parse import quote_from_bytes
from dissect.cobaltstrike.c2 import parse_raw_http, HttpRequest, HttpResponse

comp = Component("serialize-parse-roundtrip",
                 "random requests (method token, ASCII path, 0-3 params with arbitrary non-empty byte values percent-encoded, 0-3 "
                 "'Key: value' headers, arbitrary binary body incl. CRLFCRLF / NUL) and responses (status 100-599, single-token reason); "
                 "1500 cases quick / 20000 thorough, seed=VERIF_SEED")
TOK = b"ABCDEFGHIJKLMNOPQRSTUVWXYZabcdefghijklmnopqrstuvwxyz0123456789-_"
def tok(n): return bytes(rng.choice(TOK) for _ in range(n))
def blob(n): return bytes(rng.choice([0, 13, 10, 32, 58, 37, 38, 61, 255, rng.randrange(256)]) for _ in range(n))
N = 1500 if TIER == "quick" else 20000
for i in range(N):
    headers = {}
    for _ in range(rng.randrange(0, 4)):
        k = tok(rng.randrange(1, 8))
        v = bytes(c for c in blob(rng.randrange(0, 10)) if c not in (13, 10))
        headers[k] = v
    body = blob(rng.randrange(0, 30))
    if rng.random() < 0.2:
        body = b"\r\n\r\n" + body + b"\x00"
    hdr = b"".join(k + b": " + v + b"\r\n" for k, v in headers.items())
    if i % 2 == 0:
        method = tok(rng.randrange(1, 7))
        path = b"/" + tok(rng.randrange(0, 12))
        params = {}
        for _ in range(rng.randrange(0, 4)):
            params[blob(rng.randrange(1, 6)) or b"k"] = blob(rng.randrange(1, 6)) or b"v"
        q = b"&".join(quote_from_bytes(k, safe="").encode() + b"=" + quote_from_bytes(v, safe="").encode() for k, v in params.items())
        raw = method + b" " + path + (b"?" + q if q else b"") + b" HTTP/1.1\r\n" + hdr + b"\r\n" + body
        try:
            r = parse_raw_http(raw)
            ok = isinstance(r, HttpRequest) and r.method == method and r.uri == path and r.params == params and r.headers == headers and r.body == body
        except Exception as ex:
            ok, r = False, repr(ex)
        comp.case(raw, ok, sample=raw[:60].hex(), witness={"raw_hex": raw.hex(), "got": repr(r)[:300]})
    else:
        status = rng.randrange(100, 600)
        reason = tok(rng.randrange(1, 8))
        raw = b"HTTP/1.1 " + str(status).encode() + b" " + reason + b"\r\n" + hdr + b"\r\n" + body
        try:
            r = parse_raw_http(raw)
            ok = isinstance(r, HttpResponse) and r.status == status and r.reason == reason and r.headers == headers and r.body == body
        except Exception as ex:
            ok, r = False, repr(ex)
        comp.case(raw, ok, sample=raw[:60].hex(), witness={"raw_hex": raw.hex(), "got": repr(r)[:300]})
# ---------------------------------------------------------------- histories: a result handed out earlier may be modified by its owner
c_hist = Component("parse-again-after-earlier-result-was-modified",
                   "the same wire message parsed, the returned object's headers / params dictionaries extended and emptied by the "
                   "caller (as HttpDataTransform.transform(request=...) does), then parsed again: the second result is again exactly "
                   "the message's contents and is not the same object; 200 messages quick / 2000 thorough")
for i in range(200 if TIER == "quick" else 2000):
    name, val = tok(rng.randrange(1, 8)), tok(rng.randrange(0, 8))
    body = blob(rng.randrange(0, 20))
    if i % 2 == 0:
        raw = b"GET /" + tok(4) + b"?" + name + b"=" + val + b"x HTTP/1.1\r\n" + name + b": " + val + b"\r\n\r\n" + body
    else:
        raw = b"HTTP/1.1 200 OK\r\n" + name + b": " + val + b"\r\n\r\n" + body
    try:
        r1 = parse_raw_http(raw)
        want = (dict(r1.headers), dict(getattr(r1, "params", {})), r1.body)
        r1.headers[b"X-Added"] = b"1"
        if hasattr(r1, "params"):
            r1.params[b"added"] = b"1"
        r2 = parse_raw_http(raw)
        got = (dict(r2.headers), dict(getattr(r2, "params", {})), r2.body)
        r2.headers.clear()
        r3 = parse_raw_http(raw)
        got3 = (dict(r3.headers), dict(getattr(r3, "params", {})), r3.body)
        ok = got == want and got3 == want and want[0] == {name: val} and r1 is not r2
        w = {"raw_hex": raw.hex(), "first": repr(want)[:300], "second": repr(got)[:300], "third": repr(got3)[:300]}
    except Exception as ex:       # noqa
        ok, w = False, {"raw_hex": raw.hex(), "error": repr(ex)}
    c_hist.case(raw, ok, witness=w)
for bad in (b"GET /\r\n\r\n", b"A B C D\r\n\r\n", b"HTTP/1.1 200\r\n\r\n", b"HTTP/1.1 xx OK\r\n\r\n", b"", b"\r\n\r\n"):
    try:
        parse_raw_http(bad)
        ok = False
    except ValueError:
        ok = True
    except Exception:
        ok = False
    comp.case(bad, ok, witness={"raw_hex": bad.hex()})
emit([comp, c_hist])
