"""Bounded stand-in for C17 (completeness of the key-recovery heuristic, real code): every configuration padded to
the 6144-byte area, environmental keys of the listed lengths, guard-option subsets, positions, raw and XorEncoded."""
import io, os, sys
sys.path.insert(0, os.path.dirname(os.path.abspath(__file__)))
from common import Component, emit, rng, TIER, ROOT, time_limit, CaseTimeout
ns = {}
exec(open(os.path.join(ROOT, "contracts", "spec", "gens.py")).read(), ns)
from dissect.cobaltstrike.beacon import BeaconConfig
from dissect.cobaltstrike.guardrails import find_xor_key_candidates

comp = Component("guardrails-recovery-real-code",
                 "key lengths 2..256 (all in thorough, a seeded sample of 14 in quick) x guard-option subsets x 2 positions x raw/XorEncoded; "
                 "recovered configuration, key (up to its period), guard options and offsets compared with the generator's")
heur = Component("find_xor_key_candidates-safety", "random and structured inputs up to 7000 bytes: yields byte strings, no exception")
lengths = list(range(2, 257)) if TIER == "thorough" else sorted(set([2, 3, 4, 16, 255, 256] + [rng.randrange(2, 257) for _ in range(8)]))
subsets = [(5,), (6,), (7,), (8,), (5, 6), (5, 6, 7, 8)]
cfg = bytes.fromhex("00010001000200080002000100020050000300020004000003e8") + bytes(8)
for L in lengths:
    key = bytes(rng.randrange(1, 256) for _ in range(L))
    if len(set(key)) == 1:
        key = key[:-1] + bytes([key[-1] ^ 1])
    opts = subsets[L % len(subsets)]
    for prefix in (b"", bytes(rng.randrange(256) for _ in range(rng.randrange(1, 300)))):
        raw = ns["guardrails_payload"](key, opts, config=cfg, prefix=prefix, suffix=b"\x00" * 5)
        for enc in (False, True):
            data = ns["xorencode"](ns["mini_pe"](nsections=0) + raw) if enc else raw
            try:
                bc = BeaconConfig.from_bytes(data)
                g = bc.guardrails
                rk = g.payload_xor_key
                period_ok = rk is not None and all(key[i] == rk[i % len(rk)] for i in range(len(key)))
                ok = (g is not None and period_ok and g.unmasked_beacon_config[:len(cfg)] == cfg
                      and [s.option.value for s in g.settings][:-1] == list(opts)
                      and bc.raw_settings_by_index.get(2) == 80)
            except Exception as ex:  # noqa
                ok = False
            comp.case((L, opts, len(prefix) > 0, enc), ok, sample={"keylen": L, "options": list(opts), "xorencoded": enc},
                      witness={"keylen": L, "key_hex": key.hex(), "options": list(opts), "prefix_len": len(prefix), "xorencoded": enc})
for _ in range(60 if TIER == "quick" else 600):
    n = rng.randrange(0, 7000)
    data = bytes(rng.randrange(256) for _ in range(n)) if rng.random() < 0.5 else bytes(n)
    try:
        ks = list(find_xor_key_candidates(io.BytesIO(data)))
        ok = all(isinstance(k, bytes) and 2 <= len(k) <= 256 for k in ks)
    except Exception:
        ok = False
    heur.case((n, data[:4]), ok, witness={"len": n, "head": data[:16].hex()})
emit([comp, heur])
