"""Bounded stand-in for C17 (completeness of the key-recovery heuristic, real code): every configuration padded to
the 6144-byte area, environmental keys of the listed lengths, guard-option subsets, positions, raw and XorEncoded."""
import io, os, sys
sys.path.insert(0, os.path.dirname(os.path.abspath(__file__)))
from common import Component, emit, rng, TIER, ROOT, time_limit, CaseTimeout
ns = {}
exec(open(os.path.join(ROOT, "contracts", "spec", "gens.py")).read(), ns)
from dissect.cobaltstrike.beacon import BeaconConfig
from dissect.cobaltstrike.guardrails import find_xor_key_candidates

comp = Component("guardrails-recovery-real-code",
                 "key lengths 2..256 (all in thorough, a seeded sample of 14 in quick; keys over all byte values incl. NUL and the mask byte 0x2e) x guard-option subsets x 2 positions x raw/XorEncoded; "
                 "recovered configuration, key (up to its period), guard options and offsets compared with the generator's")
heur = Component("find_xor_key_candidates-safety", "random and structured inputs up to 7000 bytes: yields byte strings, no exception")
lengths = list(range(2, 257)) if TIER == "thorough" else sorted(set([2, 3, 4, 16, 255, 256] + [rng.randrange(2, 257) for _ in range(8)]))
subsets = [(5,), (6,), (7,), (8,), (5, 6), (5, 6, 7, 8)]
cfg = bytes.fromhex("00010001000200080002000100020050000300020004000003e8") + bytes(8)
for L in lengths:
    key = bytearray(rng.randrange(1, 256) for _ in range(L))
    # "any environmental key": a third of the keys contain NUL bytes, a third the byte of the configuration mask (0x2e)
    if L % 3 != 0 and L > 2:
        for _ in range(rng.randrange(1, 4)):
            key[rng.randrange(L)] = 0x00 if L % 3 == 1 else 0x2E
    key = bytes(key)
    if len(set(key)) == 1:
        key = key[:-1] + bytes([key[-1] ^ 1])
    opts = subsets[L % len(subsets)]
    for prefix in (b"", bytes(rng.randrange(256) for _ in range(rng.randrange(1, 300)))):
        raw = ns["guardrails_payload"](key, opts, config=cfg, prefix=prefix, suffix=b"\x00" * 5)
        for enc in (False, True):
            data = ns["xorencode"](ns["mini_pe"](nsections=0) + raw) if enc else raw
            try:
                bc = BeaconConfig.from_bytes(data)
                g = bc.guardrails
                rk = g.payload_xor_key
                period_ok = rk is not None and all(key[i] == rk[i % len(rk)] for i in range(len(key)))
                ok = (g is not None and period_ok and g.unmasked_beacon_config[:len(cfg)] == cfg
                      and [s.option.value for s in g.settings][:-1] == list(opts)
                      and bc.raw_settings_by_index.get(2) == 80)
            except Exception as ex:  # noqa
                ok = False
            comp.case((L, opts, len(prefix) > 0, enc), ok, sample={"keylen": L, "options": list(opts), "xorencoded": enc},
                      witness={"keylen": L, "key_hex": key.hex(), "options": list(opts), "prefix_len": len(prefix), "xorencoded": enc})
# configurations in which another aligned n-gram is exactly as frequent as the key n-gram (a long constant-byte setting value):
# the key is then the SECOND of two tied candidates and must still be tried
import collections
tie = Component("tied-key-candidates", "configurations whose largest setting value is a run of one byte, its length chosen so that the "
                "run's n-gram and the key's n-gram (from the zero padding) are equally frequent at the key length; key lengths 7, 64, 160")
def masked(cfg_, key_):
    full = cfg_ + bytes(6144 - len(cfg_))
    return bytes(c ^ key_[i % len(key_)] ^ 0x2E for i, c in enumerate(full))
for L in (7, 64, 160):
    key = bytes((37 * i + 11) % 255 + 1 for i in range(L))
    hdr = bytes.fromhex("0001000100020000" "00020001000201bb")
    found = 0
    for n_run in range(6144 // 2 - 200, 6144 // 2 + 200):
        body = hdr + (12).to_bytes(2, "big") + (3).to_bytes(2, "big") + n_run.to_bytes(2, "big") + b"A" * n_run
        m_ = masked(body, key)
        cnt = collections.Counter(m_[i:i + L] for i in range(0, len(m_) - L + 1, L))
        top = cnt.most_common(2)
        keygram = bytes(k ^ 0x2E for k in key)
        if len(top) == 2 and top[0][1] == top[1][1] and keygram in (top[0][0], top[1][0]):
            found += 1
            raw = ns["guardrails_payload"](key, (6,), config=body, prefix=b"\x90" * 9, suffix=b"\x00" * 5)
            try:
                bc = BeaconConfig.from_bytes(raw)
                g = bc.guardrails
                ok = g is not None and g.payload_xor_key is not None and g.unmasked_beacon_config[:len(body)] == body
            except Exception as ex:   # noqa
                ok = False
            tie.case((L, n_run), ok, witness={"keylen": L, "run_length": n_run, "key_hex": key.hex()[:64]})
            if found >= 2:
                break
    if not found:
        tie.case((L, "no tie constructible"), True, nontrivial=False)
for _ in range(60 if TIER == "quick" else 600):
    n = rng.randrange(0, 7000)
    data = bytes(rng.randrange(256) for _ in range(n)) if rng.random() < 0.5 else bytes(n)
    try:
        ks = list(find_xor_key_candidates(io.BytesIO(data)))
        ok = all(isinstance(k, bytes) and 2 <= len(k) <= 256 for k in ks)
    except Exception:
        ok = False
    heur.case((n, data[:4]), ok, witness={"len": n, "head": data[:16].hex()})
emit([comp, heur, tie])
