"""Bounded stand-ins for C18: BeaconVersion text parsing (regex + strptime are outside reach) and the PE helpers on
concrete reference images (validates the spec functions against images with known fields)."""
import datetime, io, os, sys
sys.path.insert(0, os.path.dirname(os.path.abspath(__file__)))
from common import Component, emit, rng, TIER, ROOT, time_limit, CaseTimeout
ns = {}
exec(open(os.path.join(ROOT, "contracts", "spec", "gens.py")).read(), ns)
from dissect.cobaltstrike import pe
from dissect.cobaltstrike.version import BeaconVersion, MAX_ENUM_TO_VERSION, PE_EXPORT_STAMP_TO_VERSION

ver = Component("BeaconVersion-text-agrees",
                "all table strings + generated strings 'Cobalt Strike <maj>.<min>[.<patch>] (<Mon> <dd>, <yyyy>)' over the month "
                "table x version numbers x days (seeded sample of 400 in quick, 20000 in thorough); tuple/date/version_only compared")
MONTHS = "Jan Feb Mar Apr May Jun Jul Aug Sep Oct Nov Dec".split()
texts = list(MAX_ENUM_TO_VERSION.values()) + list(PE_EXPORT_STAMP_TO_VERSION.values())
gen = []
for _ in range(400 if TIER == "quick" else 20000):
    maj, mi, pa = rng.randrange(0, 12), rng.randrange(0, 30), rng.choice([None, 0, 1, 7, 10])
    mon, day, year = rng.randrange(12), rng.randrange(1, 29), rng.randrange(2012, 2031)
    vs = f"{maj}.{mi}" + (f".{pa}" if pa is not None else "")
    gen.append((f"Cobalt Strike {vs} ({MONTHS[mon]} {day:02d}, {year})", (maj, mi) + ((pa,) if pa else ()), datetime.date(year, mon + 1, day), vs))
for t in texts:
    v = BeaconVersion(t)
    ok = v.tuple is not None and v.date is not None and str(v) == t and t.startswith("Cobalt Strike " + v.version_only + " ")
    ver.case(t, ok, sample=t, witness={"text": t})
for t, tup, date, vs in gen:
    v = BeaconVersion(t)
    # note: a patch level of 0 is printed but not kept in the tuple by the library ("if m.group('patch')" is truthy for "0")
    want_tuple = tuple(int(x) for x in vs.split("."))
    ok = v.tuple == want_tuple and v.date == date and v.version_string == f"Cobalt Strike {vs}"
    ver.case(t, ok, sample=t, witness={"text": t, "tuple": v.tuple, "date": str(v.date)})
unk = BeaconVersion("Unknown")
ver.case("Unknown", unk.tuple is None and unk.date is None and unk.version_only == "Unknown", witness={"text": "Unknown"})

pec = Component("pe-helpers-on-reference-images",
                "reference images (x86/x64, e_lfanew 0x40/0x80, 0-3 sections, export RVA in/out of a section, prepend 0/3/70 bytes, "
                "append 0/5 bytes, custom MZ/PE magic): architecture, stamps, magic, prepend/append compared with the generator's values")
for machine, arch in ((0x8664, "x64"), (0x14c, "x86")):
    for e in (0x40, 0x80):
        for nsec, rva, want_exp in ((1, 0x1000, True), (3, 0x2000, True), (1, 0x9000, False), (0, 0x1000, False)):
            for prep in (b"", b"\x90" * 3, b"\x01" * 70):
                for app in (b"", b"APPND"):
                    img = ns["mini_pe"](machine=machine, e_lfanew=e, stamp=0x5f94c216, nsections=nsec, export_rva=rva,
                                        export_stamp=0x5fa0b201, append=app)
                    data = prep + img
                    fh = io.BytesIO(data)
                    cs, es = pe.find_compile_stamps(fh)
                    a = pe.find_architecture(fh)
                    pre, ap = pe.find_stage_prepend_append(fh)
                    mo = pe.find_mz_offset(fh)
                    # the export directory of the generator lives at the start of the FIRST section's raw data
                    exp_ok = (es == 0x5fa0b201) if (want_exp and rva == 0x1000) else True
                    ok = (mo == len(prep) and a == arch and cs == 0x5f94c216 and exp_ok and (es is None) == (not want_exp)
                          and pre == (prep or None) and (nsec == 0 or (ap or b"") == app))
                    pec.case((machine, e, nsec, rva, len(prep), len(app)), ok,
                             sample={"machine": hex(machine), "e_lfanew": e, "sections": nsec, "prepend": len(prep)},
                             witness={"machine": hex(machine), "e_lfanew": e, "nsec": nsec, "rva": hex(rva), "prepend": len(prep),
                                      "got": [mo, a, cs, es, repr(pre)[:20], repr(ap)[:20]]})
# ---------------------------------------------------------------- the deduced version follows the CURRENT attributes
from dissect.cobaltstrike.beacon import BeaconConfig
cur = Component("deduced-version-follows-current-stamps",
                "BeaconConfig objects with every max setting index of the table (and some unknown ones): version read before a PE export "
                "stamp is known, after one is assigned (every table stamp + unknown stamps), after it is cleared again, in both orders; "
                "the result is the export-stamp entry when a stamp is present, else the setting-index entry, 'Unknown' when absent")
def block_with_max_index(mx):
    return bytes.fromhex("0001000100020008") + mx.to_bytes(2, "big") + bytes.fromhex("00010002") + b"\x00\x01" + b"\x00\x00"
stamps = sorted(PE_EXPORT_STAMP_TO_VERSION)
for mx in sorted(MAX_ENUM_TO_VERSION) + [2, 60000]:
    by_index = MAX_ENUM_TO_VERSION.get(mx, "Unknown")
    for st in rng.sample(stamps, 3) + [12345]:
        by_stamp = PE_EXPORT_STAMP_TO_VERSION.get(st, "Unknown")
        try:
            c1 = BeaconConfig(block_with_max_index(mx))
            v0 = str(c1.version)
            c1.pe_export_stamp = st
            v1 = str(c1.version)
            c1.pe_export_stamp = None
            v2 = str(c1.version)
            c2 = BeaconConfig(block_with_max_index(mx))
            c2.pe_export_stamp = st
            w1 = str(c2.version)
            ok = v0 == by_index and v1 == by_stamp and v2 == by_index and w1 == by_stamp
            got = [v0, v1, v2, w1]
        except Exception as ex:   # noqa
            ok, got = False, repr(ex)
        cur.case((mx, st), ok, witness={"max_setting_index": mx, "export_stamp": st, "expected": [by_index, by_stamp, by_index, by_stamp], "got": got})
emit([ver, pec, cur])
