"""Bounded stand-in for the part of C01 above the proved chain (iter_find_needle, xor, XorEncodedFile.*,
find_beacon_config_bytes, iter_beacon_config_blocks are proved): BeaconConfig.from_bytes / from_file / from_path on the real
code against a reference extractor written from the property statement, over container layouts, embedding offsets around
read-buffer boundaries, fillers, key lists and all-keys mode, several candidates, and the no-candidate ValueError."""
import os, sys, io, tempfile
sys.path.insert(0, os.path.dirname(os.path.abspath(__file__)))
from common import Component, emit, rng, TIER, time_limit, CaseTimeout, load_spec_module, limited_call
cfggen = load_spec_module("cfggen")
gens = load_spec_module("gens")
from dissect.cobaltstrike.beacon import BeaconConfig

HEADER = bytes.fromhex("00010001000200")
DEFAULT_KEYS = [b"\x69", b"\x2e", b"\x00"]


def x1(data, k):
    return bytes(c ^ k for c in data)


def ref_settings(block):
    """TLV parse written from the format: index u16, type u16, length u16, value; ends at index 0 / end of data"""
    out, p = [], 0
    while p + 6 <= len(block):
        idx, ty, ln = (int.from_bytes(block[p + i:p + i + 2], "big") for i in (0, 2, 4))
        if idx == 0:
            break
        if p + 6 + ln > len(block):
            break
        out.append((idx, ty, ln, block[p + 6:p + 6 + ln]))
        p += 6 + ln
    return out


def ref_xordecode(data):
    """decoded view if the data is a XorEncoded container whose payload starts with a PE image, else None.
    The nonce offset candidates are: 0 or the byte after an `ff ff ff` stub end, where the size field accounts for the rest."""
    cands = [0] + [i + 3 for i in range(min(len(data), 1024)) if data[i:i + 3] == b"\xff\xff\xff"]
    for off in cands:
        if off + 8 > len(data):
            continue
        nonce = data[off:off + 4]
        size = int.from_bytes(bytes(a ^ b for a, b in zip(data[off + 4:off + 8], nonce)), "little")
        if size != len(data) - off - 8:
            continue
        key, plain = bytearray(nonce), bytearray()
        for i, c in enumerate(data[off + 8:]):
            plain.append(c ^ key[i % 4])
            key[i % 4] = c
        if plain[:2] == b"MZ":
            return bytes(plain)
    return None


def ref_extract(data, keys):
    """(block, key, xorencoded) of the first candidate in key-priority then file order, XorEncoded view first; None if none"""
    views = []
    dec = ref_xordecode(data)
    if dec is not None:
        views.append((dec, True))
    views.append((data, False))
    for view, flag in views:
        for k in keys:
            p = view.find(x1(HEADER, k[0]))
            if p >= 0:
                return x1(view[p:p + 4096], k[0]), k, flag
    return None


def settings_of(bc):
    return [(s.index.value, s.type.value, s.length, bytes(s.value)) for s in bc.settings_tuple]


def expected_settings(block):
    """what the settings list must be: the TLV items; an over-long User-Agent (0x80 bytes without NUL) is continued up to the
    next NUL by the library (documented edge case) - not generated here"""
    return ref_settings(block)


comp = Component("extraction-vs-reference",
                 "generated configuration blocks (complete HTTP configurations and minimal ones) x XOR keys (defaults, caller lists, "
                 "all 256 in all-keys mode) x embedding offsets {0, 1, B-8..B+1, 2B-7, random} for read-buffer sizes B in {7, 8, 64, "
                 "8192} x fillers {zeros, random, header prefixes, key byte} x containers {raw, PE .data, XorEncoded PE with stub/nonce} "
                 "x API {from_bytes, from_file, from_path}; block truncated by the end of the file; 700 cases quick / 20000 thorough")
c_multi = Component("several-candidates-and-none", "two blocks under different keys (priority order wins), two under the same key (file "
                    "order wins), a candidate only outside the tried keys (ValueError; found with all_xor_keys=True), empty and short "
                    "inputs (ValueError)")


def filler(n, kind, key):
    if kind == 0:
        return bytes(n)
    if kind == 1:
        return bytes(rng.randrange(256) for _ in range(n))
    if kind == 2:
        pre = x1(HEADER, key)[:6]
        return (pre * (n // 6 + 1))[:n]
    return bytes([key]) * n


def embed(block_x, off, tail, kind, key):
    return filler(off, kind, key) + block_x + filler(tail, kind, key)


def no_accidental(data, keys, want_off, key):
    """the generated filler must not contain an earlier / higher-priority header by accident"""
    for k in keys:
        p = data.find(x1(HEADER, k[0]))
        if p >= 0:
            return k[0] == key and p == want_off
    return False


N = 700 if TIER == "quick" else 20000
import common as _common
tmpdir = _common.mkdtemp("c01-")
done = 0
attempts = 0
while done < N and attempts < 20 * N:
    attempts += 1
    i = done
    if i % 4 == 0:
        block, _ = cfggen.config_block(rng)
    else:
        block = bytes.fromhex("0001000100020008") + bytes.fromhex("0002000100020050") + bytes.fromhex("000300020004") + \
            rng.randrange(2**32).to_bytes(4, "big") + b"\x00\x00"
    block = block + bytes(rng.choice([0, 7, 4096 - len(block) if len(block) < 4096 else 0]))
    mode = rng.choice(["default", "default", "custom", "all", "custom+all"])
    if mode == "default":
        key = rng.choice([0x69, 0x2e, 0x00]); keys = DEFAULT_KEYS; kw = {}
    elif mode == "custom":
        key = rng.randrange(256); keys = [bytes([rng.randrange(256)]) for _ in range(rng.randrange(0, 3))] + [bytes([key])]
        rng.shuffle(keys); kw = {"xor_keys": list(keys)}
    elif mode == "custom+all":
        # caller-supplied keys AND the all-keys retry: every key that was not tried first must be tried afterwards,
        # in particular a default key the caller left out
        keys = [bytes([rng.randrange(256)]) for _ in range(rng.randrange(1, 3))]
        key = rng.choice([k for k in (0x69, 0x2e, 0x00, rng.randrange(256)) if bytes([k]) not in keys])
        kw = {"xor_keys": list(keys), "all_xor_keys": True}
    else:
        key = rng.choice([k for k in range(256) if k not in (0x69, 0x2e, 0x00)]); keys = DEFAULT_KEYS; kw = {"all_xor_keys": True}
    B = rng.choice([7, 8, 64, 8192])
    off = rng.choice([0, 1, B - 8, B - 7, B - 6, B - 1, B, B + 1, 2 * B - 7, 2 * B - 3, rng.randrange(0, 3 * B)])
    off = max(off, 0)
    kind = rng.randrange(4)
    tail = rng.choice([0, 0, 5, rng.randrange(0, 200)])
    cut = rng.random() < 0.15
    blk_x = x1(block, key)
    if cut:
        blk_x = blk_x[:rng.randrange(7, len(blk_x))]
        tail = 0
    container = rng.choice(["raw", "raw", "pe", "xorpe"])
    inner = embed(blk_x, off, tail, kind if key or kind != 3 else 1, key)
    if container == "raw":
        data = inner
    else:
        pe = gens.mini_pe(machine=rng.choice([0x8664, 0x14c]), append=inner)
        data = pe if container == "pe" else gens.xorencode(pe, nonce=bytes(rng.randrange(1, 256) for _ in range(4)),
                                                            stub=rng.choice([b"", b"\xfc\xe8" + b"\x90" * 7 + b"\xff\xff\xff"]))
    search_keys = keys if mode not in ("all", "custom+all") else keys + [bytes([key])]
    want = ref_extract(data, search_keys)
    if want is None:
        continue
    # keep only cases whose expected answer is unambiguous for the all-keys mode (one candidate key besides the defaults)
    if mode in ("all", "custom+all"):
        others = [k for k in range(256) if bytes([k]) not in search_keys and
                  (data.find(x1(HEADER, k)) >= 0 or (ref_xordecode(data) or b"").find(x1(HEADER, k)) >= 0)]
        if others:
            continue
    api = rng.choice(["bytes", "file", "path"])
    import io as _io
    saved_B = _io.DEFAULT_BUFFER_SIZE
    witness = {"api": api, "mode": mode, "key": key, "keys": [k.hex() for k in keys], "buffer_size": B, "offset": off, "container": container,
               "filler": kind, "truncated": cut, "data_len": len(data), "data_hex": data.hex() if len(data) <= 30000 else data[:30000].hex()}
    try:
        _io.DEFAULT_BUFFER_SIZE = B
        start_pos = rng.randrange(0, len(data) + 1)

        def call():
            if api == "bytes":
                return BeaconConfig.from_bytes(data, **kw)
            elif api == "file":
                fh = _io.BytesIO(data)
                fh.seek(start_pos)        # any initial position
                return BeaconConfig.from_file(fh, **kw)
            p = os.path.join(tmpdir, "sample.bin")
            open(p, "wb").write(data)
            return BeaconConfig.from_path(p, **kw)
        bc = limited_call(call)
        ok = (bytes(bc.config_block) == want[0] and bc.xorkey == want[1] and bc.xorencoded == want[2]
              and settings_of(bc) == expected_settings(want[0]))
        witness.update(got_key=repr(bc.xorkey), got_xorencoded=bc.xorencoded, want_key=want[1].hex(), want_xorencoded=want[2],
                       block_equal=bytes(bc.config_block) == want[0], settings_equal=settings_of(bc) == expected_settings(want[0]))
    except CaseTimeout:
        ok = False
        witness["error"] = "no result within 900 s of CPU time"
    except Exception as ex:   # noqa
        ok = False
        witness["error"] = repr(ex)
    finally:
        _io.DEFAULT_BUFFER_SIZE = saved_B
    comp.case((i, off, B, key, container), ok, sample=f"{container}/{mode}/key={key:#x}/off={off}/B={B}", witness=witness)
    done += 1

# ---------------------------------------------------------------- several candidates / none
blockA = bytes.fromhex("0001000100020008") + bytes.fromhex("00020001000201bb") + b"\x00\x00" + bytes(40)
blockB = bytes.fromhex("0001000100020000") + bytes.fromhex("0002000100020050") + b"\x00\x00" + bytes(40)
cases = []
for ka, kb in ((0x2e, 0x69), (0x00, 0x2e), (0x69, 0x00), (0x2e, 0x2e), (0x69, 0x69)):
    data = b"\x90" * 13 + x1(blockA, ka) + b"\xcc" * 9 + x1(blockB, kb) + b"\x90" * 5
    cases.append(("two-blocks", data, {}, DEFAULT_KEYS))
    cases.append(("two-blocks-custom-order", data, {"xor_keys": [bytes([kb]), bytes([ka])]}, [bytes([kb]), bytes([ka])]))
for k in (0x41, 0xff, 0x01):
    data = b"\x90" * 20 + x1(blockA, k) + b"\x90" * 20
    cases.append(("outside-tried-keys", data, {}, DEFAULT_KEYS))
    cases.append(("all-keys-finds-it", data, {"all_xor_keys": True}, DEFAULT_KEYS + [bytes([k])]))
for data in (b"", b"\x00", HEADER[:6], b"MZ" + bytes(100), bytes(range(256)) * 4):
    cases.append(("no-candidate", data, {}, DEFAULT_KEYS))
for k in (0x00, 0x2e, 0x69):
    # a header cut off at the very start of the file is not a header (carry buffer of the needle search)
    cases.append(("header-tail-at-offset-0", x1(HEADER, k)[1:] + b"\x90" * 30, {}, DEFAULT_KEYS))
    cases.append(("header-tail-then-real-block", x1(HEADER, k)[1:] + b"\x90" * 30 + x1(blockA, k) + b"\x90" * 3, {}, DEFAULT_KEYS))
for name, data, kw, keys in cases:
    want = ref_extract(data, keys)
    try:
        with time_limit(20):
            bc = BeaconConfig.from_bytes(data, **kw)
        ok = want is not None and bytes(bc.config_block) == want[0] and bc.xorkey == want[1] and bc.xorencoded == want[2]
        got = {"key": repr(bc.xorkey), "first_setting": settings_of(bc)[:1]}
    except ValueError as ex:
        ok, got = want is None, repr(ex)
    except CaseTimeout:
        ok, got = False, "timeout"
    except Exception as ex:   # noqa
        ok, got = False, repr(ex)
    c_multi.case((name, data[:40]), ok, sample=name, witness={"case": name, "data_hex": data.hex()[:400], "kwargs": repr(kw),
                                                           "expected": None if want is None else want[1].hex(), "got": got})
try:
    os.remove(os.path.join(tmpdir, "sample.bin"))
except OSError:
    pass
_common.cleanup_tmp()
emit([comp, c_multi])
