"""Bounded stand-in for the history part of C14: sequences of uses of ONE configuration object (real code).  After every
operation the configuration's public views are compared with a deep snapshot taken from a fresh configuration, and
the operation's result with the result of the same operation on a fresh configuration.  The proof part (frames of
HttpDataTransform.__init__/transform/recover) is in contracts/c2transform.py."""
import os, sys, itertools, random as _random, logging
sys.path.insert(0, os.path.dirname(os.path.abspath(__file__)))
from common import Component, emit, rng, TIER, time_limit, CaseTimeout, load_spec_module
cfggen = load_spec_module("cfggen")
logging.disable(logging.CRITICAL)
from dissect.cobaltstrike.beacon import BeaconConfig
from dissect.cobaltstrike.c2 import C2Http, C2Data, HttpRequest, HttpResponse
from dissect.cobaltstrike.c2profile import C2Profile
from dissect.cobaltstrike.client import HttpBeaconClient

KEY = cfggen.test_keypair()


def freeze(x):
    """deep, order-preserving, hashable-free plain copy (lists and tuples are told apart)"""
    if isinstance(x, (list,)):
        return ["L"] + [freeze(v) for v in x]
    if isinstance(x, tuple):
        return ["T"] + [freeze(v) for v in x]
    if isinstance(x, dict) or hasattr(x, "items"):
        return ["D"] + [[freeze(k), freeze(v)] for k, v in x.items()]
    if isinstance(x, (bytes, bytearray, str, int, float, bool, type(None))):
        return x
    return repr(x)


def snapshot(bc):
    return freeze([bc.config_block, [repr(s) for s in bc.settings_tuple], bc.settings, bc.raw_settings, bc.settings_by_index,
                   bc.raw_settings_by_index, bc.domains, bc.uris, bc.domain_uri_pairs, bc.protocol, bc.port, bc.killdate,
                   bc.watermark, bc.is_trial, bc.public_key, bc.sleeptime, bc.jitter, str(bc.version), bc.submit_uri,
                   bc.setting_enums, bc.max_setting_enum])


# ---------------------------------------------------------------- operations (each deterministic given the configuration)
def op_views(bc):
    return snapshot(bc)


def op_settings_map_raw(bc):
    return freeze([bc.settings_map(index_type=it, pretty=False, parse=False) for it in ("name", "const", "enum")])


def op_settings_map_all(bc):
    return freeze([bc.settings_map(index_type=it, pretty=pr, parse=pa) for it in ("name", "const", "enum") for pr in (False, True) for pa in (False, True)])


def _c2http_obs(c):
    return freeze([c.submit_uri, c.submit_verb, c.get_uris, c.get_verb, c.transform_get.tsteps, c.transform_get.rsteps,
                   c.transform_submit.tsteps, c.transform_submit.rsteps, c.transform_response.tsteps, c.transform_response.rsteps,
                   c.aes_key, c.hmac_key, tuple(c.beacon_keys)])


def op_c2http_keys(bc):
    return _c2http_obs(C2Http(bc, aes_key=b"K" * 16, hmac_key=b"H" * 16))


def op_c2http_rand(bc):
    return _c2http_obs(C2Http(bc, aes_rand=b"R" * 16))


def op_c2http_rsa(bc):
    return _c2http_obs(C2Http(bc, rsa_private_key=KEY))


def op_client(bc):
    _random.seed(1234)
    cl = HttpBeaconClient()
    rc = cl.run(bc, dry_run=True, beacon_id=4242, pid=1111, computer="PC", user="bob", process="x.exe", internal_ip="10.1.2.3",
                arch="x64", silent=True)
    return freeze([rc, cl.beacon_id, cl.aes_rand, cl.aes_key, cl.hmac_key, cl.domain, cl.task_url, cl.callback_url, cl.user_agent,
                   cl.host_header, cl.sleeptime, cl.jitter, cl.metadata.dumps(), cl.get_verb, cl.submit_verb, cl.port, cl.scheme])


def op_profile(bc):
    return str(C2Profile.from_beacon_config(bc))


def op_get_roundtrip(bc):
    _random.seed(99)
    c = C2Http(bc, aes_key=b"K" * 16, hmac_key=b"H" * 16)
    req = HttpRequest(method=c.get_verb, uri=b"", params={}, headers={b"User-Agent": b"ua"}, body=b"")
    msg = c.transform_get.transform(C2Data(metadata=b"\x00meta\xffdata" * 3), req)
    rec = c.transform_get.recover(msg)
    return freeze([msg.uri, msg.params, msg.headers, msg.body, rec.metadata, rec.id, rec.output])


def op_post_roundtrip(bc):
    _random.seed(98)
    c = C2Http(bc, aes_key=b"K" * 16, hmac_key=b"H" * 16)
    msg = c.transform_submit.transform(C2Data(id=b"4242", output=b"\x01\x02out\x00put" * 5))
    rec = c.transform_submit.recover(msg)
    return freeze([msg.uri, msg.params, msg.headers, msg.body, rec.metadata, rec.id, rec.output])


def op_server_roundtrip(bc):
    _random.seed(97)
    c = C2Http(bc, aes_key=b"K" * 16, hmac_key=b"H" * 16)
    msg = c.transform_response.transform(C2Data(output=b"task\x00bytes" * 4))
    rec = c.transform_response.recover(HttpResponse(status=200, reason=b"OK", headers=msg.headers, body=msg.body, request=None))
    return freeze([msg.headers, msg.body, rec.output, rec.id, rec.metadata])


def op_rsa_decoder_learns_keys(bc):
    """a decoder with the RSA key learns the session keys from a check-in; a decoder built AFTERWARDS from the same configuration
    starts without session keys (what one decoder learned is its own state, not the configuration's)"""
    from dissect.cobaltstrike.c2 import encrypt_metadata, BeaconMetadata
    c = C2Http(bc, rsa_private_key=KEY)
    md = BeaconMetadata()
    md.magic, md.aes_rand, md.bid, md.info = 0xBEEF, b"R" * 16, 1234, b"c\tu\tp"
    blob = encrypt_metadata(md, KEY.publickey())
    _random.seed(5)
    req = c.transform_get.transform(C2Data(metadata=blob), HttpRequest(method=c.get_verb, uri=c.get_uris[0], params={}, headers={}, body=b""))
    pk = list(c.iter_recover_http(req))
    later = C2Http(bc, rsa_private_key=KEY)
    if later.beacon_keys.aes_key is not None or later.beacon_keys.hmac_key is not None:
        raise AssertionError("a decoder built after another one had learned session keys starts with those keys")
    return freeze([[(p.bid, bytes(p.aes_rand)) for p in pk], c.beacon_keys.aes_key, c.beacon_keys.hmac_key, later.beacon_keys.aes_key,
                   later.beacon_keys.hmac_key, later.aes_key, later.hmac_key])


def op_mutate_views(bc):
    """every top-level mutation of the four mappings is rejected"""
    out = []
    for view in (bc.settings, bc.raw_settings, bc.settings_by_index, bc.raw_settings_by_index):
        k = next(iter(view))
        for attempt in ("set", "del", "new", "clear", "update", "pop"):
            try:
                if attempt == "set":
                    view[k] = 1
                elif attempt == "del":
                    del view[k]
                elif attempt == "new":
                    view["NEW"] = 1
                elif attempt == "clear":
                    view.clear()
                elif attempt == "update":
                    view.update({k: 1})
                else:
                    view.pop(k)
                out.append("ACCEPTED:" + attempt)
            except (TypeError, AttributeError):
                out.append("rejected")
    return out


OPS = [op_views, op_settings_map_raw, op_settings_map_all, op_c2http_keys, op_c2http_rand, op_c2http_rsa, op_client, op_profile, op_get_roundtrip, op_post_roundtrip,
       op_server_roundtrip, op_rsa_decoder_learns_keys, op_mutate_views]

comp = Component("histories-of-one-configuration",
                 "generated complete HTTP(S) configurations (random get/post/server programs); operations: views, settings_map with every index / pretty / parse combination, C2Http with each key "
                 "variant, client dry-run, profile generation, get/post/server transform+recover, a decoder learning session keys from a check-in, mutation attempts on the four "
                 "mappings; ALL sequences of length <= 2 (quick) / <= 3 (thorough) over the 13 operations plus random sequences of "
                 "length 4-12 (60 quick / 1000 thorough); after every operation: views == fresh snapshot and result == result on a "
                 "fresh configuration")
c_mut = Component("mappings-reject-mutation", "set / delete / insert / clear / update / pop on settings, raw_settings, settings_by_index, "
                  "raw_settings_by_index of every generated configuration")

NCFG = 2 if TIER == "quick" else 3
for ci in range(NCFG):
    # settings whose decoded values are lists / structured (shared mutable values inside the cached views)
    gate = [0, 0] + [1] * 21 if ci % 2 == 0 else [rng.randrange(2) for _ in range(23)]
    extra = [cfggen.setting(78, 3, bytes(gate)),
             cfggen.setting(51, 3, bytes([1, 8, 2]) + bytes([6]) + (16).to_bytes(2, "big") + (6).to_bytes(4, "big") + b"ntdll\x00" +
                            (5).to_bytes(4, "big") + b"Func\x00" + b"\x00", 128),
             cfggen.setting(42, 3, (0x1000).to_bytes(4, "little") + (0x2000).to_bytes(4, "little") + bytes(8), 32),
             cfggen.setting(46, 3, (2).to_bytes(4, "big") + b"ap" + (3).to_bytes(4, "big") + b"pre", 64),
             # index 36 in its deprecated reading (TYPE_SHORT: SETTING_INJECT_OPTIONS) or its current one (TYPE_PTR: watermark hash)
             cfggen.setting(36, 1, 2) if ci % 2 == 0 else cfggen.setting(36, 3, b"hash" + bytes(4), 32),
             cfggen.setting(16, 1, 0), cfggen.setting(19, 2, 0)]
    blk, desc = cfggen.config_block(rng, https=bool(ci % 2), extra=extra)
    fresh = lambda: BeaconConfig(blk)     # noqa: E731
    snap0 = snapshot(fresh())
    expected = []
    for op in OPS:
        try:
            expected.append(op(fresh()))
        except Exception as ex:     # noqa: an operation that fails on a FRESH configuration is a violation by itself
            expected.append(("raised", repr(ex)[:300]))
            comp.case((ci, op.__name__, "fresh"), False, witness={"history": [op.__name__], "why": f"{op.__name__} raised {ex!r} on a fresh configuration"[:400],
                                                               "config_block_hex": blk.hex()[:4000]})
    ok = isinstance(expected[-1], list) and all(r == "rejected" for r in expected[-1])
    c_mut.case(ci, ok, witness={"config": desc, "attempts": expected[-1]})
    maxlen = 2 if TIER == "quick" else 3
    seqs = [s for n in range(1, maxlen + 1) for s in itertools.product(range(len(OPS)), repeat=n)]
    for _ in range(60 if TIER == "quick" else 1000):
        seqs.append(tuple(rng.randrange(len(OPS)) for _ in range(rng.randrange(4, 13))))
    for seq in seqs:
        bc = fresh()
        ok, why = True, None
        try:
            with time_limit(20):
                for pos, k in enumerate(seq):
                    r = OPS[k](bc)
                    if r != expected[k]:
                        ok, why = False, f"result of {OPS[k].__name__} at position {pos} differs from the result on a fresh configuration"
                        break
                    if snapshot(bc) != snap0:
                        ok, why = False, f"configuration views changed after {OPS[k].__name__} at position {pos}"
                        break
        except CaseTimeout:
            ok, why = False, "timeout"
        except Exception as ex:     # noqa
            ok, why = False, f"{OPS[k].__name__} raised {ex!r}"
        comp.case((ci, seq), ok, sample=[OPS[k].__name__ for k in seq][:6],
                  witness={"history": [OPS[k].__name__ for k in seq], "why": why, "get": repr(desc["get"]), "post": repr(desc["post"]),
                           "server": repr(desc["server"]), "config_block_hex": blk.hex()[:4000]})
emit([comp, c_mut])
