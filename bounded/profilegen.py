"""Sentence generator for the Malleable C2 profile language, driven by the grammar file itself: the compiled rule list of
c2profile.lark (read through lark on every run) is expanded top-down.  Coverage-directed: rules not used yet are preferred,
so a batch uses every production of the grammar at least once; depth-bounded, then seeded random.
Also: an independent tokenizer (strings, words, punctuation; comments and whitespace dropped) and an independent
`dict_of_tokens` written from the statement of C11."""
import re


def literal(rng, kind=None):
    """a random STRING literal (with quotes) and the bytes it denotes, written from the documented escapes"""
    if kind is None and rng.random() < 0.05:
        # the name of the default variant, wherever a string may stand (a variant named "default" is still a token of the source)
        return '"default"', b"default"
    kind = kind if kind is not None else rng.randrange(7)
    if kind == 6:
        # literals that look like syntax: punctuation next to blanks, comment signs, keywords
        s = rng.choice([" ;", "a ; b", "x ;", "; ", "{ }", " { ", " #c", "# x", "set", " set uri ", "}", ";;", "  ", "a  b", "print;",
                        # literals that span lines (raw line breaks and tabs inside the quotes denote themselves)
                        "line1\nline2", "a\r\nb", "\n", "\tx\n", "GET /x\nHost: h\n\n", "# c\n;",
                        "a\n   \nb", "x\n\t\ny", " \n \n ", "line one\n    line two\n    line three", "\n\n",
                        # values that are also defaults / reserved words of the language
                        "default", "default", "Default", "true", "false", "0", "",
                        None, None, None])
        if s is None:
            # escaped quotes / backslashes at the edges of the literal
            return rng.choice([('"\\"q\\""', b'"q"'), ('"a\\""', b'a"'), ('"\\""', b'"'), ('"\\\\"', b"\\"), ('"x\\\\"', b"x\\"),
                               ('"\\\'a\\\'"', b"'a'")])
        return '"' + s + '"', s.encode()
    if kind == 0:
        s = "".join(rng.choice("abcXYZ019 /._-=:;{}#%&?") for _ in range(rng.randrange(0, 12)))
        return '"' + s + '"', s.encode()
    if kind == 1:
        return '""', b""
    out, val = '"', bytearray()
    for _ in range(rng.randrange(1, 8)):
        c = rng.randrange(9)
        if c == 0:
            b = rng.randrange(256); out += "\\x%02x" % b; val.append(b)
        elif c == 1:
            b = rng.randrange(256); out += "\\u00%02X" % b; val.append(b)
        elif c == 2:
            e, v = rng.choice([("\\n", 10), ("\\r", 13), ("\\t", 9), ("\\\\", 92), ('\\"', 34), ("\\'", 39)]); out += e; val.append(v)
        elif c == 3:
            out += "'"; val.append(39)
        elif c == 4:
            ch = rng.choice("{};#\n\t"); out += ch; val.append(ord(ch))
        else:
            ch = rng.choice("abcdefXYZ0123456789 =/"); out += ch; val.append(ord(ch))
    return out + '"', bytes(val)


class Grammar:
    def __init__(self, parser, rng):
        self.rng = rng
        self.rules = {}
        for r in parser.rules:
            self.rules.setdefault(r.origin.name, []).append(r)
        self.terms = {t.name: t for t in parser.terminals}
        self.used = set()
        self.skip = set()
        # reachability between nonterminals (for coverage-directed choices)
        self.reach = {n: {n} for n in self.rules}
        changed = True
        while changed:
            changed = False
            for n, rs in self.rules.items():
                for r in rs:
                    for sy in r.expansion:
                        if not sy.is_term:
                            new = self.reach[sy.name] - self.reach[n]
                            if new:
                                self.reach[n] |= new
                                changed = True
        opt = self.terms["OPTION"].pattern.value
        self.options = opt[opt.index("(?:") + 3:opt.rindex(")")].split("|")

    def rule_key(self, r):
        return (r.origin.name, tuple(s.name for s in r.expansion), r.alias)

    def all_rule_keys(self):
        return {self.rule_key(r) for rs in self.rules.values() for r in rs}

    def term_text(self, name, out_literals):
        t = self.terms[name]
        if name == "STRING":
            lit, val = literal(self.rng)
            out_literals.append((lit, val))
            return lit
        if name == "OPTION":
            return self.rng.choice(self.options)
        if type(t.pattern).__name__ == "PatternStr":
            return t.pattern.value
        raise ValueError(name)

    def expand(self, sym, depth, out, lits):
        rs = [r for r in self.rules[sym] if self.rule_key(r) not in self.skip]
        fresh = [r for r in rs if self.rule_key(r) not in self.used]
        if not fresh and depth > 0:
            # no unused alternative here: prefer alternatives from which an unused production can still be reached
            open_origins = {str(k[0]) for k in self.all_rule_keys() - self.used - self.skip}
            fresh = [r for r in rs if any((not sy.is_term) and (self.reach[sy.name] & open_origins) for sy in r.expansion)]
        if depth <= 0:
            # prefer the shortest expansions when the depth budget is used up
            m = min(len(r.expansion) for r in rs)
            pool = [r for r in rs if len(r.expansion) == m]
            pool = [r for r in pool if r in fresh] or pool
        else:
            pool = fresh or rs
        r = self.rng.choice(pool)
        self.used.add(self.rule_key(r))
        for s in r.expansion:
            if s.is_term:
                out.append(self.term_text(s.name, lits))
            else:
                self.expand(s.name, depth - 1 if not s.name.startswith("__") else depth - (0 if self.rng.random() < 0.75 else 1), out, lits)

    def sentence(self, depth=6):
        out, lits = [], []
        self.expand("start", depth, out, lits)
        return out, lits


def render(tokens, rng):
    """source text with random whitespace and comments between the tokens"""
    parts = []
    for t in tokens:
        parts.append(t)
        r = rng.random()
        parts.append(" " if r < 0.6 else "\n" if r < 0.8 else "  \t" if r < 0.9 else " # a comment ; { \" }\n")
    return "".join(parts)


TOKEN_RE = re.compile(r'"(?:\\.|[^"\\])*"|#[^\n]*|[{};]|[^\s{};"#]+', re.S)


def tokenize(text):
    """independent tokenizer: string literals, words, punctuation; comments and white space dropped"""
    return [m.group(0) for m in TOKEN_RE.finditer(text) if not m.group(0).startswith("#")]


def decode_literal(lit):
    """bytes of a STRING literal, from the documented escape table"""
    s, out, i = lit[1:-1], bytearray(), 0
    while i < len(s):
        c = s[i]
        if c == "\\" and i + 1 < len(s):
            n = s[i + 1]
            if n == "x":
                out.append(int(s[i + 2:i + 4], 16)); i += 4
            elif n == "u":
                out.append(int(s[i + 4:i + 6], 16)); i += 6
            elif n in "nrt\\\"'":
                out.append({"n": 10, "r": 13, "t": 9, "\\": 92, '"': 34, "'": 39}[n]); i += 2
            else:
                i += 2
        else:
            out.append(ord(c) & 0xFF); i += 1
    return bytes(out)


LIST_PROPS = {"stage.transform-x86.header", "process-inject.transform-x86", "process-inject.execute", "http-post.server.output",
              "http-post.client.id", "http-post.client.output", "http-stager.server.output", "http-get.client.metadata",
              "http-get.server.output"}


def dict_of_tokens(tokens):
    """the dictionary view, written from the statement of C11: for each block path the statements in source order;
    `set k v` -> path.k: v ; `k a b` -> path.k: (a, b) ; `k v` -> path.k: v ; bare `k` -> path: k ;
    statements inside the data-transform / execute lists named in the documentation -> path: k or (k, bytes(v));
    a variant is part of the path (the variant "default" is not)."""
    out, stack, i = {}, [], 0
    stmt = []
    for t in tokens:
        if t == "{":
            if stmt and stmt[-1].startswith('"'):
                var = stmt.pop()
                stack.append([stmt[-1]] if var == '"default"' else [stmt[-1], var])
            else:
                stack.append([stmt[-1]])
            stmt = []
        elif t == "}":
            stack.pop()
            stmt = []
        elif t == ";":
            words = [w for w in stmt if w != "set"] if stmt and stmt[0] == "set" else list(stmt)
            path = ".".join(x for fr in stack for x in fr)
            if path in LIST_PROPS:
                val = tuple(decode_literal(w) if w.startswith('"') else w for w in words)
                out.setdefault(path, []).append(val[0] if len(val) == 1 else val)
            else:
                strip = lambda w: w[1:-1] if w.startswith('"') else w     # noqa: E731
                if len(words) >= 3:
                    key, val = ".".join([path] + words[:-2]) if path else ".".join(words[:-2]), tuple(strip(w) for w in words[-2:])
                elif len(words) == 2:
                    key, val = (path + "." if path else "") + words[0], strip(words[1])
                else:
                    key, val = path, strip(words[0])
                out.setdefault(key, []).append(val)
            stmt = []
        else:
            stmt.append(t)
    return out
