"""Bounded stand-in for C13: complete configurations generated from the binary format (cfggen) -> real BeaconConfig ->
C2Profile.from_beacon_config -> as_text -> parsed back -> as_dict, compared with what the configuration says (computed here
from the generator's own description, not from library code)."""
import os, sys, logging
sys.path.insert(0, os.path.dirname(os.path.abspath(__file__)))
from common import Component, emit, rng, TIER, time_limit, CaseTimeout, load_spec_module
cfggen = load_spec_module("cfggen")
import profilegen
logging.disable(logging.CRITICAL)
from dissect.cobaltstrike.beacon import BeaconConfig
from dissect.cobaltstrike.c2profile import C2Profile

T_SHORT, T_INT, T_PTR = 1, 2, 3
PRINTABLE = "".join(chr(c) for c in range(32, 127) if chr(c) not in "\\")      # backslash: see component text-options-with-backslash
GATE = ["InternetOpenA", "InternetConnectA", "VirtualAlloc", "VirtualAllocEx", "VirtualProtect", "VirtualProtectEx", "VirtualFree",
        "GetThreadContext", "SetThreadContext", "ResumeThread", "CreateThread", "CreateRemoteThread", "OpenProcess", "OpenThread",
        "CloseHandle", "CreateFileMappingA", "MapViewOfFile", "UnmapViewOfFile", "VirtualQuery", "DuplicateHandle",
        "ReadProcessMemory", "WriteProcessMemory", "ExitThread"]


def text(lo=1, hi=20, alphabet=PRINTABLE):
    s = "".join(rng.choice(alphabet) for _ in range(rng.randrange(lo, hi + 1)))
    return s.strip() or "x"


TRICKY = [b"\\'", b"'\\", b'\\"', b"\\\\'", b"a\\'b", b"'", b'"', b"\\", b"\\\\", b"\\n", b"\n", b" ;", b"; ", b"{", b"#x",
          # control bytes: the language has \\r \\n \\t only, everything else is \\xHH (an independent reader knows no \\a \\b \\v \\f)
          b"\x07\x08id=", b"a\x0bb", b"tail\x0c", b"\x00\x01\x1b\x7f"]


def arg_bytes():
    r = rng.random()
    if r < 0.25:
        return rng.choice(TRICKY)
    if r < 0.3:
        return bytes(rng.randrange(256) for _ in range(rng.randrange(0, 8)))
    if r < 0.6:
        return bytes(rng.choice(b'"\\\'\n\r\t;{}#x u0') for _ in range(rng.randrange(1, 6)))
    return text(0, 10).encode()


def gen_steps(members, terms, static_ok=True):
    steps = []
    if static_ok:
        for _ in range(rng.randrange(0, 3)):
            steps.append(("_header", (text(1, 10, "abcXYZ-") + ": " + rng.choice([text(0, 12), "a: b", "x=y; z"])).encode()))
        for _ in range(rng.randrange(0, 2)):
            steps.append(("_parameter", (text(1, 6, "abcxyz") + "=" + rng.choice([text(0, 8, "abc019"), "dGVzdA==", "a=b", ""])).encode()))
        if steps and rng.random() < 0.35:
            # a name stated twice (Accept twice, the same parameter twice): both statements belong to the profile, in order
            k, v = rng.choice(steps)
            sep = b": " if k == "_header" else b"="
            steps.append((k, v.partition(sep)[0] + sep + text(1, 8, "abc019/").encode()))
    for m, t in zip(members, terms):
        steps.append(("build", m))
        for _ in range(rng.randrange(0, 4)):
            e = rng.choice(cfggen.ENCODERS)
            steps.append((e, arg_bytes()) if e in ("append", "prepend") else (e, True))
        steps.append(t)
    return steps


def want_block(steps, member):
    """the data-transform list of one build block as the dictionary view must show it"""
    out, on = [], False
    for k, v in steps:
        if k == "build":
            on = v == member
            continue
        if not on or k.startswith("_"):
            continue
        name = {"uri_append": "uri-append"}.get(k, k)
        out.append(name if v is True else (name, v))
    return out


def static_pairs(steps, kind, sep):
    return [tuple(x.decode("latin-1") for x in (v.partition(sep)[0], v.partition(sep)[2])) for k, v in steps if k in kind]


comp = Component("generated-profile-is-valid-and-faithful",
                 "configurations with random http-get / http-post / server programs (all seven encoders, arbitrary byte arguments incl. "
                 "quote, backslash, newline, NUL, high bytes; header / parameter / print / uri-append terminations; static headers and "
                 "parameters), text values over printable characters except backslash, optional process-inject / stage / DNS / BeaconGate "
                 "settings in random subsets; the generated text parses, and the dictionary of the parsed text states the configured "
                 "values; empty blocks are omitted; 120 configurations quick / 1500 thorough")
c_k5 = Component("text-options-with-backslash", "user agent `agent\\` (ends in a backslash) and a spawn-to path with backslashes")


def dec(x):
    if isinstance(x, tuple):
        return tuple(dec(y) for y in x)
    return profilegen.decode_literal('"' + x + '"') if isinstance(x, str) else x


def build_config(ua=None, extra_text_bs=False):
    get = gen_steps(["metadata"], [rng.choice([("header", text(1, 8, "abcXYZ-").encode()), ("parameter", text(1, 6, "abcxyz").encode()),
                                               ("print", True), ("uri_append", True)])])
    post = gen_steps(["id", "output"], [rng.choice([("parameter", b"id"), ("header", b"X-Id")]), ("print", True)])
    server = []
    for _ in range(rng.randrange(0, 4)):
        e = rng.choice(cfggen.ENCODERS)
        server.append((e, bytes(rng.randrange(256) for _ in range(rng.randrange(0, 5)))) if e in ("append", "prepend") else (e, True))
    if rng.random() < 0.08:
        # recover lengths are 32-bit numbers: a server prepend / append longer than any stored string
        server.insert(rng.randrange(len(server) + 1), (rng.choice(["append", "prepend"]), bytes(rng.choice([65535, 65536, 70001, 200000]))))
    server.append(("print", True))
    extra, want = [], {}
    if rng.random() < 0.5:
        v = rng.choice([64, 4]); extra.append(cfggen.setting(43, T_SHORT, v)); want["process-inject.startrwx"] = ["true" if v == 64 else "false"]
    if rng.random() < 0.5:
        v = rng.choice([64, 32]); extra.append(cfggen.setting(44, T_SHORT, v)); want["process-inject.userwx"] = ["true" if v == 64 else "false"]
    if rng.random() < 0.5:
        v = rng.randrange(1, 100000); extra.append(cfggen.setting(45, T_INT, v)); want["process-inject.min_alloc"] = [str(v)]
    if rng.random() < 0.5:
        items, blob = [], b""
        for _ in range(rng.randrange(1, 5)):
            e = rng.choice([1, 2, 3, 4, 5, 8, 6, 7])
            nm = {1: "CreateThread", 2: "SetThreadContext", 3: "CreateRemoteThread", 4: "RtlCreateUserThread", 5: "NtQueueApcThread",
                  8: "NtQueueApcThread-s", 6: "CreateThread", 7: "CreateRemoteThread"}[e]
            if e in (6, 7):
                mod, fn, off = text(1, 8, "abcdef"), text(1, 8, "ABCdef"), rng.choice([0, 16, 0x1234])
                mb, fb = mod.encode() + b"\x00", fn.encode() + b"\x00"
                blob += bytes([e]) + off.to_bytes(2, "big") + len(mb).to_bytes(4, "big") + mb + len(fb).to_bytes(4, "big") + fb
                items.append((nm, (mod + "!" + fn + ("+0x%x" % off if off else "")).encode()))
            else:
                blob += bytes([e]); items.append(nm)
        extra.append(cfggen.setting(51, T_PTR, blob + b"\x00", 128)); want["process-inject.execute"] = items
    for idx, arch in ((46, "x86"), (47, "x64")):
        if rng.random() < 0.4:
            pre, app = arg_bytes(), arg_bytes()
            extra.append(cfggen.setting(idx, T_PTR, len(app).to_bytes(4, "big") + app + len(pre).to_bytes(4, "big") + pre, 256))
            if arch == "x86":
                # documented list path: (name, bytes) entries, prepend first
                if pre or app:
                    want["process-inject.transform-x86(list)"] = ([("prepend", pre)] if pre else []) + ([("append", app)] if app else [])
            else:
                if pre:
                    want["process-inject.transform-x64.prepend(bytes)"] = [pre]
                if app:
                    want["process-inject.transform-x64.append(bytes)"] = [app]
    for idx, key in ((58, "tcp_frame_header"), (57, "smb_frame_header")):
        if rng.random() < 0.3:
            hdr = arg_bytes() or b"h"
            extra.append(cfggen.setting(idx, T_PTR, (len(hdr) + 4).to_bytes(2, "big") + hdr, 128))
            want[key + "(bytes)"] = [hdr]
    if rng.random() < 0.4:
        v = rng.choice([0, 1]); extra.append(cfggen.setting(52, T_SHORT, v))
        want["process-inject.allocator"] = ["NtMapViewOfSection" if v else "VirtualAllocEx"]
    if rng.random() < 0.5:
        flags = [rng.randrange(2) for _ in range(23)]
        if rng.random() < 0.2:
            flags = [1] * 23
        if any(flags):
            extra.append(cfggen.setting(78, T_PTR, bytes(flags)))
            on = [n for n, f in zip(GATE, flags) if f]
            want["stage.beacon_gate(set)"] = on
    if rng.random() < 0.4:
        for idx, key in ((60, "beacon"), (61, "get_A"), (62, "get_AAAA"), (63, "get_TXT"), (64, "put_metadata"), (65, "put_output")):
            if rng.random() < 0.7:
                v = text(1, 8, "abcxyz.") ; extra.append(cfggen.setting(idx, T_PTR, v.encode(), 33)); want["dns-beacon." + key] = [v]
    if rng.random() < 0.4:
        v = rng.choice([0, 1]); extra.append(cfggen.setting(28 + 10, T_SHORT, v)); want["stage.cleanup"] = [str(v)]
    # integer-valued options whose zero value is meaningful (0.0.0.0 is the default idle address, VirtualAlloc is allocator 0)
    if rng.random() < 0.4:
        v = rng.choice([0, 0, 0x01020304, 0xffffffff, rng.randrange(2 ** 32)]); extra.append(cfggen.setting(19, T_INT, v))
        want["dns-beacon.dns_idle"] = [".".join(str(b) for b in v.to_bytes(4, "big"))]
    if rng.random() < 0.3:
        v = rng.choice([0, 1, 1000, rng.randrange(2 ** 31)]); extra.append(cfggen.setting(20, T_INT, v)); want["dns-beacon.dns_sleep"] = [str(v)]
    if rng.random() < 0.3:
        v = rng.choice([0, 1, 255, rng.randrange(2 ** 16)]); extra.append(cfggen.setting(6, T_SHORT, v)); want["dns-beacon.maxdns"] = [str(v)]
    if rng.random() < 0.4:
        v = rng.choice([0, 0, 1, 2]); extra.append(cfggen.setting(16, T_SHORT, v))
        want["process-inject.bof_allocator"] = [["VirtualAlloc", "MapViewOfFile", "HeapAlloc"][v]]
    if rng.random() < 0.3:
        v = rng.choice([0, 1]); extra.append(cfggen.setting(48, T_SHORT, v))
        if v:
            want["process-inject.bof_reuse_memory"] = ["true"]
    if rng.random() < 0.3:
        v = rng.choice([0, 1, 16, rng.randrange(2 ** 16)]); extra.append(cfggen.setting(76, T_SHORT, v)); want["stage.data_store_size"] = [str(v)]
    if rng.random() < 0.3:
        v = rng.choice([0, 1]); extra.append(cfggen.setting(77, T_SHORT, v))
        if v:
            want["http-beacon.data_required"] = ["true"]
    domains = ",".join(f"{text(3, 10, 'abcdefgh.')}x,/{text(1, 10, 'abcXYZ019/._-')}" for _ in range(rng.randrange(1, 4)))
    blk, desc = cfggen.config_block(rng, profile=(get, post, server), domains=domains, extra=extra)
    return blk, desc, want


def check(blk, desc, want, comp_, key, klass=None):
    witness = {"get": repr(desc["get"]), "post": repr(desc["post"]), "server": repr(desc["server"]), "user_agent": desc["user_agent"],
               "config_block_hex": blk.hex()[:3000]}
    if klass:
        witness["class"] = klass
        witness["contract_key"] = "bounded:" + comp_.name
    try:
        with time_limit(30):
            bc = BeaconConfig(blk)
            prof = C2Profile.from_beacon_config(bc)
            txt = prof.as_text()
            txt_again = C2Profile.from_beacon_config(bc).as_text()       # the same configuration object, a second time
            d = C2Profile.from_text(txt).as_dict()
        uris = [p for i, p in enumerate(desc["domains"].split(",")) if i % 2 == 1]
        uris = list(dict.fromkeys(uris))
        exp = {"sleeptime": [str(desc["sleeptime"])], "jitter": [str(desc["jitter"])], "useragent": [desc["user_agent"].encode("latin-1")],
               "http-get.uri": [", ".join(uris).encode()], "http-get.verb": [b"GET"], "http-post.uri": [desc["submit_uri"].encode()],
               "http-post.verb": [b"POST"],
               "http-get.client.metadata": want_block(desc["get"], "metadata"),
               "http-post.client.id": want_block(desc["post"], "id"), "http-post.client.output": want_block(desc["post"], "output"),
               "http-get.server.output": [(k if v is True else (k, b"X" * len(v))) for k, v in desc["server"]]}
        problems = []
        if txt_again != txt:
            problems.append({"key": "second generation from the same configuration object", "problem": "text differs from the first generation"})
        for k, v in exp.items():
            got = d.get(k)
            got = [dec(x) for x in got] if got is not None and k.count(".") < 2 or k in ("http-get.uri", "http-post.uri") else got
            if k in ("sleeptime", "jitter"):
                got = None if got is None else [g.decode() for g in got]
            if got != v:
                problems.append({"key": k, "got": repr(d.get(k))[:200], "want": repr(v)[:200]})
        for side, steps in (("http-get.client", desc["get"]), ("http-post.client", desc["post"])):
            hp = static_pairs(steps, ("_header", "_hostheader"), b": ")
            pp = static_pairs(steps, ("_parameter",), b"=")
            gh = [tuple(dec(x).decode("latin-1") for x in t) for t in d.get(side + ".header", [])]
            gp = [tuple(dec(x).decode("latin-1") for x in t) for t in d.get(side + ".parameter", [])]
            if gh != hp:
                problems.append({"key": side + ".header", "got": repr(gh)[:200], "want": repr(hp)[:200]})
            if gp != pp:
                problems.append({"key": side + ".parameter", "got": repr(gp)[:200], "want": repr(pp)[:200]})
        for k, v in want.items():
            if k == "stage.beacon_gate(set)":
                got = d.get("stage.beacon_gate", [])
                names = set()
                for g in got:
                    names |= {"Comms": set(GATE[:2]), "Core": set(GATE[2:22]), "Cleanup": set(GATE[22:]), "All": set(GATE)}.get(g, {g})
                if names != set(v):
                    problems.append({"key": "stage.beacon_gate", "got": repr(got)[:200], "want": repr(v)[:200]})
            elif k.endswith("(list)"):
                if d.get(k[:-6]) != v:
                    problems.append({"key": k, "got": repr(d.get(k[:-6]))[:200], "want": repr(v)[:200]})
            elif k.endswith("(bytes)"):
                got = [dec(x) for x in d.get(k[:-7], [])]
                if got != v:
                    problems.append({"key": k, "got": repr(d.get(k[:-7]))[:200], "want": repr(v)[:200]})
            elif k == "process-inject.execute":
                if d.get(k) != v:
                    problems.append({"key": k, "got": repr(d.get(k))[:200], "want": repr(v)[:200]})
            elif [dec(x).decode("latin-1") for x in d.get(k, [])] != v:
                problems.append({"key": k, "got": repr(d.get(k))[:200], "want": repr(v)[:200]})
        for block, keys in (("dns-beacon {", [k for k in want if k.startswith("dns-beacon")]), ("process-inject {", [k for k in want if k.startswith("process-inject")]),
                            ("http-beacon {", [k for k in want if k.startswith("http-beacon")])):
            if not keys and block in txt:
                problems.append({"key": block, "problem": "empty block not omitted"})
        ok = not problems
        witness["problems"] = problems[:4]
        if not ok:
            witness["text"] = txt[:1500]
    except CaseTimeout:
        ok = False
        witness["error"] = "timeout"
    except Exception as ex:   # noqa
        ok = False
        witness["error"] = repr(ex)[:300]
    comp_.case(key, ok, sample=repr(desc["get"])[:80], witness=witness)


for i in range(120 if TIER == "quick" else 1500):
    blk, desc, want = build_config()
    check(blk, desc, want, comp, i)

# K5 (known finding): text options are written without escaping backslashes
import random as _r
r2 = _r.Random(7)
saved = cfggen.config_block
get, post, server = [("build", "metadata"), ("base64", True), ("header", b"Cookie")], [("build", "id"), ("parameter", b"id"), ("build", "output"), ("print", True)], [("print", True)]
blk, desc = cfggen.config_block(r2, profile=(get, post, server), domains="c2.example,/a")
blk = blk.replace(desc["user_agent"].encode().ljust(128, b"\x00"), b"agent\\".ljust(128, b"\x00"))
desc["user_agent"] = "agent\\"
check(blk, desc, {}, c_k5, "user-agent-ending-in-backslash", klass="text_option_with_backslash")
emit([comp, c_k5])
