"""Bounded stand-in for C11: (1) the dictionary view equals an independent reading of the profile's token sequence
(profilegen.dict_of_tokens, written from the property statement) over grammar-generated sentences; (2) profiles built with
the block-builder API equal the same profile parsed from text in tree, text and dictionary; (3) the view tracks
modifications interleaved with accesses.  The builder-attribute / grammar-alias correspondence is a ground obligation."""
import os, sys
sys.path.insert(0, os.path.dirname(os.path.abspath(__file__)))
from common import Component, emit, rng, TIER, time_limit, CaseTimeout
import profilegen
from dissect.cobaltstrike import c2profile as cp
from dissect.cobaltstrike.c2profile import C2Profile, c2profile_parser

G = profilegen.Grammar(c2profile_parser, rng)
SKIP = {k for k in G.all_rule_keys() if k[2] == "comment_dns_resolver"}
G.skip |= SKIP
G.used |= SKIP

c_dict = Component("dictionary-vs-independent-reading",
                   "grammar-generated sentences (every production, depth <= 8, variants, repeated and empty blocks): as_dict(parse(src)) "
                   "== dict_of_tokens(tokens(src)) including order of repeated statements; 120 sentences quick / 1000 thorough")
N = 120 if TIER == "quick" else 1000
n = 0
while n < N or (G.all_rule_keys() - G.used and n < N + 300):
    n += 1
    toks, lits = G.sentence(depth=rng.choice([3, 4, 6, 8]))
    src = profilegen.render(toks, rng)
    try:
        with time_limit(20):
            got = C2Profile.from_text(src).as_dict()
        want = profilegen.dict_of_tokens(toks)
        ok = got == want and list(got) == list(want)
        w = {"source": src[:1200]}
        if not ok:
            diff = [k for k in set(got) | set(want) if got.get(k) != want.get(k)]
            w.update(differing_keys=diff[:5], got={k: repr(got.get(k))[:200] for k in diff[:3]}, want={k: repr(want.get(k))[:200] for k in diff[:3]})
    except CaseTimeout:
        ok, w = False, {"source": src[:1200], "error": "timeout"}
    except Exception as ex:   # noqa
        ok, w = False, {"source": src[:1200], "error": repr(ex)[:300]}
    c_dict.case(src, ok, sample=src[:80], witness=w, nontrivial=len(toks) > 0)

# ---------------------------------------------------------------- every documented list path
c_paths = Component("every-list-path",
                    "for each block path documented as a data-transform / execute list (http-get.client.metadata, http-get.server.output, "
                    "http-post.client.id, http-post.client.output, http-post.server.output, http-stager.server.output, "
                    "process-inject.execute, process-inject.transform-x86) and with a variant: random lists with argument-taking steps "
                    "at exactly that path; plus header / parameter / strrep pairs and options over 10 x 10 literals that begin or end with escaped "
                    "quotes, backslashes or blanks; as_dict == independent reading; 10 per path quick / 60 thorough")


def rand_list_text():
    out = []
    for _ in range(rng.randrange(1, 5)):
        k = rng.choice(["base64", "mask", "netbios", "prepend", "append", "prepend"])
        out.append(f'{k} {profilegen.literal(rng)[0]};' if k in ("prepend", "append") else f"{k};")
    t = rng.choice(["print", "header", "parameter"])
    out.append(f'{t} {profilegen.literal(rng, 0)[0]};' if t != "print" else "print;")
    return " ".join(out)


PATHS = {
    "http-get.client.metadata": lambda b: "http-get { client { metadata { %s } } }" % b,
    "http-get.server.output": lambda b: "http-get { server { output { %s } } }" % b,
    "http-post.client.id": lambda b: "http-post { client { id { %s } } }" % b,
    "http-post.client.output": lambda b: "http-post { client { output { %s } } }" % b,
    "http-post.server.output": lambda b: "http-post { server { output { %s } } }" % b,
    "http-stager.server.output": lambda b: "http-stager { server { output { %s } } }" % b,
    'http-get."v1".client.metadata': lambda b: 'http-get "v1" { client { metadata { %s } } }' % b,
    'http-post."default".client.output': lambda b: 'http-post "default" { client { output { %s } } }' % b,
}
for path, mk in PATHS.items():
    for _ in range(10 if TIER == "quick" else 60):
        src = mk(rand_list_text())
        try:
            got = C2Profile.from_text(src).as_dict()
            want = profilegen.dict_of_tokens(profilegen.tokenize(src))
            ok = got == want
            w = {"source": src, "got": repr(got)[:400], "want": repr(want)[:400]}
        except Exception as ex:   # noqa
            ok, w = False, {"source": src, "error": repr(ex)[:300]}
        c_paths.case((path, src), ok, sample=src[:80], witness=w)
for _ in range(10 if TIER == "quick" else 60):
    ex = rng.sample(['CreateThread;', 'SetThreadContext;', 'NtQueueApcThread-s;', 'RtlCreateUserThread;', 'CreateThread "ntdll!RtlUserThreadStart";',
                     'CreateRemoteThread "kernel32.dll!LoadLibraryA+0x10";'], rng.randrange(1, 5))
    src = "process-inject { execute { %s } transform-x86 { prepend %s; append %s; } }" % (" ".join(ex), profilegen.literal(rng)[0], profilegen.literal(rng)[0])
    try:
        got = C2Profile.from_text(src).as_dict()
        want = profilegen.dict_of_tokens(profilegen.tokenize(src))
        ok = got == want
        w = {"source": src, "got": repr(got)[:400], "want": repr(want)[:400]}
    except Exception as ex_:   # noqa
        ok, w = False, {"source": src, "error": repr(ex_)[:300]}
    c_paths.case(src, ok, sample=src[:80], witness=w)

# pairs (header / parameter / strrep) and single options whose literals begin / end with escaped quotes or backslashes
EDGE = ['"\\"5e1f-abc\\""', '"a\\""', '"\\""', '"\\\\"', '"x\\\\"', '"\\"\\""', '" lead"', '"trail "', '"\\\'q\\\'"', '""']
for a in EDGE:
    for b in EDGE:
        src = ("http-get { client { header %s %s; parameter %s %s; } } stage { transform-x64 { strrep %s %s; } set name %s; } "
               "http-config { header %s %s; set headers %s; }") % (a, b, b, a, a, b, b, b, a, a)
        try:
            got = C2Profile.from_text(src).as_dict()
            want = profilegen.dict_of_tokens(profilegen.tokenize(src))
            ok = got == want
            w = {"source": src, "got": repr(got)[:500], "want": repr(want)[:500]}
        except Exception as ex_:   # noqa
            ok, w = False, {"source": src, "error": repr(ex_)[:300]}
        c_paths.case(("pairs", a, b), ok, sample=src[:80], witness=w)

# ---------------------------------------------------------------- builder API vs text
c_build = Component("builder-equals-parsed-text",
                    "random profiles assembled through the builder classes (global options, http-get/http-post with client/server blocks, "
                    "headers/parameters, data-transform lists with byte arguments, stage with transform blocks and beacon_gate, "
                    "process-inject with execute list, dns-beacon, post-ex, http-config): tree, as_text and as_dict equal those of the "
                    "profile parsed from the builder's text and from hand-written text; 80 quick / 500 thorough")


def norm(tree):
    from lark import Tree, Token
    if isinstance(tree, Tree):
        return (str(tree.data), [norm(c) for c in tree.children])
    if isinstance(tree, Token) and tree.type == "STRING":
        return ("STRING", profilegen.decode_literal(str(tree)))
    return str(tree)


def bytes_view(d):
    """text values compared as the bytes they denote (the two spellings of a literal differ as text)"""
    def f(v):
        if isinstance(v, tuple):
            return tuple(f(x) for x in v)
        if isinstance(v, str):
            return profilegen.decode_literal('"' + v + '"')
        return v
    return {k: [f(v) for v in vs] for k, vs in d.items()}


def rbytes():
    return bytes(rng.choice([34, 92, 39, 10, 0, 255, rng.randrange(32, 127)]) for _ in range(rng.randrange(0, 7)))


def rtext():
    return "".join(rng.choice("abcXYZ019 /._-=:") for _ in range(rng.randrange(1, 10)))


def lit_b(b):
    """independent literal writer: every byte as \\xHH"""
    return '"' + "".join("\\x%02x" % c for c in b) + '"'


def rand_transform():
    steps, text = [], []
    for _ in range(rng.randrange(0, 4)):
        k = rng.choice(["base64", "base64url", "mask", "netbios", "netbiosu", "prepend", "append"])
        if k in ("prepend", "append"):
            b = rbytes(); steps.append((k, b)); text.append(f"{k} {lit_b(b)};")
        else:
            steps.append(k); text.append(f"{k};")
    t = rng.choice(["print", "uri-append", "header", "parameter"])
    if t in ("header", "parameter"):
        b = rtext().encode(); steps.append((t, b)); text.append(f"{t} {lit_b(b)};")
    else:
        steps.append(t); text.append(f"{t};")
    return steps, " ".join(text)


for i in range(80 if TIER == "quick" else 500):
    prof = C2Profile()
    text = []
    try:
        for _ in range(rng.randrange(0, 3)):
            k, v = rng.choice(["jitter", "sleeptime", "useragent", "pipename"]), rtext()
            prof.set_option(k, v); text.append(f'set {k} "{v}";')
        if rng.random() < 0.8:
            get = cp.HttpGetBlock(); gt = []
            uri = "/" + rtext().replace(" ", ""); get.set_option("uri", uri); gt.append(f'set uri "{uri}";')
            cl = cp.HttpOptionsBlock(); ct = []
            hs = [(rtext(), rtext()) for _ in range(rng.randrange(0, 3))]
            if hs and rng.random() < 0.4:
                # the same header name stated again (another value), after the others: pairs are a sequence, not a mapping
                hs.append((hs[0][0], rtext()))
            if hs:
                cl._pair("header", hs); ct += [f'header "{a}" "{b}";' for a, b in hs]
            st, tt = rand_transform()
            cl.set_config_block("metadata", cp.DataTransformBlock(steps=st)); ct.append("metadata { " + tt + " }")
            get.set_config_block("client", cl); gt.append("client { " + " ".join(ct) + " }")
            sv = cp.HttpOptionsBlock(); st, tt = rand_transform()
            st = [s for s in st if not (isinstance(s, tuple) and s[0] in ("header", "parameter")) and s != "uri-append"] or ["print"]
            if st[-1] != "print":
                st.append("print")
            tt = " ".join((f"{s[0]} {lit_b(s[1])};" if isinstance(s, tuple) else f"{s};") for s in st)
            sv.set_config_block("output", cp.DataTransformBlock(steps=st))
            get.set_config_block("server", sv); gt.append("server { output { " + tt + " } }")
            prof.set_config_block("http_get", get); text.append("http-get { " + " ".join(gt) + " }")
        if rng.random() < 0.6:
            stg = cp.StageBlock(); stt = []
            for k in rng.sample(["cleanup", "userwx", "module_x64", "module_x86", "checksum", "name"], rng.randrange(0, 4)):
                v = rtext(); stg.set_option(k, v); stt.append(f'set {k} "{v}";')
            if rng.random() < 0.5:
                tb = cp.StageTransformBlock(); pairs = [(rtext(), rtext())]
                if rng.random() < 0.5:
                    pairs += [(rtext(), rtext()), (pairs[0][0], rtext())]
                tb._pair("strrep", pairs); stg.set_config_block("transform_x86", tb)
                stt.append("transform-x86 { " + " ".join(f'strrep "{a}" "{b}";' for a, b in pairs) + " }")
            if rng.random() < 0.6:
                names = rng.sample(["Comms", "Core", "Cleanup", "VirtualAlloc", "VirtualProtectEx", "ExitThread", "CloseHandle",
                                    "InternetOpenA", "CreateRemoteThread"], rng.randrange(1, 5))
                stg.set_config_block("beacon_gate", cp.BeaconGateBlock.from_beacon_gate_option_strings(names))
                stt.append("beacon_gate { " + " ".join(f"{x};" for x in names) + " }")
            prof.set_config_block("stage", stg); text.append("stage { " + " ".join(stt) + " }")
        if rng.random() < 0.5:
            pi = cp.ProcessInjectBlock(); pt = []
            ex = rng.sample(["CreateThread", "SetThreadContext", "NtQueueApcThread-s", "RtlCreateUserThread",
                             ("CreateThread", "ntdll!RtlUserThreadStart"), ("CreateRemoteThread", "kernel32.dll!LoadLibraryA+0x10")],
                            rng.randrange(1, 5))
            pi.set_config_block("execute", cp.ExecuteOptionsBlock.from_execute_list(ex))
            pt.append("execute { " + " ".join((f'{e[0]} "{e[1]}";' if isinstance(e, tuple) else f"{e};") for e in ex) + " }")
            prof.set_config_block("process_inject", pi); text.append("process-inject { " + " ".join(pt) + " }")
        src = "\n".join(text)
        with time_limit(30):
            parsed = C2Profile.from_text(src)          # hand-written text: literals spelled as \\xHH
            same_tree = norm(parsed.tree) == norm(prof.tree)     # same tree up to the spelling of the literals
            t1 = prof.as_text()
            reparsed = C2Profile.from_text(t1)         # the builder's own text: identical tree, text and dictionary
            d1, d2 = prof.as_dict(), parsed.as_dict()
            same_tokens = [profilegen.decode_literal(t) if t.startswith('"') else t for t in profilegen.tokenize(t1)] == \
                [profilegen.decode_literal(t) if t.startswith('"') else t for t in profilegen.tokenize(src)]
            ok = same_tree and same_tokens and reparsed.tree == prof.tree and reparsed.as_text() == t1 and reparsed.as_dict() == d1 \
                and bytes_view(d1) == bytes_view(d2) and bytes_view(d1) == bytes_view(profilegen.dict_of_tokens(profilegen.tokenize(src)))
        w = {"text": src[:1500], "same_tree_modulo_literal_spelling": same_tree, "same_tokens": same_tokens,
             "roundtrip_identical": reparsed.tree == prof.tree, "same_dict": bytes_view(d1) == bytes_view(d2)}
    except CaseTimeout:
        ok, w = False, {"text": "\n".join(text)[:1500], "error": "timeout"}
    except Exception as ex:   # noqa
        ok, w = False, {"text": "\n".join(text)[:1500], "error": repr(ex)[:300]}
    c_build.case(i, ok, sample="\n".join(text)[:80], witness=w)

# ---------------------------------------------------------------- modification / access interleavings
c_track = Component("view-tracks-modifications",
                    "random interleavings of set_option / set_config_block modifications and as_dict()/properties accesses on one profile "
                    "(4-12 steps, 100 histories quick / 600 thorough): every access equals the dictionary of a profile freshly parsed "
                    "from the current text")
for h in range(100 if TIER == "quick" else 600):
    prof = C2Profile()
    ok, why = True, None
    try:
        for step in range(rng.randrange(4, 13)):
            r = rng.random()
            if r < 0.45:
                prof.set_option(rng.choice(["jitter", "sleeptime", "useragent", "dns_idle"]), rtext())
            elif r < 0.6:
                b = cp.PostExBlock(); b.set_option("spawnto_x64", rtext()); prof.set_config_block("post_ex", b)
            else:
                got = prof.as_dict() if rng.random() < 0.5 else prof.properties
                want = C2Profile.from_text(prof.as_text()).as_dict()
                if got != want:
                    ok, why = False, {"step": step, "got": repr(got)[:300], "want": repr(want)[:300]}
                    break
    except Exception as ex:   # noqa
        ok, why = False, repr(ex)[:300]
    c_track.case(h, ok, witness={"history": h, "why": why})
emit([c_dict, c_paths, c_build, c_track])
