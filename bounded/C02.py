"""Bounded stand-in for C02 (second half): the name-, constant- and enum-indexed views and the raw/pretty views of a
BeaconConfig describe the same settings; reference written from the property statement."""
import logging, os, sys
logging.disable(logging.CRITICAL)
sys.path.insert(0, os.path.dirname(os.path.abspath(__file__)))
from common import Component, emit, rng, TIER, ROOT, time_limit, CaseTimeout
ns = {}
exec(open(os.path.join(ROOT, "contracts", "spec", "gens.py")).read(), ns)
from collections import OrderedDict
from dissect.cobaltstrike.beacon import BeaconConfig, BeaconSetting, SETTING_TO_PRETTYFUNC, DeprecatedBeaconSetting

comp = Component("views-agree",
                 "random settings lists (0-12 settings; indices from all declared, aliased (16,17,36,48), unknown (75, 79, 4095, 65535); "
                 "types 0-3 (settings that have a pretty-printer get the type it expects); lengths 0-40, SHORT/INT values of 2/4 bytes and, for a fifth of them, non-canonical lengths 0-8; duplicates allowed) + terminator/padding/trailing bytes; "
                 "1000 blocks quick / 20000 thorough, seed=VERIF_SEED")
DECL = sorted({m.value for m in BeaconSetting})
PRETTY = {k.value for k in SETTING_TO_PRETTYFUNC}
N = 1000 if TIER == "quick" else 20000
for _ in range(N):
    settings = []
    for _ in range(rng.randrange(0, 13)):
        idx = rng.choice(DECL + [16, 17, 36, 48, 75, 79, 4095, 65535])
        ty = rng.randrange(0, 4)
        if idx in PRETTY:      # settings with a pretty-printer get the type their printer expects (well-formed configuration)
            ty = {16: 1, 19: 2, 36: rng.choice([1, 3])}.get(idx, 3)
        if ty == 1:
            val = bytes(rng.randrange(256) for _ in range(2 if (idx in PRETTY or rng.random() < 0.8) else rng.choice([0, 1, 3, 4, 7])))
        elif ty == 2:
            val = bytes(rng.randrange(256) for _ in range(4 if (idx in PRETTY or rng.random() < 0.8) else rng.choice([0, 1, 3, 5, 8])))
        else:
            val = bytes(rng.randrange(1, 256) for _ in range(rng.randrange(0, 41)))
        if idx == 9 and len(val) == 128:
            val = val[:-1] + b"\x00"
        # pretty functions of some settings assume well-formed values; keep values for them benign
        if idx in PRETTY and ty == 3:
            # structured settings: a well-formed (here: empty / zero) encoding, NUL-terminated strings otherwise
            val = bytes(23) if idx == 78 else (b"" if idx in (11, 12, 13, 42, 46, 47, 51, 57, 58) else val + b"\x00")
        settings.append((idx, ty, val))
    block = ns["tlv_block"](settings, terminator=rng.random() < 0.8, trailing=bytes(rng.randrange(256) for _ in range(rng.randrange(0, 6))))
    guard = time_limit(5)
    guard.__enter__()
    try:
        bc = BeaconConfig(block)
        if rng.random() < 0.5:
            # an unparsed mapping asked for first: raw value bytes for every setting, and no influence on the other views
            it_ = rng.choice(["name", "const", "enum"])
            unparsed = bc.settings_map(index_type=it_, parse=False)
            okv = all(isinstance(v_, (bytes, bytearray)) for v_ in unparsed.values())
        else:
            okv = True
        got = [(s.index.value, s.type.value, s.length, s.value) for s in bc.settings_tuple]
        want = [(i, t, len(v), v) for i, t, v in settings]
        ok = got == want or (not settings and got == [])
        # when the block has no terminator trailing bytes may start another (garbage) record: compare the prefix only
        ok = got[:len(want)] == want and okv
        def val(t, v):
            # SHORT / INT are exposed as the unsigned 16 / 32-bit integer in the first 2 / 4 value bytes
            return int.from_bytes(v[:2], "big") if t == 1 else int.from_bytes(v[:4], "big") if t == 2 else v
        def name(i, t):
            if i == 36 and t == 1:
                return "SETTING_INJECT_OPTIONS"
            n = BeaconSetting(i).name
            return n if n else f"BeaconSetting_{i}"
        ref_const, ref_name = OrderedDict(), OrderedDict()
        for s in bc.settings_tuple:
            ref_const[s.index.value] = val(s.type.value, s.value)
            ref_name[name(s.index.value, s.type.value)] = val(s.type.value, s.value)
        ok = ok and list(bc.raw_settings_by_index.items()) == list(ref_const.items())
        ok = ok and list(bc.raw_settings.items()) == list(ref_name.items())
        ok = ok and bc.setting_enums == [s.index.value for s in bc.settings_tuple]
        ok = ok and list(bc.settings.keys()) == list(bc.raw_settings.keys()) and list(bc.settings_by_index.keys()) == list(bc.raw_settings_by_index.keys())
        for k, v in bc.raw_settings_by_index.items():
            if k not in PRETTY:
                ok = ok and bc.settings_by_index[k] == v
        try:
            bc.settings["X"] = 1
            ok = False
        except TypeError:
            pass
        if bc.settings_tuple:
            ok = ok and bc.max_setting_enum == max(bc.setting_enums)
    except BaseException as ex:      # includes CaseTimeout: a block that is not decoded within the limit
        ok = False
        got = repr(ex)
    finally:
        guard.__exit__(None, None, None)
    comp.case(block, ok, sample=block[:40].hex(), witness={"block_hex": block.hex(), "got": repr(got)[:300]})

# ---------------------------------------------------------------- raw decoding against a reference TLV decoder
c_ref = Component("decode-vs-reference-tlv",
                  "random blocks of 0-8 records incl. User-Agent records (index 9) of declared length 127/128/129/144 with and without NUL "
                  "bytes and arbitrary following bytes, index 36 with every type 0-3, unknown indices, zero-length values, truncated last "
                  "records, missing terminator, trailing garbage: (index, deprecated-alias flag, type, length, value) of every decoded "
                  "setting equals a reference decoder written from the property statement; 1000 blocks quick / 20000 thorough")


def ref_decode(b):
    out, p = [], 0
    while True:
        if p + 2 <= len(b) and b[p:p + 2] == b"\x00\x00":
            break
        if p + 6 > len(b):
            break
        idx, ty, ln = (int.from_bytes(b[p + i:p + i + 2], "big") for i in (0, 2, 4))
        if p + 6 + ln > len(b):
            break
        val = b[p + 6:p + 6 + ln]
        p += 6 + ln
        if idx == 9 and ln == 128 and len(val.rstrip(b"\x00")) >= 128:
            # documented edge case: an over-long User-Agent continues up to (not including) the next NUL byte
            q = b.find(b"\x00", p)
            q = len(b) if q < 0 else q
            val, p = val + b[p:q], q
        out.append((idx, idx == 36 and ty == 1, ty, ln, val))
    return out


M = 1000 if TIER == "quick" else 20000
for _ in range(M):
    recs = b""
    for _ in range(rng.randrange(0, 9)):
        idx = rng.choice([1, 2, 3, 7, 9, 9, 10, 36, 36, 37, 75, 0x0101, 65535])
        ty = rng.randrange(0, 4)
        if idx == 9:
            ln = rng.choice([0, 5, 127, 128, 128, 129, 144])
            val = bytes(rng.choice([65, 66, 0, 255]) if rng.random() < 0.1 else 65 for _ in range(ln))
            if rng.random() < 0.3 and ln:
                val = val[:-1] + b"\x00"
        else:
            ln = rng.choice([0, 1, 2, 4, rng.randrange(0, 30)])
            val = bytes(rng.randrange(256) for _ in range(ln))
        recs += idx.to_bytes(2, "big") + ty.to_bytes(2, "big") + len(val).to_bytes(2, "big") + val
    block = recs + rng.choice([b"\x00\x00", b"\x00\x00", b"", b"\x00", b"\x00\x00\xff\xfe"]) + bytes(rng.randrange(256) for _ in range(rng.choice([0, 0, 3, 9])))
    if rng.random() < 0.15 and block:
        block = block[:rng.randrange(len(block))]
    try:
        with time_limit(5):
            bc = BeaconConfig(block)
        got = [(s_.index.value, type(s_.index).__name__ == "DeprecatedBeaconSetting", s_.type.value, s_.length, bytes(s_.value)) for s_ in bc.settings_tuple]
        want = ref_decode(block)
        ok = got == want
    except BaseException as ex:   # noqa
        ok, got, want = False, repr(ex), None
    c_ref.case(block, ok, sample=block[:30].hex(), witness={"block_hex": block.hex(), "got": repr(got)[:400], "want": repr(want)[:400]})
emit([comp, c_ref])
