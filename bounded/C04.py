"""Bounded stand-in for the parts of C04 the proof leaves open: (1) the assumed base64 laws against an RFC 4648 implementation
written here, (2) the placement of the stored data in the header / parameter dictionaries and its lookup on recovery
(the proof takes `the termination step finds what the block stored` as a hypothesis), (3) whole programs, both directions,
against an independent encoder and decoder written from the Malleable C2 definition (nothing below imports or mirrors
dissect.cobaltstrike.c2 / utils code)."""
import os, sys
sys.path.insert(0, os.path.dirname(os.path.abspath(__file__)))
from common import Component, emit, rng, TIER, time_limit, CaseTimeout
import base64
import random as _random
from dissect.cobaltstrike.c2 import HttpDataTransform, C2Data, ClientC2Data, ServerC2Data, HttpRequest, HttpResponse

# ------------------------------------------------------------------ reference codecs (RFC 4648, RFC 1001 nibbles, XOR mask)
STD = b"ABCDEFGHIJKLMNOPQRSTUVWXYZabcdefghijklmnopqrstuvwxyz0123456789+/"
URL = b"ABCDEFGHIJKLMNOPQRSTUVWXYZabcdefghijklmnopqrstuvwxyz0123456789-_"


def ref_b64e(d, alpha=STD):
    out = bytearray()
    for i in range(0, len(d), 3):
        chunk = d[i:i + 3]
        n = int.from_bytes(chunk + b"\x00" * (3 - len(chunk)), "big")
        q = [alpha[(n >> s) & 63] for s in (18, 12, 6, 0)]
        if len(chunk) == 1:
            q[2] = q[3] = 61
        elif len(chunk) == 2:
            q[3] = 61
        out += bytes(q)
    return bytes(out)


def ref_b64d(e, alpha=STD):
    vals = [alpha.index(bytes([c])) for c in e if c != 61]
    out, acc, bits = bytearray(), 0, 0
    for v in vals:
        acc, bits = (acc << 6) | v, bits + 6
        if bits >= 8:
            bits -= 8
            out.append((acc >> bits) & 255)
    return bytes(out)


def ref_nb(d, base):
    return bytes(x for c in d for x in ((c >> 4) + base, (c & 15) + base))


def ref_nbd(e, base):
    return bytes(((e[i] - base) << 4) | (e[i + 1] - base) for i in range(0, len(e), 2))


def ref_mask(d, key):
    return key + bytes(c ^ key[i % 4] for i, c in enumerate(d))


def ref_unmask(e):
    return bytes(c ^ e[i % 4] for i, c in enumerate(e[4:]))


def argbytes(v):
    return b"X" * v if isinstance(v, int) else v


def ref_transform(steps, members, base, masks):
    """left to right over the program; returns (uri, params, headers, body) - dictionaries in insertion order"""
    uri, params, headers, body = base
    params, headers = dict(params), dict(headers)
    data = b""
    masks = list(masks)
    for name, v in steps:
        k = name.lower()
        if k == "build":
            data = members.get(v) or b""
        elif k == "append":
            data = data + argbytes(v)
        elif k == "prepend":
            data = argbytes(v) + data
        elif k == "base64":
            data = ref_b64e(data)
        elif k == "base64url":
            data = ref_b64e(data, URL)
        elif k == "netbios":
            data = ref_nb(data, 0x61)
        elif k == "netbiosu":
            data = ref_nb(data, 0x41)
        elif k == "mask":
            data = ref_mask(data, masks.pop(0))
        elif k == "print":
            body = data
        elif k == "header":
            headers[v] = data
        elif k == "parameter":
            params[v] = data
        elif k == "uri_append":
            uri = uri + data
        elif k in ("_header", "_hostheader"):
            a, _, b = v.partition(b": ")
            headers[a] = b
        elif k == "_parameter":
            a, _, b = v.partition(b"=")
            params[a] = b
        else:
            raise AssertionError(k)
    return uri, params, headers, body


def ref_recover(steps, msg, base_uri=b""):
    """undo the program from its end; msg = (uri, params, headers, body)"""
    uri, params, headers, body = msg
    out = {}
    data = b""
    for name, v in reversed(steps):
        k = name.lower()
        if k == "print":
            data = body
        elif k == "header":
            data = headers[v]
        elif k == "parameter":
            data = params[v]
        elif k == "uri_append":
            data = uri[len(base_uri):]
        elif k == "append":
            n = len(argbytes(v))
            data = data[:len(data) - n]
        elif k == "prepend":
            data = data[len(argbytes(v)):]
        elif k == "base64":
            data = ref_b64d(data)
        elif k == "base64url":
            data = ref_b64d(data, URL)
        elif k == "netbios":
            data = ref_nbd(data, 0x61)
        elif k == "netbiosu":
            data = ref_nbd(data, 0x41)
        elif k == "mask":
            data = ref_unmask(data)
        elif k == "build":
            out[v] = data
    return out


# ------------------------------------------------------------------ component 1: the assumed base64 laws
c_b64 = Component("base64-assumptions", "base64.b64encode / urlsafe_b64encode equal the RFC 4648 reference and "
                  "decode(encode(x) + b'==') == x: every length 0..70 (x3 random contents), all 256 single bytes, all 65536 two-byte "
                  "strings in thorough")
samples = [bytes([b]) for b in range(256)]
for n in range(0, 71):
    for _ in range(3):
        samples.append(bytes(rng.randrange(256) for _ in range(n)))
if TIER != "quick":
    samples += [bytes([a, b]) for a in range(256) for b in range(256)]
for x in samples:
    ok = (base64.b64encode(x) == ref_b64e(x) and base64.urlsafe_b64encode(x) == ref_b64e(x, URL)
          and base64.b64decode(base64.b64encode(x) + b"==") == x and base64.urlsafe_b64decode(base64.urlsafe_b64encode(x) + b"==") == x
          and ref_b64d(base64.b64encode(x)) == x)
    c_b64.case(x, ok, witness={"x_hex": x.hex()}, nontrivial=len(x) > 0)


# ------------------------------------------------------------------ program generator
ENC = ["append", "prepend", "base64", "base64url", "netbios", "netbiosu", "mask"]


def rbytes(lo, hi):
    return bytes(rng.randrange(256) for _ in range(rng.randrange(lo, hi + 1)))


def rcase(s):
    return rng.choice([s, s.upper(), s.lower()])


def gen_program(nblocks, server=False, static=True, allow_uri=True):
    members = rng.sample(["metadata", "id", "output"], nblocks) if not server else ["output"]
    terms = [("print", True), ("header", b"Cookie"), ("header", b"X-Data"), ("parameter", b"q"), ("parameter", b"id"), ("uri_append", True)]
    if server:
        terms = terms[:3]
    if not allow_uri:
        terms = terms[:5]
    rng.shuffle(terms)
    chosen, used = [], set()
    for t in terms:
        if len(chosen) == len(members):
            break
        chosen.append(t)
    steps = []
    for m, t in zip(members, chosen):
        if static and rng.random() < 0.5:
            steps.append((rcase("_header"), rng.choice([b"Accept: */*", b"Referer: http://x/", b"NoValue", b"K: a: b"])))
        if static and not server and rng.random() < 0.4:
            steps.append((rcase("_parameter"), rng.choice([b"a=b", b"v=1=2", b"flag"])))
        if static and rng.random() < 0.2:
            steps.append((rcase("_hostheader"), b"Host: front.example"))
        steps.append((rcase("build"), m))
        for _ in range(rng.randrange(0, 6)):
            e = rng.choice(ENC)
            if e in ("append", "prepend"):
                steps.append((rcase(e), rng.choice([b"", rbytes(1, 6), rbytes(1, 2), rng.choice(SYNTAX_ARGS)])))
            else:
                steps.append((rcase(e), True))
        steps.append((rcase(t[0]), t[1]))
    return steps, members


# arguments / payloads that look like URL or header syntax: they are data and must come back unchanged
SYNTAX_ARGS = [b"%41", b"session%3D", b"%7Cend", b"a%2Fb%2f", b"%", b"%zz", b"+", b"a+b", b"&x=1", b"?q", b"#frag", b"=", b"; path=/", b": ",
               b"\r\n", b" ", b"\x00"]


def payload():
    r = rng.random()
    if r < 0.1:
        return b""
    if r < 0.2:
        return rng.choice([b"100%41bc", b"%41", b"a+b c", b"k=v&k2=v2", b"x%", b"%%%", b"caf\xc3\xa9%C3%A9"])
    if r < 0.3:
        return bytes(range(256))
    return rbytes(1, 48)


class FixedMasks:
    """random.getrandbits replaced by a known stream for the duration of one transform call"""
    def __init__(self, masks):
        self.masks = list(masks)

    def __enter__(self):
        self.saved = _random.getrandbits
        stream = iter(self.masks)
        _random.getrandbits = lambda n: int.from_bytes(next(stream), "big")

    def __exit__(self, *a):
        _random.getrandbits = self.saved


def base_requests():
    return [None,
            HttpRequest(method=b"GET", uri=b"", params={}, headers={}, body=b""),
            HttpRequest(method=b"POST", uri=b"", params={b"z": b"1"}, headers={b"User-Agent": b"Mozilla"}, body=b"old"),
            # the termination places already hold something (a previous message built on the same request)
            HttpRequest(method=b"GET", uri=b"", params={b"q": b"stale", b"id": b"stale"},
                        headers={b"Cookie": b"stale", b"X-Data": b"stale", b"Accept": b"old"}, body=b"stale")]


c_rt = Component("programs-both-directions",
                 "random valid programs: 1-3 build blocks (distinct members and termination places: print, 2 headers, 2 parameters, "
                 "uri_append with an empty initial URI), 0-5 encoders per block drawn from all seven with empty / short arguments, "
                 "static _header/_hostheader/_parameter decorations, mixed-case step names, payloads empty / 1-48 bytes / all 256 "
                 "values, initial request None / empty / pre-populated / already holding stale values at the termination places; library transform == reference transform under the same "
                 "mask keys, library recover and reference recover of the library message, library recover of the reference message; "
                 "3000 programs quick / 30000 thorough, seed=VERIF_SEED")
c_srv = Component("server-programs-reverse-build",
                  "HttpDataTransform(recover_steps, reverse=True, build='output') as C2Http builds it: recover lists with byte-string or "
                  "bare-length prepend/append arguments; transform -> HttpResponse -> recover returns ServerC2Data with the original "
                  "output, and the reference decodes the library message; 300 quick / 10000 thorough")
c_k1 = Component("uri_append-nonempty-base-uri", "one program `build metadata; base64url; uri_append` on an initial URI b'/base'")


def as_members(c2):
    return {"metadata": c2.metadata, "id": c2.id, "output": c2.output}


def check_program(comp, steps, members, request, key):
    c2 = C2Data(**{m: payload() for m in members})
    want = {m: getattr(c2, m) for m in members}
    nmask = sum(1 for n, _ in steps if n.lower() == "mask")
    masks = [bytes(rng.randrange(256) for _ in range(4)) for _ in range(nmask)]
    masks2 = [bytes(rng.randrange(256) for _ in range(4)) for _ in range(nmask)]
    base = (b"", {}, {}, b"") if request is None else (request.uri, dict(request.params), dict(request.headers), request.body)
    witness = {"steps": repr(steps), "c2data": repr(c2), "request": repr(request), "masks": [m.hex() for m in masks]}
    try:
        with time_limit(5):
            req_in = None if request is None else request._replace(params=dict(request.params), headers=dict(request.headers))
            t = HttpDataTransform(list(steps))
            with FixedMasks(masks):
                msg = t.transform(c2, req_in)
            ref = ref_transform(steps, as_members(c2), base, masks)
            got = (msg.uri, msg.params, msg.headers, msg.body)
            same_msg = got == ref and list(msg.params.items()) == list(ref[1].items()) and list(msg.headers.items()) == list(ref[2].items())
            rec = t.recover(msg)
            lib_ok = isinstance(rec, ClientC2Data) and all(getattr(rec, m) == want[m] for m in members) and \
                all(getattr(rec, m) is None for m in ("metadata", "id", "output") if m not in members)
            ref_ok = ref_recover(steps, got, base[0]) == want
            ref2 = ref_transform(steps, as_members(c2), base, masks2)
            rec2 = t.recover(HttpRequest(method=b"GET", uri=ref2[0], params=ref2[1], headers=ref2[2], body=ref2[3]))
            lib2_ok = all(getattr(rec2, m) == want[m] for m in members)
            ok = same_msg and lib_ok and ref_ok and lib2_ok
            witness.update(same_msg=same_msg, lib_recover=lib_ok, ref_recover=ref_ok, lib_recover_of_ref=lib2_ok,
                           lib_msg=repr(msg)[:300], recovered=repr(rec)[:300])
    except CaseTimeout:
        ok = False
        witness["error"] = "timeout"
    except Exception as ex:       # noqa
        ok = False
        witness["error"] = repr(ex)
    comp.case(key, ok, sample=repr(steps)[:120], witness=witness)


N = 3000 if TIER == "quick" else 30000
for i in range(N):
    nblocks = 1 + i % 3
    steps, members = gen_program(nblocks)
    request = base_requests()[i % 4]
    check_program(c_rt, steps, members, request, (repr(steps), i % 4))

# every single encoder on every payload length 0..24 (block alignments of base64 / nibble pairs / mask key)
for e in ENC:
    for n in range(0, 25):
        for arg in ([b"", b"\x00", b"ab\xff"] if e in ("append", "prepend") else [True]):
            steps = [("BUILD", "metadata"), (e, arg), ("print", True)]
            c2 = C2Data(metadata=bytes(rng.randrange(256) for _ in range(n)))
            key = bytes(rng.randrange(256) for _ in range(4))
            try:
                t = HttpDataTransform(list(steps))
                with FixedMasks([key]):
                    msg = t.transform(c2)
                ref = ref_transform(steps, as_members(c2), (b"", {}, {}, b""), [key])
                ok = msg.body == ref[3] and t.recover(msg).metadata == c2.metadata and ref_recover(steps, ref)["metadata"] == c2.metadata
            except Exception as ex:   # noqa
                ok = False
            c_rt.case((e, n, repr(arg)), ok, witness={"encoder": e, "payload_hex": c2.metadata.hex(), "arg": repr(arg), "mask": key.hex()})

# server side: C2Http hands the recover list (recovery order, bare lengths) with reverse=True, build="output"
M = 300 if TIER == "quick" else 10000
for i in range(M):
    tsteps, _members = gen_program(1, server=True, static=False)
    tsteps = [s for s in tsteps if s[0].lower() != "build"]
    rlist = []
    for n, v in reversed(tsteps):
        if n.lower() in ("append", "prepend") and rng.random() < 0.7:
            v = len(v)
        rlist.append((n, v))
    out = payload()
    saved = list(rlist)
    witness = {"recover_list": repr(rlist), "output_hex": out.hex()}
    try:
        with time_limit(5):
            t = HttpDataTransform(rlist, reverse=True, build="output")
            nmask = sum(1 for n, _ in rlist if n.lower() == "mask")
            masks = [bytes(rng.randrange(256) for _ in range(4)) for _ in range(nmask)]
            with FixedMasks(masks):
                msg = t.transform(C2Data(output=out))
            resp = HttpResponse(status=200, reason=b"OK", headers=msg.headers, body=msg.body, request=None)
            rec = t.recover(resp)
            full = [("BUILD", "output")] + [(n, v) for n, v in reversed(saved)]
            ref = ref_transform(full, {"output": out}, (b"", {}, {}, b""), masks)
            ok = isinstance(rec, ServerC2Data) and rec.output == out and rec.metadata is None and rec.id is None \
                and (msg.uri, msg.params, msg.headers, msg.body) == ref and ref_recover(full, ref)["output"] == out \
                and rlist == saved
            witness.update(recovered=repr(rec)[:200], caller_list_unchanged=rlist == saved)
    except CaseTimeout:
        ok = False
        witness["error"] = "timeout"
    except Exception as ex:   # noqa
        ok = False
        witness["error"] = repr(ex)
    c_srv.case(repr(saved), ok, sample=repr(saved)[:100], witness=witness)

# K1 (known finding): uri_append on a non-empty initial URI - recover cannot strip the base URI it does not know
steps = [("BUILD", "metadata"), ("base64url", True), ("uri_append", True)]
t = HttpDataTransform(list(steps))
msg = t.transform(C2Data(metadata=b"hello"), HttpRequest(method=b"GET", uri=b"/base", params={}, headers={}, body=b""))
try:
    got = t.recover(msg).metadata
except Exception as ex:   # noqa
    got = repr(ex)
c_k1.case("uri_append-base", got == b"hello",
          witness={"class": "uri_append_nonempty_base_uri", "contract_key": "bounded:uri_append-nonempty-base-uri",
                   "steps": repr(steps), "initial_uri": "/base", "message_uri": repr(msg.uri), "recovered": repr(got)})
emit([c_b64, c_rt, c_srv, c_k1])
