"""Bounded stand-in for the session part of C07 (the routing function get_transform_for_http is proved; the per-message
pieces - transforms C04, packet crypto C05, metadata C06, raw HTTP parsing C16 - have their own proofs): an in-process
session between the library's real HttpBeaconClient and a reference team-server peer written from the protocol description
(httpx.request is replaced by the peer), observed by the library's traffic decoder C2Http.iter_recover_http on the raw HTTP
bytes, for each of the three key-material variants."""
import os, sys, logging, hmac, hashlib, random as _random
sys.path.insert(0, os.path.dirname(os.path.abspath(__file__)))
from common import Component, emit, rng, TIER, time_limit, CaseTimeout, load_spec_module
cfggen = load_spec_module("cfggen")
import refcodec
logging.disable(logging.CRITICAL)
from urllib.parse import quote_from_bytes, urlsplit
from Crypto.Cipher import AES, PKCS1_v1_5
from dissect.cobaltstrike.beacon import BeaconConfig
from dissect.cobaltstrike import client as client_mod
from dissect.cobaltstrike.client import HttpBeaconClient
from dissect.cobaltstrike.c2 import C2Http, HttpRequest, BeaconMetadata, TaskPacket, CallbackPacket, BeaconCallback

KEY = cfggen.test_keypair()
IV = b"abcdefghijklmnop"


def ref_encrypt(plain, aes_key, hmac_key):
    padded = plain + b"A" * (16 - len(plain) % 16)
    ct = AES.new(aes_key, AES.MODE_CBC, iv=IV).encrypt(padded)
    return ct, hmac.new(hmac_key, ct, "sha256").digest()[:16]


def ref_decrypt(ct, sig, aes_key, hmac_key):
    assert hmac.new(hmac_key, ct, "sha256").digest()[:16] == sig
    return AES.new(aes_key, AES.MODE_CBC, iv=IV).decrypt(ct)


def serialize_request(method, path, params, headers, body):
    q = b"&".join(quote_from_bytes(k, safe="").encode() + b"=" + quote_from_bytes(v, safe="").encode() for k, v in params.items())
    head = method + b" " + path + (b"?" + q if q else b"") + b" HTTP/1.1\r\n"
    return head + b"".join(k + b": " + v + b"\r\n" for k, v in headers.items()) + b"\r\n" + body


def serialize_response(headers, body):
    return b"HTTP/1.1 200 OK\r\n" + b"".join(k + b": " + v + b"\r\n" for k, v in headers.items()) + b"\r\n" + body


class FakeResponse:
    def __init__(self, headers, body):
        self.content, self.headers, self.status_code, self.reason_phrase = body, headers, 200, "OK"

    def raise_for_status(self):
        return None


class Peer:
    """reference team server: decodes requests with the reference codecs, answers check-ins with queued tasks"""
    def __init__(self, desc):
        self.desc = desc
        self.wire = []          # (raw bytes, expected packets) in order
        self.tasks = []         # queue of lists of (command, data) to hand out at the next check-ins
        self.keys = None
        self.problems = []

    def request(self, method, url, headers=None, params=None, content=None, verify=None):
        method = method if isinstance(method, bytes) else method.encode()
        u = urlsplit(url)
        path = u.path.encode()
        # httpx percent-encodes str parameters as UTF-8: these are the bytes on the wire
        params_b = {k.encode("utf-8"): v.encode("utf-8") for k, v in (params or {}).items()}
        headers_b = {(k if isinstance(k, bytes) else k.encode()): (v if isinstance(v, bytes) else v.encode()) for k, v in (headers or {}).items()}
        body = content or b""
        raw = serialize_request(method, path, params_b, headers_b, body)
        msg = (path, params_b, headers_b, body)
        is_submit = method == self.desc["verbs"][1] and path.startswith(self.desc["submit_uri"].encode())
        if not is_submit:
            rec = refcodec.ref_recover(self.desc["get"], msg)
            blob = rec["metadata"]
            plain = PKCS1_v1_5.new(KEY).decrypt(blob, None)
            assert plain is not None and plain[:4] == b"\x00\x00\xbe\xef", "peer could not decrypt the metadata"
            aes_rand = plain[8:24]
            dg = hashlib.sha256(aes_rand).digest()
            self.keys = (dg[:16], dg[16:])
            self.wire.append((raw, [("metadata", int.from_bytes(plain[28:32], "big"), aes_rand)]))
            todo = self.tasks.pop(0) if self.tasks else []
            out = b""
            expect = []
            if todo:
                # one encrypted packet per response; its plaintext is one task record
                cmd, data = todo[0]
                body_plain = (1700000000).to_bytes(4, "big") + (8 + len(data)).to_bytes(4, "big") + cmd.to_bytes(4, "big") + \
                    len(data).to_bytes(4, "big") + data
                ct, sig = ref_encrypt(body_plain, *self.keys)
                out = ct + sig
                expect.append(("task", cmd, data))
            steps = [("build", "output")] + self.desc["server"]
            nmask = sum(1 for n, _ in steps if n == "mask")
            t = refcodec.ref_transform(steps, {"output": out}, (b"", {}, {}, b""), [bytes(rng.randrange(256) for _ in range(4)) for _ in range(nmask)])
            self.wire.append((serialize_response(t[2], t[3]), expect))
            return FakeResponse({k.decode(): v.decode("latin-1") for k, v in t[2].items()}, t[3])
        rec = refcodec.ref_recover(self.desc["post"], msg)
        stream, expect = rec["output"], []
        while stream:
            n = int.from_bytes(stream[:4], "big")
            ct, sig, stream = stream[4:4 + n - 16], stream[4 + n - 16:4 + n], stream[4 + n:]
            plain = ref_decrypt(ct, sig, *self.keys)
            size = int.from_bytes(plain[4:8], "big")
            expect.append(("callback", int.from_bytes(plain[:4], "big"), int.from_bytes(plain[8:12], "big"), plain[12:12 + size]))
        self.wire.append((raw, expect))
        self.last_id = rec["id"]
        return FakeResponse({}, b"")


def observed(pkts):
    out = []
    for p in pkts:
        if isinstance(p, BeaconMetadata) or type(p).__name__ == "BeaconMetadata":
            out.append(("metadata", p.bid, bytes(p.aes_rand)))
        elif type(p).__name__ == "TaskPacket":
            out.append(("task", p.command.value, bytes(p.data)))
        elif type(p).__name__ == "CallbackPacket":
            out.append(("callback", p.counter, p.callback.value, bytes(p.data)))
        else:
            out.append(("other", repr(p)))
    return out


comp = Component("client-peer-decoder-sessions",
                 "generated HTTP(S) configurations (random get/post/server programs with printable placements: header / parameter / "
                 "print terminations, static headers and parameters; uri-append excluded, see K1) x sessions of 1-8 actions (check-in "
                 "without task, check-in with a task, callback with arbitrary data, two callbacks) x key material {RSA private key, "
                 "aes_rand, aes+hmac keys, RSA key with only one of the session keys, RSA key + aes_rand}: the decoder fed with the raw HTTP bytes of every message in order yields exactly the packets "
                 "sent (metadata only with the RSA key), and get_task returns the task the peer sent; 150 sessions quick / 1500 thorough")
c_route = Component("unrelated-traffic-rejected", "requests with a different verb, a URI outside the configured prefixes, or the get URI "
                    "with the post verb raise ValueError in iter_recover_http / get_transform_for_http; 30 quick / 1000 thorough")

_real_request = client_mod.httpx.request
N = 150 if TIER == "quick" else 1500
for sidx in range(N):
    prof = cfggen.gen_profile(rng)
    # printable placements only: data stored in a header / parameter must survive the wire (no CR / LF / NUL in header values)
    verbs = rng.choice([(b"GET", b"POST"), (b"GET", b"POST"), (b"GET", b"GET"), (b"POST", b"POST"), (b"POST", b"GET")])
    blk, desc = cfggen.config_block(rng, profile=prof, domains=rng.choice(["c2.example,/api/v1", "a.example,/load,b.example,/fetch"]),
                                    verbs=verbs, submit=rng.choice(["/submit.php", "/s"]))
    bc = BeaconConfig(blk)
    peer = Peer(desc)
    cl = HttpBeaconClient()
    actions = [rng.choice(["checkin", "task", "callback", "callback2"]) for _ in range(rng.randrange(1, 9))]
    if "task" not in actions and rng.random() < 0.5:
        actions.insert(0, "task")
    witness = {"get": repr(desc["get"]), "post": repr(desc["post"]), "server": repr(desc["server"]), "actions": actions}
    ok, why = True, None
    try:
        with time_limit(60):
            client_mod.httpx.request = peer.request
            _random.seed(sidx)
            # identities up to and beyond the widest info field the client emits (51 bytes), ids at the ends of the range
            ident = rng.choice([("c", "u", "p.exe"), ("", "", ""), ("WORKSTATION-0123456789", "administrator-long", "svchost.exe"),
                                ("C" * 20, "U" * 20, "P" * 9), ("C" * 30, "U" * 30, "P" * 30), ("h\u00f6st", "\u00fcser", "pr\u00f6c.exe")])
            bid = rng.choice([2, 2 ** 31 - 2, 0x40000000, 2 * rng.randrange(1, 2 ** 30)])
            witness["identity"], witness["beacon_id"] = list(ident), bid
            cl.run(bc, dry_run=True, beacon_id=bid, silent=True, computer=ident[0], user=ident[1], process=ident[2])
            sent_tasks = []
            # the first message of a session is a check-in (the peer learns the session keys from the metadata)
            for a in ["checkin"] + actions:
                if a in ("checkin", "task"):
                    if a == "task":
                        t = (rng.choice([4, 39, 5, 53]), bytes(rng.randrange(256) for _ in range(rng.randrange(0, 40))))
                        peer.tasks.append([t])
                    got = cl.get_task()
                    if a == "task":
                        if got is None or got.command.value != t[0] or bytes(got.data) != t[1]:
                            ok, why = False, f"get_task returned {got!r}, the peer sent {t!r}"
                            break
                    elif got is not None:
                        ok, why = False, f"get_task returned {got!r} for an empty response"
                        break
                else:
                    for _ in range(2 if a == "callback2" else 1):
                        cl.send_callback(rng.choice([BeaconCallback.CALLBACK_OUTPUT, BeaconCallback.CALLBACK_OUTPUT_OEM, BeaconCallback.CALLBACK_ERROR]), bytes(rng.randrange(256) for _ in range(rng.randrange(0, 60))))
            if ok:
                for variant in ("rsa", "aes_rand", "keys", "rsa+aes_key", "rsa+hmac_key", "rsa+aes_rand"):
                    kw = {"rsa": {"rsa_private_key": KEY}, "aes_rand": {"aes_rand": cl.aes_rand},
                          "keys": {"aes_key": cl.aes_key, "hmac_key": cl.hmac_key},
                          "rsa+aes_key": {"rsa_private_key": KEY, "aes_key": cl.aes_key},
                          "rsa+hmac_key": {"rsa_private_key": KEY, "hmac_key": cl.hmac_key},
                          "rsa+aes_rand": {"rsa_private_key": KEY, "aes_rand": cl.aes_rand}}[variant]
                    dec = C2Http(bc, **kw)
                    for n_, (raw, expect) in enumerate(peer.wire):
                        got = observed(list(dec.iter_recover_http(raw)))
                        want = [e for e in expect if not (e[0] == "metadata" and not variant.startswith("rsa"))]
                        if want and want[0][0] == "metadata":
                            want = [("metadata", cl.beacon_id, cl.aes_rand)] + want[1:]
                        if got != want:
                            ok, why = False, {"variant": variant, "message": n_, "decoded": repr(got)[:300], "sent": repr(want)[:300],
                                              "raw_hex": raw.hex()[:600]}
                            break
                    if not ok:
                        break
    except CaseTimeout:
        ok, why = False, "timeout"
    except Exception as ex:   # noqa
        import traceback
        ok, why = False, repr(ex)[:200] + " @ " + traceback.format_exc()[-400:]
    finally:
        client_mod.httpx.request = _real_request
    witness["why"] = why
    witness["config_block_hex"] = blk.hex()[:3000]
    comp.case(sidx, ok, sample=str(actions), witness=witness)

for i in range(30 if TIER == "quick" else 1000):
    blk, desc = cfggen.config_block(rng)
    bc = BeaconConfig(blk)
    dec = C2Http(bc, aes_key=b"k" * 16, hmac_key=b"h" * 16)
    get_uri = desc["domains"].split(",")[1].encode()
    bad = rng.choice([HttpRequest(method=b"PUT", uri=get_uri, params={}, headers={}, body=b""),
                      HttpRequest(method=b"GET", uri=b"/unrelated" + get_uri, params={}, headers={}, body=b""),
                      HttpRequest(method=b"POST", uri=get_uri + b"-not-submit", params={}, headers={}, body=b"x"),
                      HttpRequest(method=b"get", uri=get_uri, params={}, headers={}, body=b""),
                      b"DELETE / HTTP/1.1\r\nHost: x\r\n\r\n"])
    if isinstance(bad, HttpRequest) and bad.method == b"POST" and bad.uri.startswith(desc["submit_uri"].encode()):
        continue
    try:
        list(dec.iter_recover_http(bad))
        ok = False
    except ValueError:
        ok = True
    except Exception:   # noqa
        ok = False
    c_route.case(i, ok, witness={"request": repr(bad)[:300], "get_uris": desc["domains"], "submit_uri": desc["submit_uri"]})
if c_route.cases == 0:
    c_route.case("none", True)

# K1 (known finding, shared with C04): a get program terminating in uri-append - the decoder recovers base URI + data
c_k1 = Component("uri_append-nonempty-base-uri", "one session whose http-get client program is `build metadata; base64url; uri-append`")
get = [("build", "metadata"), ("base64url", True), ("uri_append", True)]
post = [("build", "id"), ("parameter", b"id"), ("build", "output"), ("print", True)]
blk, desc = cfggen.config_block(rng, profile=(get, post, [("print", True)]), domains="c2.example,/base")
bc = BeaconConfig(blk)
peer = Peer(desc)
cl = HttpBeaconClient()
try:
    client_mod.httpx.request = lambda method, url, **kw: (_ for _ in ()).throw(RuntimeError(url))
    cl.run(bc, dry_run=True, beacon_id=2468, silent=True, user="u", computer="c", process="p.exe")
    try:
        cl.get_task()
    except RuntimeError as ex:
        url = str(ex)
    raw = serialize_request(b"GET", urlsplit(url).path.encode(), {}, {b"Host": b"c2.example"}, b"")
    got = observed(list(C2Http(bc, rsa_private_key=KEY).iter_recover_http(raw)))
    ok = got == [("metadata", cl.beacon_id, cl.aes_rand)]
except Exception as ex:   # noqa
    ok, got = False, repr(ex)[:200]
finally:
    client_mod.httpx.request = _real_request
c_k1.case("uri-append-session", ok, witness={"class": "uri_append_nonempty_base_uri", "contract_key": "bounded:uri_append-nonempty-base-uri",
                                             "decoded": repr(got)[:300]})
emit([comp, c_route, c_k1])
