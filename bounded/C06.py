"""Bounded stand-in for C06: RSA transport through the real pycryptodome with real keys."""
import os, sys
sys.path.insert(0, os.path.dirname(os.path.abspath(__file__)))
from common import Component, emit, rng, TIER
from Crypto.PublicKey import RSA
from dissect.cobaltstrike.c2 import encrypt_metadata, decrypt_metadata
from dissect.cobaltstrike.c_c2 import BeaconMetadata

comp = Component("rsa-roundtrip-real-pycryptodome",
                 "RSA-1024 and RSA-2048 test keys; every info length 0..limit and limit+1; field values random at full width; seed=VERIF_SEED")
FIELDS = [("ansi_cp", 16), ("oem_cp", 16), ("bid", 32), ("pid", 32), ("port", 16), ("flag", 8), ("ver_major", 8),
          ("ver_minor", 8), ("ver_build", 16), ("ptr_x64", 32), ("ptr_gmh", 32), ("ptr_gpa", 32), ("ip", 32)]
for bits in (1024, 2048):
    priv = RSA.import_key(open(os.path.join(os.path.dirname(__file__), "..", "contracts", "spec", f"test_rsa_{bits}.pem"), "rb").read())
    pub = priv.publickey()
    limit = pub.size_in_bytes() - 11 - 59
    lengths = list(range(0, limit + 2)) if TIER == "thorough" or bits == 1024 else list(range(0, limit + 2, 7)) + [limit, limit + 1]
    for n in lengths:
        m = BeaconMetadata()
        m.magic = 0xBEEF
        m.aes_rand = bytes(rng.randrange(256) for _ in range(16))
        for f, w in FIELDS:
            setattr(m, f, rng.choice([0, 2 ** w - 1, rng.randrange(2 ** w)]))
        m.info = bytes(rng.randrange(256) for _ in range(n))
        want = {f: getattr(m, f) for f, _ in FIELDS}
        want.update(aes_rand=m.aes_rand, info=m.info)
        try:
            blob = encrypt_metadata(m, pub)
            got = decrypt_metadata(blob, priv)
            ok = n <= limit and all(getattr(got, k) == v for k, v in want.items()) and got.size == 51 + n and got.magic == 0xBEEF
        except ValueError:
            ok = n > limit
        comp.case((bits, n), ok, sample={"bits": bits, "info_len": n}, witness={"bits": bits, "info_len": n})
    # non-decryptable blobs -> ValueError
    for blob in (bytes(pub.size_in_bytes()), b"\xff" * pub.size_in_bytes(), b"short", bytes(rng.randrange(256) for _ in range(pub.size_in_bytes()))):
        try:
            decrypt_metadata(blob, priv)
            ok = False
        except ValueError:
            ok = True
        except Exception:
            ok = False
        comp.case((bits, "garbage", blob[:4]), ok, witness={"bits": bits, "blob_head": blob[:8].hex()})
emit([comp])
