"""Bounded stand-in for C06: RSA transport through the real pycryptodome with real keys."""
import os, sys
sys.path.insert(0, os.path.dirname(os.path.abspath(__file__)))
from common import Component, emit, rng, TIER
from Crypto.PublicKey import RSA
from dissect.cobaltstrike.c2 import encrypt_metadata, decrypt_metadata
from dissect.cobaltstrike.c_c2 import BeaconMetadata

comp = Component("rsa-roundtrip-real-pycryptodome",
                 "RSA-1024 and RSA-2048 test keys; every info length 0..limit and limit+1; field values random at full width; seed=VERIF_SEED")
FIELDS = [("ansi_cp", 16), ("oem_cp", 16), ("bid", 32), ("pid", 32), ("port", 16), ("flag", 8), ("ver_major", 8),
          ("ver_minor", 8), ("ver_build", 16), ("ptr_x64", 32), ("ptr_gmh", 32), ("ptr_gpa", 32), ("ip", 32)]
for bits in (1024, 2048):
    priv = RSA.import_key(open(os.path.join(os.path.dirname(__file__), "..", "contracts", "spec", f"test_rsa_{bits}.pem"), "rb").read())
    pub = priv.publickey()
    limit = pub.size_in_bytes() - 11 - 59
    lengths = list(range(0, limit + 2)) if TIER == "thorough" or bits == 1024 else list(range(0, limit + 2, 7)) + [limit, limit + 1]
    for n in lengths:
        m = BeaconMetadata()
        m.magic = 0xBEEF
        m.aes_rand = bytes(rng.randrange(256) for _ in range(16))
        for f, w in FIELDS:
            setattr(m, f, rng.choice([0, 2 ** w - 1, rng.randrange(2 ** w)]))
        m.info = bytes(rng.randrange(256) for _ in range(n))
        want = {f: getattr(m, f) for f, _ in FIELDS}
        want.update(aes_rand=m.aes_rand, info=m.info)
        try:
            blob = encrypt_metadata(m, pub)
            got = decrypt_metadata(blob, priv)
            ok = n <= limit and all(getattr(got, k) == v for k, v in want.items()) and got.size == 51 + n and got.magic == 0xBEEF
            why = None
        except ValueError:
            ok, why = n > limit, "ValueError"
        except Exception as ex:     # noqa
            ok, why = False, repr(ex)[:300]
        comp.case((bits, n), ok, sample={"bits": bits, "info_len": n},
                  witness={"bits": bits, "info_len": n, "fields": {k: (v.hex() if isinstance(v, bytes) else v) for k, v in want.items()},
                           "why": why})
    # non-decryptable blobs -> ValueError
    for blob in (bytes(pub.size_in_bytes()), b"\xff" * pub.size_in_bytes(), b"short", bytes(rng.randrange(256) for _ in range(pub.size_in_bytes()))):
        try:
            decrypt_metadata(blob, priv)
            ok = False
        except ValueError:
            ok = True
        except Exception:
            ok = False
        comp.case((bits, "garbage", blob[:4]), ok, witness={"bits": bits, "blob_head": blob[:8].hex()})
# histories: the same blob decrypted again, with the matching key, with a different key, after the first result was edited
hist = Component("repeated-decryption", "encrypt once, then: decrypt with the matching key twice (equal results, edits of the first result do not "
                 "leak into the second), decrypt with a non-matching key of the same size (ValueError), decrypt with the matching key again")
k1024 = RSA.import_key(open(os.path.join(os.path.dirname(__file__), "..", "contracts", "spec", "test_rsa_1024.pem"), "rb").read())
other = RSA.generate(1024, randfunc=lambda n: bytes(rng.randrange(256) for _ in range(n)))
for i in range(6):
    m = BeaconMetadata()
    m.magic = 0xBEEF
    m.aes_rand = bytes(rng.randrange(256) for _ in range(16))
    m.bid = 2 * rng.randrange(2 ** 30)
    m.info = b"host\tuser\tproc%d" % i
    blob = encrypt_metadata(m, k1024.publickey())
    try:
        a = decrypt_metadata(blob, k1024)
        a_bid = a.bid
        a.bid = 1
        a.info = b"edited"
        try:
            decrypt_metadata(blob, other)
            wrong_rejected = False
        except ValueError:
            wrong_rejected = True
        b = decrypt_metadata(blob, k1024)
        ok = wrong_rejected and a_bid == m.bid and b.bid == m.bid and bytes(b.info) == bytes(m.info) and bytes(b.aes_rand) == bytes(m.aes_rand)
        w = {"wrong_key_rejected": wrong_rejected, "second_bid": b.bid, "expected_bid": m.bid, "second_info": repr(bytes(b.info))}
    except Exception as ex:   # noqa
        ok, w = False, {"error": repr(ex)}
    hist.case(i, ok, witness=w)
emit([comp, hist])
