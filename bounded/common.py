"""Helpers for bounded stand-ins (run under /venv/bin/python against the REAL code; labelled bounded,
never counted as proved)."""
import json
import os
import random
import sys

ROOT = os.path.dirname(os.path.dirname(os.path.abspath(__file__)))
REPO = os.environ.get("PYVC_REPO", "/repo")
if REPO not in sys.path:
    sys.path.insert(0, REPO)
sys.path.insert(0, ROOT)
SEED = int(os.environ.get("VERIF_SEED", "0") or 0)
TIER = os.environ.get("VERIF_TIER", "quick")
rng = random.Random(SEED)


_ALL = []
_TMPDIRS = []


def mkdtemp(prefix):
    """a scratch directory that is removed at the end of the component, also on the early exit after three violations"""
    import tempfile
    d = tempfile.mkdtemp(prefix=prefix)
    _TMPDIRS.append(d)
    return d


def cleanup_tmp():
    import shutil
    for d in _TMPDIRS:
        shutil.rmtree(d, ignore_errors=True)


class Component:
    def __init__(self, name, bound):
        _ALL.append(self)
        self.name, self.bound = name, bound
        self.cases = 0
        self.nontrivial = set()
        self.samples = []
        self.violations = []

    def case(self, key, ok, sample=None, nontrivial=True, witness=None):
        self.cases += 1
        if nontrivial:
            self.nontrivial.add(key)
        if sample is not None and len(self.samples) < 3:
            self.samples.append(sample)
        if not ok and len(self.violations) < 5:
            self.violations.append(witness or {"case": key})
        if len(self.violations) >= 3:
            # enough witnesses: stop exploring (keeps a non-terminating mutant from costing one time-out per case)
            emit(_ALL)
            sys.stdout.flush()
            cleanup_tmp()
            os._exit(0)

    def result(self):
        return {"name": self.name, "bound": self.bound, "cases": self.cases, "distinct_nontrivial": len(self.nontrivial),
                "samples": self.samples, "violations": self.violations, "label": "bounded"}


def emit(components):
    json.dump({"components": [c.result() for c in components]}, sys.stdout, default=str)


import contextlib
import signal


class CaseTimeout(BaseException):      # BaseException: library code under test must not be able to swallow it
    pass


@contextlib.contextmanager
def time_limit(seconds=5):
    """a case that does not return within the limit counts as a violation (non-termination), not as a hang of the check.
    The limit is on the CPU time of this process (robust against a loaded machine); a wall-clock limit ten times as long
    backs it up for code that blocks without using the CPU."""
    def handler(signum, frame):
        raise CaseTimeout()
    old_prof = signal.signal(signal.SIGPROF, handler)
    old_real = signal.signal(signal.SIGALRM, handler)
    signal.setitimer(signal.ITIMER_PROF, seconds, 0.5)       # re-fires every 0.5 s in case the first one is swallowed
    signal.setitimer(signal.ITIMER_REAL, 10 * seconds, 0.5)
    try:
        yield
    finally:
        signal.setitimer(signal.ITIMER_PROF, 0)
        signal.setitimer(signal.ITIMER_REAL, 0)
        signal.signal(signal.SIGPROF, old_prof)
        signal.signal(signal.SIGALRM, old_real)


_CONFIRMED_HANG = [False]


def limited_call(fn, short=20, long=900):
    """run fn() under the short CPU-time limit; a case that exceeds it is run again under the long limit before it counts
    as non-termination (the library has inputs that legitimately need tens of seconds, e.g. XorEncoded detection on a file
    whose first KiB is all ff: ~1000 nonce candidates x 1024 header probes through the decoding reader, measured 30-40 s
    of CPU per detection and up to four detections per extraction, 150 s in all; the cost does not grow with the input
    beyond that because the probe ranges are capped at 1024).
    fn must be re-runnable.  After one confirmed non-termination further cases are judged by the short limit only (the
    check is failing anyway; this keeps a non-terminating change from costing `long` seconds per case)."""
    try:
        with time_limit(short):
            return fn()
    except CaseTimeout:
        if _CONFIRMED_HANG[0]:
            raise
    try:
        with time_limit(long):
            return fn()
    except CaseTimeout:
        _CONFIRMED_HANG[0] = True
        raise


def load_spec_module(name):
    """import contracts/spec/<name>.py by path (the directory is not put on sys.path: it has an http.py)"""
    import importlib.util
    spec = importlib.util.spec_from_file_location("vspec_" + name, os.path.join(ROOT, "contracts", "spec", name + ".py"))
    mod = importlib.util.module_from_spec(spec)
    spec.loader.exec_module(mod)
    return mod
