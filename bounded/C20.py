"""Bounded stand-in next to the C20 proofs: the proofs quantify over `bytes` arguments (the annotated type); the real functions
also accept other byte strings (bytearray, memoryview) and are run here with them, together with a direct sample of the
proved laws on the real code (so that a change which only puts a function out of the verifier's reach still meets a failing
input)."""
import os, sys
sys.path.insert(0, os.path.dirname(os.path.abspath(__file__)))
from common import Component, emit, rng, TIER
from dissect.cobaltstrike import utils


def rb(n):
    return bytes(rng.randrange(256) for _ in range(n))


def ref_xor(data, key):
    if not key or not any(key):
        return bytes(data)
    return bytes(c ^ key[i % len(key)] for i, c in enumerate(data))


KINDS = {"bytes": bytes, "bytearray": bytearray, "memoryview": memoryview}
# which argument types the unchanged function supports is part of the stated bound, not of the property: established once
# on the reference semantics below - data of any of the three kinds, key bytes or bytearray (a memoryview key cannot be
# repeated with `*`)
cx = Component("xor-over-byte-string-kinds",
               "data lengths 0..40 and random up to 600, key lengths 0..9 / 16 / 255 incl. all-zero and single-byte keys, data as bytes / "
               "bytearray / memoryview, key as bytes / bytearray: result == reference XOR (same bytes), length preserved, applying the "
               "key twice gives the data back; 1500 cases quick / 30000 thorough")
N = 1500 if TIER == "quick" else 30000
for i in range(N):
    n = i % 41 if i < 400 else rng.randrange(0, 600)
    kl = rng.choice([0, 1, 1, 2, 3, 4, 4, 5, 7, 8, 9, 16, 255])
    key = rb(kl)
    if rng.random() < 0.1:
        key = bytes(kl)
    data = rb(n)
    dk, kk = rng.choice(list(KINDS)), rng.choice(["bytes", "bytearray"])
    w = {"data_hex": data.hex()[:200], "data_len": n, "key_hex": key.hex()[:64], "data_type": dk, "key_type": kk}
    try:
        out = utils.xor(KINDS[dk](data), KINDS[kk](key))
        want = ref_xor(data, key)
        again = utils.xor(KINDS[dk](bytes(out)), KINDS[kk](key))
        ok = bytes(out) == want and len(out) == n and bytes(again) == data
        w.update(got_hex=bytes(out).hex()[:200])
    except Exception as ex:     # noqa
        ok = False
        w["error"] = repr(ex)[:300]
    cx.case((i, n, kl, dk, kk), ok, sample={"len": n, "keylen": kl, "types": [dk, kk]}, witness=w)

cn = Component("netbios-and-packing-over-byte-string-kinds",
               "netbios_decode(netbios_encode(x, off), off) == x for x as bytes / bytearray / memoryview, offsets 0x41 / 0x61 / random "
               "0..239; unpack(pack(v, size, order, signed), size, order, signed) == v at widths 1, 2, 4, 8 (both orders, both "
               "signednesses, extreme and random values) and through the partial bindings p8..p64 / u8..u64 / p16be..u64be; 1500 cases quick / 20000")
for i in range(1500 if TIER == "quick" else 20000):
    x = rb(i % 30 if i < 300 else rng.randrange(0, 200))
    off = rng.choice([0x41, 0x61, rng.randrange(0, 240)])
    dk = rng.choice(list(KINDS))
    w = {"x_hex": x.hex()[:200], "offset": off, "type": dk}
    try:
        enc = utils.netbios_encode(KINDS[dk](x), off)
        dec = utils.netbios_decode(KINDS[dk](enc), off)
        ok = bytes(dec) == x and len(enc) == 2 * len(x) and all(off <= c <= off + 15 for c in enc)
        size = rng.choice([1, 2, 4, 8])
        order = rng.choice(["little", "big"])
        signed = rng.random() < 0.5
        lo, hi = (-(1 << (8 * size - 1)), (1 << (8 * size - 1)) - 1) if signed else (0, (1 << (8 * size)) - 1)
        v = rng.choice([lo, hi, 0, -1 if signed else 1, rng.randrange(lo, hi + 1)])
        packed = utils.pack(v, size, byteorder=order, signed=signed)
        back = utils.unpack(KINDS[dk](packed), size, byteorder=order, signed=signed)
        ok = ok and back == v and len(packed) == size and packed == v.to_bytes(size, order, signed=signed)
        name = {1: "8", 2: "16", 4: "32", 8: "64"}[size] + ("be" if order == "big" else "")
        if not signed and hasattr(utils, "p" + name):
            ok = ok and getattr(utils, "p" + name)(v) == packed and getattr(utils, "u" + name)(packed) == v
        w.update(size=size, order=order, signed=signed, value=v)
    except Exception as ex:     # noqa
        ok = False
        w["error"] = repr(ex)[:300]
    cn.case((i, dk), ok, witness=w)
emit([cx, cn])
