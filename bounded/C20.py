"""Bounded stand-in next to the C20 proofs: the proofs quantify over `bytes` arguments (the annotated type); the real functions
also accept other byte strings (bytearray, memoryview) and are run here with them, together with a direct sample of the
proved laws on the real code (so that a change which only puts a function out of the verifier's reach still meets a failing
input)."""
import os, sys
sys.path.insert(0, os.path.dirname(os.path.abspath(__file__)))
from common import Component, emit, rng, TIER
from dissect.cobaltstrike import utils


def rb(n):
    return bytes(rng.randrange(256) for _ in range(n))


def ref_xor(data, key):
    if not key or not any(key):
        return bytes(data)
    return bytes(c ^ key[i % len(key)] for i, c in enumerate(data))


KINDS = {"bytes": bytes, "bytearray": bytearray, "memoryview": memoryview}
# which argument types the unchanged function supports is part of the stated bound, not of the property: established once
# on the reference semantics below - data of any of the three kinds, key bytes or bytearray (a memoryview key cannot be
# repeated with `*`)
cx = Component("xor-over-byte-string-kinds",
               "data lengths 0..40 and random up to 600, key lengths 0..9 / 16 / 255 incl. all-zero and single-byte keys, data as bytes / "
               "bytearray / memoryview, key as bytes / bytearray: result == reference XOR (same bytes), length preserved, applying the "
               "key twice gives the data back; 1500 cases quick / 30000 thorough")
N = 1500 if TIER == "quick" else 30000
for i in range(N):
    n = i % 41 if i < 400 else rng.randrange(0, 600)
    kl = rng.choice([0, 1, 1, 2, 3, 4, 4, 5, 7, 8, 9, 16, 255])
    key = rb(kl)
    if rng.random() < 0.1:
        key = bytes(kl)
    data = rb(n)
    dk, kk = rng.choice(list(KINDS)), rng.choice(["bytes", "bytearray"])
    w = {"data_hex": data.hex()[:200], "data_len": n, "key_hex": key.hex()[:64], "data_type": dk, "key_type": kk}
    try:
        out = utils.xor(KINDS[dk](data), KINDS[kk](key))
        want = ref_xor(data, key)
        again = utils.xor(KINDS[dk](bytes(out)), KINDS[kk](key))
        ok = bytes(out) == want and len(out) == n and bytes(again) == data
        w.update(got_hex=bytes(out).hex()[:200])
    except Exception as ex:     # noqa
        ok = False
        w["error"] = repr(ex)[:300]
    cx.case((i, n, kl, dk, kk), ok, sample={"len": n, "keylen": kl, "types": [dk, kk]}, witness=w)

cn = Component("netbios-and-packing-over-byte-string-kinds",
               "netbios_decode(netbios_encode(x, off), off) == x for x as bytes / bytearray / memoryview, offsets 0x41 / 0x61 / random "
               "0..239; unpack(pack(v, size, order, signed), size, order, signed) == v at widths 1, 2, 4, 8 (both orders, both "
               "signednesses, extreme and random values) and through the partial bindings p8..p64 / u8..u64 / p16be..u64be; 1500 cases quick / 20000")
for i in range(1500 if TIER == "quick" else 20000):
    x = rb(i % 30 if i < 300 else rng.randrange(0, 200))
    off = rng.choice([0x41, 0x61, rng.randrange(0, 240)])
    dk = rng.choice(list(KINDS))
    w = {"x_hex": x.hex()[:200], "offset": off, "type": dk}
    try:
        enc = utils.netbios_encode(KINDS[dk](x), off)
        dec = utils.netbios_decode(KINDS[dk](enc), off)
        ok = bytes(dec) == x and len(enc) == 2 * len(x) and all(off <= c <= off + 15 for c in enc)
        size = rng.choice([1, 2, 4, 8])
        order = rng.choice(["little", "big"])
        signed = rng.random() < 0.5
        lo, hi = (-(1 << (8 * size - 1)), (1 << (8 * size - 1)) - 1) if signed else (0, (1 << (8 * size)) - 1)
        v = rng.choice([lo, hi, 0, -1 if signed else 1, rng.randrange(lo, hi + 1)])
        packed = utils.pack(v, size, byteorder=order, signed=signed)
        back = utils.unpack(KINDS[dk](packed), size, byteorder=order, signed=signed)
        ok = ok and back == v and len(packed) == size and packed == v.to_bytes(size, order, signed=signed)
        name = {1: "8", 2: "16", 4: "32", 8: "64"}[size] + ("be" if order == "big" else "")
        if not signed and hasattr(utils, "p" + name):
            ok = ok and getattr(utils, "p" + name)(v) == packed and getattr(utils, "u" + name)(packed) == v
        w.update(size=size, order=order, signed=signed, value=v)
    except Exception as ex:     # noqa
        ok = False
        w["error"] = repr(ex)[:300]
    cn.case((i, dk), ok, witness=w)
# ---------------------------------------------------------------- stager URI classification against the checksum8 definition
import re as _re


def ref_checksum8(text):
    """checksum8 as the property uses it: 0 for strings shorter than 4 characters, else the sum of the code points of the
    string with its slashes removed, modulo 256"""
    if len(text) < 4:
        return 0
    return sum(ord(ch) for ch in text if ch != "/") % 256


cu = Component("stager-classification-vs-checksum8",
               "URI strings over [A-Za-z0-9/?#=&.%_-] and a few non-ASCII characters, lengths 0..12, half of them steered so that their "
               "checksum8 is 92 or 93 (last character solved for), with and without query / fragment parts: is_stager_x86(u) == "
               "(checksum8(u) == 92), is_stager_x64(u) == (checksum8(u) == 93 and u is a slash + 4 alphanumerics), checksum8 == "
               "reference; 100 generated stager URIs of each kind satisfy their classifier; 4000 strings quick / 60000 thorough")
ALPH = "ABCDEFGHIJKLMNOPQRSTUVWXYZabcdefghijklmnopqrstuvwxyz0123456789"
for i in range(4000 if TIER == "quick" else 60000):
    n = rng.randrange(0, 13)
    u = "".join(rng.choice(ALPH + "//??##=&.%_-" + ("\u00e9\u0101" if rng.random() < 0.05 else "")) for _ in range(n))
    if rng.random() < 0.5:
        u = "/" + u[1:]
    if rng.random() < 0.5 and len(u) >= 4:
        # steer the checksum: replace one alphanumeric position so that the total becomes 92 or 93 (when an alphanumeric fits)
        target = rng.choice([92, 93])
        pos = [k for k, ch in enumerate(u) if ch in ALPH]
        if pos:
            k = rng.choice(pos)
            rest = ref_checksum8(u[:k] + "/" + u[k + 1:]) if len(u) >= 4 else 0
            for ch in ALPH:
                if (rest + ord(ch)) % 256 == target:
                    u = u[:k] + ch + u[k + 1:]
                    break
    want86 = ref_checksum8(u) == 92
    want64 = ref_checksum8(u) == 93 and _re.fullmatch("/[A-Za-z0-9]{4}", u) is not None
    try:
        got = (utils.checksum8(u), utils.is_stager_x86(u), utils.is_stager_x64(u))
        ok = got == (ref_checksum8(u), want86, want64)
        w = {"uri": u, "checksum8": ref_checksum8(u), "expected": [want86, want64], "got": list(got)}
    except Exception as ex:     # noqa
        ok, w = False, {"uri": u, "error": repr(ex)[:200]}
    cu.case((i, u), ok, sample=u, witness=w)
for i in range(200):
    x64 = bool(i % 2)
    try:
        u = utils.random_stager_uri(x64=x64) if x64 else utils.random_stager_uri(length=rng.choice([3, 4, 5, 8]))
        ok = (utils.is_stager_x64(u) if x64 else utils.is_stager_x86(u)) and ref_checksum8(u) == (93 if x64 else 92) and u.startswith("/")
        w = {"generated": u, "x64": x64}
    except Exception as ex:     # noqa
        ok, w = False, {"x64": x64, "error": repr(ex)[:200]}
    cu.case(("gen", i), ok, witness=w)
emit([cx, cn, cu])
