"""Bounded stand-in for C08 on the entry points the verifier does not reach end to end (BeaconConfig.from_bytes/from_file/
from_path incl. the all-keys retry and the Guardrails branch) and a cross-check of the proved ones on the real code:
arbitrary bytes and truncations / corruptions / splices of valid payloads; every call must return within the time limit and
either return its documented result or raise ValueError."""
import os, sys, io, tempfile
sys.path.insert(0, os.path.dirname(os.path.abspath(__file__)))
from common import Component, emit, rng, TIER, time_limit, CaseTimeout, load_spec_module, limited_call
cfggen = load_spec_module("cfggen")
gens = load_spec_module("gens")
from dissect.cobaltstrike.beacon import BeaconConfig
from dissect.cobaltstrike.xordecode import XorEncodedFile
from dissect.cobaltstrike import pe, artifact, guardrails
from dissect.cobaltstrike.c2 import parse_raw_http, HttpRequest, HttpResponse


def x1(data, k):
    return bytes(c ^ k for c in data)


# ---------------------------------------------------------------- seeds: valid payloads of every container kind
def seeds():
    out = []
    blk, _ = cfggen.config_block(rng)
    small = bytes.fromhex("0001000100020008") + bytes.fromhex("0002000100020050") + b"\x00\x00"
    for b in (blk, small, blk[:200]):
        for k in (0x2e, 0x69, 0x00, 0x41):
            raw = b"\x90" * rng.randrange(0, 40) + x1(b + bytes(64), k) + b"\xcc" * rng.randrange(0, 40)
            out.append(raw)
            pe_img = gens.mini_pe(machine=rng.choice([0x8664, 0x14c]), append=raw)
            out.append(pe_img)
            out.append(gens.xorencode(pe_img, nonce=bytes(rng.randrange(1, 256) for _ in range(4)),
                                      stub=rng.choice([b"", b"\xfc\xe8" + b"\x90" * 5 + b"\xff\xff\xff"])))
    out.append(gens.guardrails_payload(b"envkey", (5, 6, 7, 8), config=blk[:2000], prefix=b"\x90" * 5, suffix=b"\xcc" * 4))
    out.append(gens.guardrails_payload(b"k", terminator=False))
    # guard configurations whose checksum value is not a dword (0-3 and 6 bytes)
    for n in (0, 1, 2, 3, 6):
        out.append(gens.guardrails_payload(b"envkey", (5,), config=blk[:500], prefix=b"\x90" * 3, checksum_len=n))
    # Guardrails areas that are as regular as they can be (one distinct n-gram at some key lengths), checksum right and wrong
    for key in (b"AA", b"AB", b"\x2e\x2e", b"ABAB"):
        for bad in (True, False):
            out.append(gens.guardrails_payload(key, (5,), config=b"", prefix=b"\x90" * rng.choice([0, 100]), bad_checksum=bad))
    out.append(gens.mini_pe(nsections=0xFFFF)[:600])
    out.append(gens.mini_pe(e_lfanew=-4 & 0x7fffffff)[:300])
    out.append(gens.mini_pe(export_rva=0xfffffff0))
    # over-long User-Agent at the end of the data, unterminated
    out.append(x1(bytes.fromhex("0001000100020008") + bytes.fromhex("000900030080") + b"A" * 128, 0x2e))
    # artifact kit header
    out.append(b"\x90" * 8 + (8 + 16).to_bytes(4, "little") + (5).to_bytes(4, "little") + b"\x01\x02\x03\x04" + bytes(8) + b"hello" + bytes(9))
    out.append(b"GET /a?x=%ff&y HTTP/1.1\r\nHost: a\r\n\r\nbody")
    out.append(b"HTTP/1.1 200 OK\r\nA: b\r\n\r\n\x00\x01")
    return out


def mutate(d):
    r = rng.random()
    if not d:
        return bytes(rng.randrange(256) for _ in range(rng.randrange(0, 20)))
    if r < 0.25:
        return d[:rng.randrange(0, len(d) + 1)]
    if r < 0.4:
        return d[rng.randrange(0, len(d)):]
    if r < 0.65:
        b = bytearray(d)
        for _ in range(rng.choice([1, 1, 2, 8])):
            p = rng.randrange(len(b))
            b[p] = rng.choice([0, 0xff, b[p] ^ (1 << rng.randrange(8)), rng.randrange(256)])
        return bytes(b)
    if r < 0.8:
        p = rng.randrange(len(d))
        # crafted 16/32-bit fields: huge / negative lengths and counts
        v = rng.choice([b"\xff\xff", b"\xff\xff\xff\xff", b"\x80\x00\x00\x00", b"\x00\x00\x00\x00", b"\x7f\xff\xff\xff"])
        return d[:p] + v + d[p + len(v):]
    if r < 0.9:
        o = SEEDS[rng.randrange(len(SEEDS))]
        p, q = rng.randrange(len(d) + 1), rng.randrange(len(o) + 1)
        return d[:p] + o[q:q + rng.randrange(0, 300)] + d[p:]
    return d + d[:rng.randrange(0, 64)]


SEEDS = seeds()
import common as _common
tmpdir = _common.mkdtemp("c08-")


def ep_from_bytes(d):
    return BeaconConfig.from_bytes(d)


def ep_from_bytes_all_keys(d):
    return BeaconConfig.from_bytes(d, all_xor_keys=True)


def ep_from_file(d):
    fh = io.BytesIO(d)
    fh.seek(rng.randrange(0, len(d) + 1))
    return BeaconConfig.from_file(fh, xor_keys=[b"\x41", b"\x2e"])


def ep_from_path(d):
    p = os.path.join(tmpdir, "s.bin")
    with open(p, "wb") as f:
        f.write(d)
    return BeaconConfig.from_path(p)


def ep_views(d):
    bc = BeaconConfig(d)           # direct construction from (untrusted) configuration bytes, then every view
    return (bc.settings, bc.raw_settings, bc.settings_by_index, bc.raw_settings_by_index)


def ep_xordecode(d):
    x = XorEncodedFile.from_file(io.BytesIO(d))
    return len(x.read())


def ep_pe(d):
    fh = io.BytesIO(d)
    return (pe.find_mz_offset(fh), pe.find_compile_stamps(fh), pe.find_magic_mz(fh), pe.find_magic_pe(fh),
            pe.find_architecture(fh), pe.find_stage_prepend_append(fh))


def ep_artifact(d):
    return len(list(artifact.iter_artifactkit_payloads(io.BytesIO(d))))


def ep_guardrails(d):
    return len(list(guardrails.iter_guardrail_configs_with_beacon(io.BytesIO(d))))


def ep_http(d):
    r = parse_raw_http(d)
    assert isinstance(r, (HttpRequest, HttpResponse))
    return r


EPS = [ep_from_bytes, ep_from_bytes_all_keys, ep_from_file, ep_from_path, ep_xordecode, ep_pe, ep_artifact, ep_guardrails, ep_http]
VIEWS_MAY_RAISE = ()     # ep_views is reported separately (constructing from arbitrary bytes is not one of the listed entry points)
comps = {ep.__name__: Component(ep.__name__, "seeds of every container kind (raw, PE, XorEncoded, Guardrails, crafted PE fields, "
                                "over-long User-Agent, ArtifactKit header, HTTP messages) + truncations, byte/bit corruptions, crafted "
                                "16/32-bit fields, splices, and random byte strings; returns within 900 s of CPU time (cases over 20 s are re-run under the long limit) with the documented result or "
                                "ValueError; %d inputs quick / %d thorough" % (260, 6000)) for ep in EPS}
inputs = list(SEEDS) + [b"", b"\x00", b"MZ", b"\xff" * 64, bytes(range(256))]
if TIER != "quick":
    inputs.append(b"\xff" * 1500)        # the slowest input known: ~1000 nonce candidates, each probed 1024 times (minutes, but bounded)
N = 260 if TIER == "quick" else 6000
while len(inputs) < N:
    r = rng.random()
    if r < 0.15:
        inputs.append(bytes(rng.randrange(256) for _ in range(rng.randrange(0, 400))))
    else:
        inputs.append(mutate(SEEDS[rng.randrange(len(SEEDS))]))
for n, d in enumerate(inputs):
    for ep in EPS:
        if ep is ep_from_bytes_all_keys and len(d) > 3000 and TIER == "quick" and n % 4:
            continue            # 254 further scans per call: sampled in the quick tier
        try:
            limited_call(lambda: ep(d))
            ok, why = True, None
        except ValueError:
            ok, why = True, None
        except CaseTimeout:
            ok, why = False, "no result within 900 s of CPU time"
        except BaseException as ex:   # noqa
            ok, why = False, f"{type(ex).__name__}: {ex}"[:300]
        comps[ep.__name__].case((n, len(d)), ok, witness={"entry_point": ep.__name__, "input_len": len(d), "input_hex": d.hex()[:6000],
                                                          "why": why})
try:
    os.remove(os.path.join(tmpdir, "s.bin"))
except OSError:
    pass
_common.cleanup_tmp()
emit(list(comps.values()))
