"""Bounded check for C12, over exactly the domain the property names: all byte strings up to length 2 over 0x00-0xff and
up to length 4 over the syntax-relevant alphabet, through value_to_string -> string_token_to_bytes directly and through the
real lexer/parser inside a statement; every escape sequence in first / middle / last position."""
import os, sys, itertools
sys.path.insert(0, os.path.dirname(os.path.abspath(__file__)))
from common import Component, emit, rng, TIER, time_limit, CaseTimeout
from lark import Token
from dissect.cobaltstrike.c2profile import value_to_string, string_token_to_bytes, C2Profile, c2profile_parser

SYNTAX = [b'"', b"\\", b"x", b"u", b"\n", b";", b"{", b"}", b"#", b"'"]

c_direct = Component("literal-roundtrip-direct",
                     "value_to_string(b) decoded by string_token_to_bytes: ALL byte strings of length <= 2 over 0x00-0xff (65793) and of "
                     "length <= 4 over the alphabet quote, backslash, x, u, newline, ; { } # ' (11111), plus 2000 random strings of length "
                     "3-40 (quick and thorough alike: this is the property's own bound)")
c_lexer = Component("literal-is-one-token-in-a-statement",
                    "the literal embedded in `set useragent <lit>; set jitter \"7\";` and in `http-get { client { metadata { prepend <lit>; "
                    "print; } } }`: the parser accepts, the STRING tokens of the parse tree are exactly the literal (and the following statement's), decode to the original "
                    "bytes, and as_dict() agrees on a 1-in-25 sample; quick: all lengths <= 1 over 0x00-0xff, all pairs over a 40-byte alphabet incl. the syntax bytes plus 5000 random pairs, "
                    "length <= 3 over the syntax alphabet; thorough: the full domain of the property")
c_esc = Component("escape-table", "\\xHH for all 256 values (both hex cases), \\u00HH for all 256, \\n \\r \\t \\\\ \\\" \\' , each at the "
                  "start, in the middle and at the end of a literal; truncated \\x / \\u raise ValueError")


def roundtrip_direct(b):
    lit = value_to_string(b)
    return lit, string_token_to_bytes(Token("STRING", lit))


dom = [b""] + [bytes([a]) for a in range(256)] + [bytes([a, b]) for a in range(256) for b in range(256)]
for n in (3, 4):
    dom += [b"".join(t) for t in itertools.product(SYNTAX, repeat=n)]
for _ in range(2000):
    dom.append(bytes(rng.choice([34, 92, 39, 10, 120, 117, rng.randrange(256)]) for _ in range(rng.randrange(3, 41))))
for b in dom:
    try:
        lit, back = roundtrip_direct(b)
        ok = back == b and lit.startswith('"') and lit.endswith('"')
    except Exception as ex:   # noqa
        ok, lit, back = False, None, repr(ex)
    c_direct.case(b, ok, witness={"bytes_hex": b.hex(), "literal": lit, "decoded": repr(back)})

# ---------------------------------------------------------------- through the lexer / parser
if TIER == "quick":
    alpha = sorted(set(b'"\\xu\n;{}#\'') | set(b"aZ09 \t\r\x00\x01\x7f\x80\xff=/.-_:,<>[]()!") )
    ldom = [b""] + [bytes([a]) for a in range(256)] + [bytes([a, b]) for a in alpha for b in alpha]
    ldom += [b"".join(t) for n in (3,) for t in itertools.product(SYNTAX, repeat=n)]
    ldom += [bytes([rng.randrange(256), rng.randrange(256)]) for _ in range(5000)]      # a seeded sample of the remaining pairs
else:
    ldom = [b""] + [bytes([a]) for a in range(256)] + [bytes([a, b]) for a in range(256) for b in range(256)]
    ldom += [b"".join(t) for n in (3, 4) for t in itertools.product(SYNTAX, repeat=n)]
def string_tokens(tree):
    return [t for t in tree.scan_values(lambda v: isinstance(v, Token) and v.type == "STRING")]


for n_, b in enumerate(ldom):
    lit = value_to_string(b)
    src1 = f'set useragent {lit}; set jitter "7";'
    src2 = "http-get { client { metadata { prepend " + lit + "; print; } } }"
    why = None
    try:
        t1 = string_tokens(c2profile_parser.parse(src1))
        t2 = string_tokens(c2profile_parser.parse(src2))
        ok = (len(t1) == 2 and t1[0].value == lit and t1[1].value == '"7"' and string_token_to_bytes(t1[0]) == b
              and len(t2) == 1 and t2[0].value == lit and string_token_to_bytes(t2[0]) == b)
        if ok and (n_ % 25 == 0 or len(b) <= 1 and b in (b"", b'"', b"\\", b"'", b"\n", b";", b"#")):
            # the dictionary view (expensive: it builds a Reconstructor per call) on a sample
            d1 = C2Profile.from_text(src1).as_dict()
            d2 = C2Profile.from_text(src2).as_dict()
            ok = (d1.get("jitter") == ["7"] and [x.encode("latin-1") for x in d1.get("useragent", [])] == [lit[1:-1].encode("latin-1")]
                  and d2.get("http-get.client.metadata") == [("prepend", b), "print"])
        if not ok:
            why = {"string_tokens": [t.value for t in t1], "block_tokens": [t.value for t in t2]}
    except Exception as ex:   # noqa
        ok, why = False, repr(ex)[:300]
    c_lexer.case(b, ok, witness={"bytes_hex": b.hex(), "literal": lit, "why": why})

# ---------------------------------------------------------------- documented escapes
table = [("\\x%02x" % v, v) for v in range(256)] + [("\\x%02X" % v, v) for v in range(256)] + [("\\u00%02x" % v, v) for v in range(256)]
table += [("\\n", 10), ("\\r", 13), ("\\t", 9), ("\\\\", 92), ('\\"', 34), ("\\'", 39)]
for esc, v in table:
    for pre, post in (("", ""), ("ab", "cd"), ("", "z"), ("q", "")):
        lit = '"' + pre + esc + post + '"'
        want = pre.encode() + bytes([v]) + post.encode()
        try:
            got = string_token_to_bytes(Token("STRING", lit))
            ok = got == want
            if ok:
                toks = [t for t in c2profile_parser.parse("http-get { client { metadata { append " + lit + "; print; } } }").scan_values(
                    lambda v: isinstance(v, Token) and v.type == "STRING")]
                ok = len(toks) == 1 and string_token_to_bytes(toks[0]) == want
        except Exception as ex:   # noqa
            ok, got = False, repr(ex)
        c_esc.case((esc, pre, post), ok, witness={"literal": lit, "expected_hex": want.hex(), "got": repr(got)})
for bad in ('"\\x"', '"\\x4"', '"ab\\u00"', '"\\u004"', '"\\u"'):
    try:
        string_token_to_bytes(Token("STRING", bad))
        ok = False
    except ValueError:
        ok = True
    except Exception:   # noqa
        ok = False
    c_esc.case(bad, ok, witness={"literal": bad, "expected": "ValueError"})
emit([c_direct, c_lexer, c_esc])
