"""Bounded stand-in for what the C05 proof ASSUMES: the proof treats AES-CBC, HMAC-SHA256 and SHA-256 as uninterpreted
functions (aes_enc / aes_dec / hmac_sha256 / sha256).  Here the real code runs with the real primitives and is compared with
an independent computation (pycryptodome AES in ECB mode chained by hand, hashlib / hmac), with session keys obtained the way
callers obtain them (BeaconKeys(...), BeaconKeys.from_aes_rand, BeaconKeys.from_beacon_metadata) and with configured
initialisation vectors other than the default one."""
import hashlib, hmac as _hmac, os, sys
sys.path.insert(0, os.path.dirname(os.path.abspath(__file__)))
from common import Component, emit, rng, TIER
from Crypto.Cipher import AES
from dissect.cobaltstrike.c2 import (BeaconKeys, BeaconMetadata, EncryptedPacket, encrypt_packet, decrypt_packet, ClientC2Data,
                                      ServerC2Data)


def cbc_encrypt(key, iv, data):
    """CBC written out over the block cipher (no library CBC mode)"""
    ecb, prev, out = AES.new(key, AES.MODE_ECB), iv, b""
    for i in range(0, len(data), 16):
        blk = ecb.encrypt(bytes(a ^ b for a, b in zip(data[i:i + 16], prev)))
        out += blk
        prev = blk
    return out


def rb(n):
    return bytes(rng.randrange(256) for _ in range(n))


comp = Component("session-keys-with-real-primitives",
                 "plaintext lengths 0..48 and random up to 300 x keys made by BeaconKeys(aes, hmac, iv) (AES keys of 16 / 24 / 32 bytes, HMAC keys of 1..100 bytes) / from_aes_rand(rand, iv=) / "
                 "from_beacon_metadata(md, iv=) / the same with the default IV, handed to encrypt_packet / decrypt_packet by keyword and positionally; ciphertext == hand-chained AES-CBC of plaintext + "
                 "'A' padding under the CONFIGURED iv, signature == HMAC-SHA256[:16]; decrypt returns plaintext + 1..16 'A'; any one-bit "
                 "change of ciphertext / signature / HMAC key, or no HMAC key, raises ValueError; 400 cases quick / 6000 thorough")
N = 400 if TIER == "quick" else 6000
for i in range(N):
    n = i % 49 if i < 200 else rng.randrange(0, 300)
    pt = rb(n)
    rand = rb(16)
    if i % 7 == 0:
        rand = rand[:rng.randrange(0, 16)].ljust(16, b"\x00")       # random bytes that end in NULs (also all zero)
    iv = rb(16)
    how = i % 5
    dig = hashlib.sha256(rand).digest()
    md = BeaconMetadata()
    md.aes_rand = rand
    if how == 0:
        # the API takes an HMAC key of any length (HMAC is defined for every key length), the AES key 16 / 24 / 32 bytes
        aes, hm = rb(rng.choice([16, 16, 24, 32])), rb(rng.choice([16, 32, 20, 1, 64, 65, 100]))
        keys, want_iv = BeaconKeys(aes, hm, iv), iv
    elif how == 1:
        keys, want_iv, aes, hm = BeaconKeys.from_aes_rand(rand, iv=iv), iv, dig[:16], dig[16:]
    elif how == 2:
        keys, want_iv, aes, hm = BeaconKeys.from_beacon_metadata(md, iv=iv), iv, dig[:16], dig[16:]
    elif how == 3:
        keys, want_iv, aes, hm = BeaconKeys.from_aes_rand(rand), b"abcdefghijklmnop", dig[:16], dig[16:]
    else:
        keys, want_iv, aes, hm = BeaconKeys.from_beacon_metadata(md), b"abcdefghijklmnop", dig[:16], dig[16:]
    w = {"how": ["BeaconKeys()", "from_aes_rand(iv=)", "from_beacon_metadata(iv=)", "from_aes_rand()", "from_beacon_metadata()"][how],
         "plaintext_hex": pt.hex(), "aes_rand_hex": rand.hex(), "iv_hex": iv.hex()}
    try:
        padn = 16 - n % 16
        want_ct = cbc_encrypt(aes, want_iv, pt + b"A" * padn)
        want_sig = _hmac.new(hm, want_ct, hashlib.sha256).digest()[:16]
        # the session keys are handed over both ways callers do it: by keyword and positionally (aes_key, hmac_key, iv)
        if i % 2:
            pkt = encrypt_packet(pt, *keys)
            back = decrypt_packet(pkt, *keys)
            back_nv = decrypt_packet(pkt, keys.aes_key, keys.hmac_key, keys.iv, False)
        else:
            pkt = encrypt_packet(pt, **keys._asdict())
            back = decrypt_packet(pkt, **keys._asdict())
            back_nv = decrypt_packet(pkt, keys.aes_key, iv=keys.iv, verify=False)
        w["keys_passed"] = "positionally" if i % 2 else "by keyword"
        ok = (keys.aes_key == aes and keys.hmac_key == hm and keys.iv == want_iv and pkt.ciphertext == want_ct and pkt.signature == want_sig
              and back == pt + b"A" * padn and back_nv == back)
        w.update(ciphertext_equal=pkt.ciphertext == want_ct, signature_equal=pkt.signature == want_sig, roundtrip=back == pt + b"A" * padn,
                 iv_of_keys=keys.iv.hex())
        # tampering
        if ok:
            bit = 1 << rng.randrange(8)
            ct2 = bytearray(pkt.ciphertext); ct2[rng.randrange(len(ct2))] ^= bit
            sg2 = bytearray(pkt.signature); sg2[rng.randrange(16)] ^= bit
            hk2 = bytearray(hm); hk2[rng.randrange(len(hk2))] ^= bit
            for what, p2, hk in (("ciphertext", EncryptedPacket(bytes(ct2), pkt.signature), hm), ("signature", EncryptedPacket(pkt.ciphertext, bytes(sg2)), hm),
                                 ("hmac key", pkt, bytes(hk2)), ("no hmac key", pkt, None), ("empty hmac key", pkt, b"")):
                try:
                    decrypt_packet(p2, aes_key=aes, hmac_key=hk, iv=want_iv)
                    ok = False
                    w["accepted_tampered"] = what
                except ValueError:
                    pass
    except Exception as ex:     # noqa
        ok = False
        w["error"] = repr(ex)[:300]
    comp.case((i, n, how), ok, sample={"len": n, "how": w["how"]}, witness=w)

fr = Component("framing-with-real-packets", "0-6 packets of random plaintext lengths: callback stream (length-prefixed frames) and task data "
               "(one packet, trailing signature) split back into exactly the packets that were concatenated; 200 streams quick / 3000 thorough")
for i in range(200 if TIER == "quick" else 3000):
    keys = BeaconKeys.from_aes_rand(rb(16), iv=rb(16))
    pkts = [encrypt_packet(rb(rng.randrange(0, 60)), **keys._asdict()) for _ in range(rng.randrange(0, 7))]
    try:
        stream = b"".join((len(p.ciphertext) + 16).to_bytes(4, "big") + p.ciphertext + p.signature for p in pkts)
        got = list(ClientC2Data(output=stream).iter_encrypted_packets()) if stream else []
        ok = [(g.ciphertext, g.signature) for g in got] == [(p.ciphertext, p.signature) for p in pkts]
        if pkts:
            one = list(ServerC2Data(output=pkts[0].ciphertext + pkts[0].signature).iter_encrypted_packets())
            ok = ok and [(g.ciphertext, g.signature) for g in one] == [(pkts[0].ciphertext, pkts[0].signature)]
        w = {"packets": [(p.ciphertext.hex(), p.signature.hex()) for p in pkts][:3], "got": len(got)}
    except Exception as ex:     # noqa
        ok, w = False, {"error": repr(ex)[:300]}
    fr.case((i, len(pkts)), ok, witness=w)
emit([comp, fr])
