"""Reference Malleable C2 codecs (RFC 4648 base64, NetBIOS nibbles, XOR mask, placement) written from the definitions;
shared by the bounded components of C04 and C07.  Nothing here imports or mirrors dissect.cobaltstrike code."""
# ------------------------------------------------------------------ reference codecs (RFC 4648, RFC 1001 nibbles, XOR mask)
STD = b"ABCDEFGHIJKLMNOPQRSTUVWXYZabcdefghijklmnopqrstuvwxyz0123456789+/"
URL = b"ABCDEFGHIJKLMNOPQRSTUVWXYZabcdefghijklmnopqrstuvwxyz0123456789-_"


def ref_b64e(d, alpha=STD):
    out = bytearray()
    for i in range(0, len(d), 3):
        chunk = d[i:i + 3]
        n = int.from_bytes(chunk + b"\x00" * (3 - len(chunk)), "big")
        q = [alpha[(n >> s) & 63] for s in (18, 12, 6, 0)]
        if len(chunk) == 1:
            q[2] = q[3] = 61
        elif len(chunk) == 2:
            q[3] = 61
        out += bytes(q)
    return bytes(out)


def ref_b64d(e, alpha=STD):
    vals = [alpha.index(bytes([c])) for c in e if c != 61]
    out, acc, bits = bytearray(), 0, 0
    for v in vals:
        acc, bits = (acc << 6) | v, bits + 6
        if bits >= 8:
            bits -= 8
            out.append((acc >> bits) & 255)
    return bytes(out)


def ref_nb(d, base):
    return bytes(x for c in d for x in ((c >> 4) + base, (c & 15) + base))


def ref_nbd(e, base):
    return bytes(((e[i] - base) << 4) | (e[i + 1] - base) for i in range(0, len(e), 2))


def ref_mask(d, key):
    return key + bytes(c ^ key[i % 4] for i, c in enumerate(d))


def ref_unmask(e):
    return bytes(c ^ e[i % 4] for i, c in enumerate(e[4:]))


def argbytes(v):
    return b"X" * v if isinstance(v, int) else v


def ref_transform(steps, members, base, masks):
    """left to right over the program; returns (uri, params, headers, body) - dictionaries in insertion order"""
    uri, params, headers, body = base
    params, headers = dict(params), dict(headers)
    data = b""
    masks = list(masks)
    for name, v in steps:
        k = name.lower()
        if k == "build":
            data = members.get(v) or b""
        elif k == "append":
            data = data + argbytes(v)
        elif k == "prepend":
            data = argbytes(v) + data
        elif k == "base64":
            data = ref_b64e(data)
        elif k == "base64url":
            data = ref_b64e(data, URL)
        elif k == "netbios":
            data = ref_nb(data, 0x61)
        elif k == "netbiosu":
            data = ref_nb(data, 0x41)
        elif k == "mask":
            data = ref_mask(data, masks.pop(0))
        elif k == "print":
            body = data
        elif k == "header":
            headers[v] = data
        elif k == "parameter":
            params[v] = data
        elif k == "uri_append":
            uri = uri + data
        elif k in ("_header", "_hostheader"):
            a, _, b = v.partition(b": ")
            headers[a] = b
        elif k == "_parameter":
            a, _, b = v.partition(b"=")
            params[a] = b
        else:
            raise AssertionError(k)
    return uri, params, headers, body


def ref_recover(steps, msg, base_uri=b""):
    """undo the program from its end; msg = (uri, params, headers, body)"""
    uri, params, headers, body = msg
    out = {}
    data = b""
    for name, v in reversed(steps):
        k = name.lower()
        if k == "print":
            data = body
        elif k == "header":
            data = headers[v]
        elif k == "parameter":
            data = params[v]
        elif k == "uri_append":
            data = uri[len(base_uri):]
        elif k == "append":
            n = len(argbytes(v))
            data = data[:len(data) - n]
        elif k == "prepend":
            data = data[len(argbytes(v)):]
        elif k == "base64":
            data = ref_b64d(data)
        elif k == "base64url":
            data = ref_b64d(data, URL)
        elif k == "netbios":
            data = ref_nbd(data, 0x61)
        elif k == "netbiosu":
            data = ref_nbd(data, 0x41)
        elif k == "mask":
            data = ref_unmask(data)
        elif k == "build":
            out[v] = data
    return out


