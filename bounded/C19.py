"""Bounded stand-in for C19 on the real HttpBeaconClient (the proof part - id normalisation and key derivation slices of
run() - is in contracts/client.py): requested ids, key stability, sleep band, metadata size, and exactly-once dispatch over
random handler registrations and task sequences driven through the real loop body."""
import os, sys, random as _random, logging, hashlib
sys.path.insert(0, os.path.dirname(os.path.abspath(__file__)))
from common import Component, emit, rng, TIER, time_limit, CaseTimeout, load_spec_module
cfggen = load_spec_module("cfggen")
logging.disable(logging.CRITICAL)
from dissect.cobaltstrike.beacon import BeaconConfig
from dissect.cobaltstrike import client as client_mod
from dissect.cobaltstrike.client import HttpBeaconClient
from dissect.cobaltstrike.c2 import encrypt_metadata, decrypt_metadata, TaskPacket, BeaconCommand

KEY = cfggen.test_keypair()
BLK, DESC = cfggen.config_block(_random.Random(5), jitter=37, sleeptime=60000)
BC = BeaconConfig(BLK)


_real_time = client_mod.time.time


def dry(**kw):
    cl = HttpBeaconClient()
    cl.run(BC, dry_run=True, silent=True, **kw)
    return cl


# ---------------------------------------------------------------- ids and keys
c_id = Component("beacon-id-and-keys", "requested ids: -5..5, around 2**31 and 2**32, 2**40+k, -2**33, 300 random 64-bit signed values "
                 "(3000 thorough), and None x 50: ValueError exactly when the normalised id exceeds 2**31-1, else even id in [0, 2**31) "
                 "equal to (id - id%2) mod 2**32; two set-ups with the same id (different names / generator state) give identical "
                 "aes_rand / aes_key / hmac_key and aes_key+hmac_key = SHA-256(aes_rand)")
ids = list(range(-5, 6)) + [2**31 - 2, 2**31 - 1, 2**31, 2**31 + 1, 2**32 - 1, 2**32, 2**32 + 1, 2**32 + 7, 2**40 + 3, -2**33, -2**31]
ids += [rng.randrange(-2**63, 2**63) for _ in range(300 if TIER == "quick" else 3000)]
for bid in ids:
    want = (bid - bid % 2) % 2**32
    try:
        _random.seed(rng.randrange(10**9))
        a = dry(beacon_id=bid, user="alice")
        _random.seed(rng.randrange(10**9))
        client_mod.time.time = lambda: 1.7e9 + rng.randrange(10**6)      # a later set-up, at a different time
        try:
            # the other arguments vary too: a given / generated pid, names, architecture, address - the keys follow the id only
            b = dry(beacon_id=bid, user="bob", computer="X", arch="x86", **rng.choice([{}, {"pid": 4242}, {"pid": 1, "process": "p.exe"},
                                                                                            {"internal_ip": "10.9.8.7"}]))
        finally:
            client_mod.time.time = _real_time
        ok = want <= 0x7FFFFFFF and a.beacon_id == want and a.beacon_id % 2 == 0 and 0 <= a.beacon_id < 2**31 \
            and (a.aes_rand, a.aes_key, a.hmac_key) == (b.aes_rand, b.aes_key, b.hmac_key) \
            and a.aes_key + a.hmac_key == hashlib.sha256(a.aes_rand).digest() and len(a.aes_rand) == 16 \
            and a.metadata.bid == a.beacon_id and a.c2http.aes_key == a.aes_key and a.c2http.hmac_key == a.hmac_key
        if ok and a.beacon_id != bid:
            # the keys belong to the id that is presented: asking for that id directly gives the same keys
            c_ = dry(beacon_id=a.beacon_id, user="carol", pid=rng.choice([None, 77]))
            ok = (c_.beacon_id, c_.aes_rand, c_.aes_key, c_.hmac_key) == (a.beacon_id, a.aes_rand, a.aes_key, a.hmac_key)
        got = a.beacon_id
    except ValueError as ex:
        ok, got = want > 0x7FFFFFFF, repr(ex)
    except Exception as ex:   # noqa
        ok, got = False, repr(ex)
    c_id.case(bid, ok, witness={"requested_id": bid, "expected": want if want <= 0x7FFFFFFF else "ValueError", "got": got})
for i in range(50):
    _random.seed(i)
    try:
        a = dry()
        ok = a.beacon_id % 2 == 0 and 0 <= a.beacon_id < 2**31
    except Exception as ex:   # noqa
        ok = False
    c_id.case(("none", i), ok, witness={"requested_id": None, "seed": i})

# ---------------------------------------------------------------- sleep band
c_sleep = Component("sleep-within-jitter-band", "jitter 0..100 x sleeptime {0, 1, 999, 60000, 2**31-1} x 20 draws (200 thorough): "
                    "sleeptime*(1 - jitter/100) <= get_sleep_time() <= sleeptime (tolerance 1e-6 relative)")
cl = dry(beacon_id=2)
for jitter in range(0, 101):
    for sl in (0, 1, 999, 60000, 2**31 - 1):
        cl.sleeptime, cl.jitter = sl, jitter
        ok = True
        for _ in range(20 if TIER == "quick" else 200):
            t = cl.get_sleep_time()
            if not (sl * (1 - jitter / 100) - 1e-6 * max(sl, 1) <= t <= sl + 1e-9):
                ok = False
                break
        c_sleep.case((jitter, sl), ok, witness={"sleeptime": sl, "jitter": jitter, "got": t})

# explicit overrides passed to run(): None means "take the configuration's value", every other value (0 included) is used as given
for jit in (None, 0, 1, 37, 50, 100):
    for sl in (None, 0, 1, 1000):
        a = dry(beacon_id=2, jitter=jit, sleeptime=sl)
        want_j, want_s = (DESC["jitter"] if jit is None else jit), (DESC["sleeptime"] if sl is None else sl)
        ok = a.jitter == want_j and a.sleeptime == want_s
        for _ in range(30):
            t = a.get_sleep_time()
            ok = ok and (want_s * (1 - want_j / 100) - 1e-6 * max(want_s, 1) <= t <= want_s + 1e-9)
        c_sleep.case(("override", jit, sl), ok, witness={"run_jitter": jit, "run_sleeptime": sl, "config_jitter": DESC["jitter"],
                                                         "config_sleeptime": DESC["sleeptime"], "client_jitter": a.jitter, "client_sleeptime": a.sleeptime})

# ---------------------------------------------------------------- metadata fits the RSA key
c_meta = Component("metadata-fits-rsa-key", "user / computer / process names of 0..80 characters drawn from ASCII, 2-, 3- and 4-byte UTF-8 "
                   "characters, tabs and NULs (400 quick / 5000 thorough): len(info) <= 51 bytes, encrypt_metadata with the 1024-bit "
                   "server key succeeds and decrypts to the same beacon id and info")
ALPH = ["a", "Z", "0", " ", ".", "\t", "\x00", "é", "ü", "ß", "Ж", "中", "日", "€", "😀", "𝔘"]


def name():
    return "".join(rng.choice(ALPH) for _ in range(rng.choice([0, 1, 5, 17, 25, 26, 51, 52, 80, rng.randrange(0, 81)])))


for i in range(400 if TIER == "quick" else 5000):
    u, c, p = name(), name(), name()
    try:
        a = dry(beacon_id=1000 + 2 * i, user=u or None, computer=c or None, process=p or None)
        info = bytes(a.metadata.info)
        ct = encrypt_metadata(a.metadata, public_key=a.c2http.pub)
        back = decrypt_metadata(ct, KEY)
        ok = len(info) <= 51 and back.bid == a.beacon_id and bytes(back.info) == info and len(a.metadata.dumps()) <= 128 - 11
        got = {"info_len": len(info)}
    except Exception as ex:   # noqa
        ok, got = False, {"error": repr(ex)}
    c_meta.case((u, c, p), ok, witness={"user": u, "computer": c, "process": p, **got})

# ---------------------------------------------------------------- exactly-once dispatch
c_disp = Component("exactly-once-dispatch", "random registrations (0-3 decorator handlers per command incl. None and catch-all -1 - plain functions and callable objects, a quarter of them falsy -, optional "
                   "on_<command> / on_empty_task / on_catch_all methods) followed by 1-25 tasks driven through the real _beacon_loop body "
                   "(get_task / time.sleep / send_callback stubbed): every task invokes exactly the handlers of its command once each, "
                   "the catch-all handlers only when there is none; get_handlers is stable under repetition and leaves task_map "
                   "unchanged; 1000 histories quick / 5000 thorough")
CMDS = [BeaconCommand.COMMAND_SLEEP, BeaconCommand.COMMAND_PWD, BeaconCommand.COMMAND_DIE, BeaconCommand.COMMAND_CD]


class StopLoop(BaseException):
    pass


class CallableLog(list):
    """a handler that is a callable OBJECT (here: a list subclass that is empty, hence falsy) - registered handlers are called
    whatever their truth value"""
    def __init__(self, tag, sink):
        super().__init__()
        self.tag, self.sink = tag, sink

    def __call__(self, task):
        self.sink.append(self.tag)


def mk_task(cmd):
    return TaskPacket(epoch=1700000000, total_size=8, command=cmd, size=0, data=b"")


_real_sleep = client_mod.time.sleep
for h in range(1000 if TIER == "quick" else 5000):
    calls = []
    cl = dry(beacon_id=2 * h)
    cl.silent = True
    expected_for = {}
    for cmd in CMDS + [None]:
        regs = []
        for k in range(rng.choice([0, 0, 1, 2, 3])):
            tag = ("dec", None if cmd is None else cmd.name, k)
            use_enum = rng.random() < 0.5 and cmd is not None
            fn = (lambda task, tag=tag: calls.append(tag)) if rng.random() < 0.75 else CallableLog(tag, calls)
            cl.handle(cmd if use_enum else (None if cmd is None else cmd.value))(fn)
            regs.append(tag)
        if rng.random() < 0.4:
            nm = "empty_task" if cmd is None else cmd.name.replace("COMMAND_", "").lower()
            tag = ("method", nm)
            setattr(cl, f"on_{nm}", lambda task, tag=tag: calls.append(tag))
            regs.append(tag)
        expected_for[cmd] = regs
    catch = []
    for k in range(rng.choice([0, 1, 2])):
        tag = ("catch", k)
        cl.catch_all()((lambda task, tag=tag: calls.append(tag)) if rng.random() < 0.75 else CallableLog(tag, calls))
        catch.append(tag)
    if rng.random() < 0.3:
        tag = ("method", "catch_all")
        cl.on_catch_all = lambda task, tag=tag: calls.append(tag)
        catch.append(tag)
    seq = [rng.choice(CMDS + [None]) for _ in range(rng.randrange(1, 26))]
    feed = iter(seq)
    per_task = []

    def get_task():
        if calls or per_task is not None:
            pass
        try:
            cmd = next(feed)
        except StopIteration:
            raise StopLoop()
        per_task.append((cmd, len(calls)))
        return None if cmd is None else mk_task(cmd)

    cl.get_task = get_task
    cl.send_callback = lambda *a, **k: None
    client_mod.time.sleep = lambda s: None
    snap = {k: list(v) for k, v in cl.task_map.items()}
    ok, why = True, None
    try:
        with time_limit(10):
            try:
                cl._beacon_loop()
            except StopLoop:
                pass
        bounds = [p for _, p in per_task] + [len(calls)]
        for (cmd, _), lo, hi in zip(per_task, bounds, bounds[1:]):
            got = calls[lo:hi]
            want = expected_for[cmd] or catch
            if got != want:
                ok, why = False, {"task": None if cmd is None else cmd.name, "invoked": got, "expected": want,
                                  "position": per_task.index((cmd, lo))}
                break
        if ok:
            for cmd in CMDS + [None]:
                cid = None if cmd is None else cmd.value
                n1, n2, n3 = len(cl.get_handlers(cid)), len(cl.get_handlers(cid)), len(cl.get_handlers(cid))
                if not (n1 == n2 == n3 == len(expected_for[cmd] or catch)):
                    ok, why = False, {"get_handlers_lengths": [n1, n2, n3], "command": cid}
            if {k: list(v) for k, v in cl.task_map.items()} != snap:
                ok, why = False, {"task_map_changed": True}
    except CaseTimeout:
        ok, why = False, "timeout"
    except Exception as ex:   # noqa
        ok, why = False, repr(ex)
    finally:
        client_mod.time.sleep = _real_sleep
    c_disp.case(h, ok, sample=[None if c is None else c.name for c in seq][:5],
                witness={"registrations": {str(k): v for k, v in expected_for.items()}, "catch_all": catch,
                         "tasks": [None if c is None else c.name for c in seq], "why": why})
emit([c_id, c_sleep, c_meta, c_disp])
