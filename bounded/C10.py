"""Bounded stand-in for C10: sentences generated from the grammar file itself (every production at least once, nesting depth
<= 8, random white space and comments) through the real parser and reconstructor: the regenerated text has the same token
sequence as the source and parses to an identical tree.  The finite grammar invariants (no alias shared by two different
expansions of one rule, ...) are ground obligations in pyvc/ground.py."""
import os, sys
sys.path.insert(0, os.path.dirname(os.path.abspath(__file__)))
from common import Component, emit, rng, TIER, time_limit, CaseTimeout
import profilegen
from dissect.cobaltstrike.c2profile import C2Profile, c2profile_parser

G = profilegen.Grammar(c2profile_parser, rng)
# `# dns_resolver "x";` cannot be written in a profile: the comment terminal wins (recorded as observation K4, by design)
SKIP = {k for k in G.all_rule_keys() if k[2] == "comment_dns_resolver"}
G.skip |= SKIP
G.used |= SKIP
comp = Component("generated-sentences-roundtrip",
                 "sentences derived from the compiled rule list of c2profile.lark, coverage-directed until every production has been "
                 "used, then random; depth <= 8; random white space / comments between tokens; 300 sentences quick / 5000 thorough; "
                 "checks: tokens(as_text(parse(src))) == tokens(src) and parse(as_text(parse(src))).tree == parse(src).tree")
c_cov = Component("every-production-used", "the set of grammar productions exercised by the generated batch equals the set of "
                  "productions of the grammar (except the comment_dns_resolver pseudo-statement)")
N = 300 if TIER == "quick" else 5000
n = 0
while n < N or (G.all_rule_keys() - G.used and n < N + 400):
    n += 1
    toks, lits = G.sentence(depth=rng.choice([2, 3, 4, 6, 8]))
    src = profilegen.render(toks, rng)
    if n % 7 == 3:
        # the whole profile indented (as when it is embedded in other text): the margin is layout between tokens but DATA inside a
        # literal that spans lines, so the expected tokens are those of the indented source
        margin = rng.choice(["    ", "\t", "  "])
        src = "\n".join(margin + ln for ln in src.split("\n"))
        toks = profilegen.tokenize(src)
    witness = {"source": src[:1500]}
    try:
        with time_limit(20):
            p = C2Profile.from_text(src)
            text = p.as_text()
            back = profilegen.tokenize(text)
            p2 = C2Profile.from_text(text)
            ok = back == toks and p2.tree == p.tree
            if ok and n % 5 == 0:
                # parse results are independent values: modifying one does not show in a later parse of the same source
                p.set_option("jitter", "37")
                p3 = C2Profile.from_text(src)
                ok = profilegen.tokenize(p3.as_text()) == toks and p3.tree == p2.tree
            if not ok:
                k = next((i for i, (a, b) in enumerate(zip(back, toks)) if a != b), min(len(back), len(toks)))
                witness.update(first_difference_at_token=k, source_tokens=toks[max(0, k - 3):k + 3], regenerated_tokens=back[max(0, k - 3):k + 3],
                               same_tree=p2.tree == p.tree)
    except CaseTimeout:
        ok = False
        witness["error"] = "timeout"
    except Exception as ex:   # noqa
        ok = False
        witness["error"] = repr(ex)[:400]
    comp.case(src, ok, sample=src[:80], witness=witness, nontrivial=len(toks) > 0)
missing = sorted(map(repr, G.all_rule_keys() - G.used))
c_cov.case("coverage", not missing, witness={"unused_productions": missing[:20]})
emit([comp, c_cov])
