#!/usr/bin/env python3
"""Record, from the grammar of the tree given (default /repo), under which keyword(s) every statement form of the profile
language is written: contracts/spec/malleable_keywords.json = [[rule, alias, [keyword, ...]], ...].  The recorded spelling is
the REFERENCE the ground obligation `ground:statements-keep-their-keywords` compares later trees with (recorded once from the
pinned tree and ASSUMED to be Cobalt Strike's spelling - the only independent evidence in the sandbox is that the sample
profile under tests/profiles parses with it); run again only when the language is deliberately extended."""
import json, os, sys
sys.path.insert(0, os.path.dirname(os.path.dirname(os.path.abspath(__file__))))
from pyvc import ground


class R:
    def __init__(self, root):
        self.root = root


rows = ground.keyword_table(R(sys.argv[1] if len(sys.argv) > 1 else "/repo"))
out = os.path.join(os.path.dirname(os.path.dirname(os.path.abspath(__file__))), "contracts", "spec", "malleable_keywords.json")
json.dump(rows, open(out, "w"), indent=0)
print(len(rows), "statement forms recorded in", out)
