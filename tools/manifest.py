#!/usr/bin/env python3
"""Regenerates MANIFEST.json from tools/claims.json (claimed checks) + properties.jsonl (everything else -> not_applicable)."""
import json, os
ROOT = os.path.dirname(os.path.dirname(os.path.abspath(__file__)))
props = [json.loads(l)["id"] for l in open(os.path.join(ROOT, "properties.jsonl"))]
claims = json.load(open(os.path.join(ROOT, "tools", "claims.json")))
checks, na = [], []
for p in props:
    c = claims.get(p)
    if c and c.get("claimed"):
        checks.append({
            "property_id": p, "quick_cmd": f"./check {p} --tier quick", "thorough_cmd": f"./check {p} --tier thorough",
            "evidence_file": f"evidence/{p}.json", "replay_cmd_template": f"./check {p} --replay {{path}}",
            "engine": "pyvc",
            "level_claimed": {"category": c["level"], "text": c["text"], "design_ref": c.get("design_ref", "DESIGN.md section 8")},
            "level_note": c["note"], "technique": c["technique"]})
    else:
        na.append({"property_id": p, "reason": (c or {}).get("reason", "check not built yet (work in progress, see DESIGN.md section 11)")})
m = {"version": 1, "setup_cmd": "./setup.sh",
     "hooks": {"guard": "DISSECT_COBALTSTRIKE_VERIF",
               "enable": "no source hooks: contracts are sidecar files under /verif/contracts; the verifier re-reads /repo sources on every run",
               "baseline_off_cmd": "cd /repo && /venv/bin/python -m pytest -ra -q -p no:cacheprovider --timeout=900 --continue-on-collection-errors",
               "source_commits": [], "add_only": True},
     "engines": [{"name": "pyvc", "path": "pyvc/", "serves_properties": [c["property_id"] for c in checks],
                  "kind_free_text": "home-built deductive verifier: real /repo source (ast) + sidecar contracts -> verification conditions -> z3 5.1 / z3 4.8 / cvc5; concrete contract runner for replay and bounded stand-ins"}],
     "checks": checks, "notes": "see DESIGN.md; known findings in known_findings.json; baseline ledger in ledger.json",
     "not_applicable": na}
json.dump(m, open(os.path.join(ROOT, "MANIFEST.json"), "w"), indent=1)
print(len(checks), "claimed;", len(na), "not claimed")
