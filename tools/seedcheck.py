#!/usr/bin/env python3
"""Run the checks against the independently seeded changes kept under /verif/seeded/<name>/ (patch.diff, demo.py,
meta.json): each patch is applied to a scratch copy of /repo's working tree (outside /repo and /verif, removed
afterwards), the demonstration is run on the original and on the patched tree, then `./check <property> --repo <copy>`.

usage: tools/seedcheck.py [NAME ...] [--also PROP,PROP]     prints one line per seeded change; exit 0 iff all are detected"""
import json, os, shutil, subprocess, sys, tempfile

ROOT = os.path.dirname(os.path.dirname(os.path.abspath(__file__)))
SEEDED = os.path.join(ROOT, "seeded")


def run(name, extra_props=()):
    d = os.path.join(SEEDED, name)
    meta = json.load(open(os.path.join(d, "meta.json")))
    tmp = tempfile.mkdtemp(prefix="pyvc_seed_")
    try:
        shutil.copytree("/repo/dissect", os.path.join(tmp, "dissect"), ignore=shutil.ignore_patterns("__pycache__"))
        p = subprocess.run(["patch", "-p1", "-s", "-d", tmp, "-i", os.path.join(d, "patch.diff")], capture_output=True, text=True)
        if p.returncode != 0:
            return {"name": name, "status": "STALE", "detail": (p.stdout + p.stderr)[-300:]}
        demo = os.path.join(d, "demo.py")
        env0 = dict(os.environ, PYTHONPATH="/repo")
        env1 = dict(os.environ, PYTHONPATH=tmp)
        r0 = subprocess.run(["/venv/bin/python", demo], capture_output=True, text=True, env=env0, timeout=600).returncode if os.path.exists(demo) else None
        r1 = subprocess.run(["/venv/bin/python", demo], capture_output=True, text=True, env=env1, timeout=600).returncode if os.path.exists(demo) else None
        res = {"name": name, "property": meta["property"], "demo_on_original": r0, "demo_on_patched": r1, "checks": {}}
        for prop in [meta["property"]] + list(extra_props):
            r = subprocess.run([os.path.join(ROOT, "check"), prop, "--repo", tmp, "--no-evidence"], capture_output=True, text=True)
            lines = [l for l in r.stdout.splitlines() if l.startswith(("VIOLATION", "UNDECIDED", "CRASH"))]
            res["checks"][prop] = {"rc": r.returncode, "first": lines[0][:200] if lines else ""}
        return res
    finally:
        shutil.rmtree(tmp, ignore_errors=True)


def main():
    args = [a for a in sys.argv[1:] if not a.startswith("--")]
    also = []
    for a in sys.argv[1:]:
        if a.startswith("--also"):
            also = sys.argv[sys.argv.index(a) + 1].split(",")
    names = args or sorted(n for n in os.listdir(SEEDED) if os.path.isdir(os.path.join(SEEDED, n)))
    names = [n for n in names if n not in also]
    bad = 0
    out = []
    for n in names:
        r = run(n, also)
        out.append(r)
        if r.get("status") == "STALE":
            print(f"STALE {n}: {r['detail']}")
            bad += 1
            continue
        main_rc = r["checks"][r["property"]]["rc"]
        ok = main_rc == 1
        print(f"{'caught' if ok else 'MISSED'} {n:<28} property={r['property']} demo(orig/patched)={r['demo_on_original']}/{r['demo_on_patched']} " +
              " ".join(f"{p}:rc={c['rc']}" for p, c in r["checks"].items()) + "  " + r["checks"][r["property"]]["first"][:110])
        bad += 0 if ok else 1
    json.dump(out, open(os.path.join(SEEDED, "last_run.json"), "w"), indent=1)
    sys.exit(1 if bad else 0)


main()
