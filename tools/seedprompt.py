#!/usr/bin/env python3
"""Write the prompts for one round of independently seeded changes (one per property) to <outdir>/prompt_<ID>.txt.
A prompt contains the property statement, the round's angle and one-line summaries of the earlier attempts kept under
seeded/ (so that a new attempt differs) - and NOTHING about the machinery; the testers are told not to read /verif.

usage: tools/seedprompt.py <round-number> <outdir> [--angle "text"]"""
import glob, json, os, sys

ROOT = os.path.dirname(os.path.dirname(os.path.abspath(__file__)))
ANGLES = {
    "symmetric": "a CONSISTENT change on both sides of a pair, so that the library still agrees with itself (its own round trips, "
                 "its own tests) while the absolute behaviour the property states is no longer met: encoder and decoder, writer and "
                 "parser, generator and consumer, client and server side, cache writer and cache reader changed together (a swapped "
                 "nibble or byte order on both sides, another padding byte or alphabet on both sides, a size field computed "
                 "differently on both sides, a key-derivation or IV tweak on both sides, an escape spelled differently by printer "
                 "and parser, an enum / opcode table edit that both directions share). If the property has no such pair, change a "
                 "shared definition (table, constant, helper) that every internal user goes through.",
    "substitute": "a refactoring that replaces a standard-library or language construct by a NEAR-equivalent one whose behaviour "
                  "differs only in a corner: split / partition / rsplit with or without maxsplit, find / index, strip / rstrip / "
                  "removesuffix, slicing vs. indexing, `or` default vs. `is None` test, // vs. / or >> on negatives, int() with and "
                  "without base, encode / decode with another codec or errors= mode, sorted() vs. insertion order, dict vs. list of "
                  "pairs (duplicate keys), startswith vs. `in`, == vs. `is`, range end +-1 hidden in a rewritten loop, read(n) vs. "
                  "read() then slice, a comprehension replacing a loop with break, any()/all() replacing a loop with early return. "
                  "Also welcome: the NEGATIVE clauses of the property (what must be rejected, omitted, or never reported).",
    "edge": "the change must bite only at the EDGE of the property's quantifier - inputs that are valid and inside the property's "
            "domain but rare: extreme or boundary sizes and values (empty, one element, maximum field widths, exact multiples of a "
            "block / buffer size), unusual-but-legal argument types or combinations (bytearray or memoryview instead of bytes, a "
            "non-default keyword, a file object that is not at position 0, keys/ids with high bits, non-ASCII bytes), rarely used "
            "options of a format, or the LAST / FIRST element of a sequence. Typical inputs must still behave correctly.",
    "indirect": "the change must affect the property INDIRECTLY: a shared helper, a C structure / enum definition, a table or "
                "constant, a default argument, the grammar file, an early return or exception handler, an 'optimisation'.",
    "history": "the change must show only under repeated or stateful use of the API (second call on the same object, a cache, "
               "an in-place mutation, an order of operations); a single fresh call must still be correct.",
}


def main():
    rnd, out = sys.argv[1], sys.argv[2]
    angle = ANGLES["edge"]
    if "--angle" in sys.argv:
        a = sys.argv[sys.argv.index("--angle") + 1]
        angle = ANGLES.get(a, a)
    os.makedirs(out, exist_ok=True)
    for line in open(os.path.join(ROOT, "properties.jsonl")):
        d = json.loads(line)
        pid = d["id"]
        prev = []
        for m in sorted(glob.glob(os.path.join(ROOT, "seeded", f"{pid}-agent*", "meta.json"))):
            try:
                prev.append(json.load(open(m)).get("summary", ""))
            except Exception:       # noqa
                pass
        wt = f"{out}/{pid}"
        od = f"{out}/out_{pid}"
        os.makedirs(od, exist_ok=True)
        txt = f"""You are an independent tester. A verification team claims their machinery detects every realistic regression of one stated behavioural property of the Python library fox-it/dissect.cobaltstrike. Your job: seed ONE realistic regression that breaks the property while the repository's whole test suite still passes. You know nothing about their machinery and must not look for it: do not read anything under /verif, and do not read /root/.vp.

THE PROPERTY ({pid}):
{d['statement']}

Setup (do exactly this):
1. Create your own scratch git worktree:  git -C /repo worktree add --detach {wt} HEAD   (work only inside {wt}; never modify /repo itself).
2. Read the relevant code there (package dissect/cobaltstrike/, tests under tests/).
3. Make ONE small source change (a few lines, in dissect/cobaltstrike/ only; tests unedited) that a maintainer could plausibly make by accident or as a well-meant improvement, and that makes the property false for SOME inputs / usage. This round's angle: {angle}
   It must be DIFFERENT in mechanism and place from these earlier attempts by other testers (already known, do not repeat or vary them):
{chr(10).join('   - ' + p for p in prev)}
4. Run the full test suite in your worktree and make sure it still passes:  cd {wt} && /venv/bin/python -m pytest -q -x tests 2>&1 | tail -3   (all tests must pass; if not, choose another change).
5. Write a demonstration script {od}/demo.py that imports the library from PYTHONPATH (do NOT hardcode a path; it will be run as  PYTHONPATH=<tree> /venv/bin/python demo.py ), exercises the property on concrete inputs through the public API, and exits 1 if the property is violated and 0 if it holds. Verify: exit 1 with PYTHONPATH={wt}, exit 0 with PYTHONPATH=/repo (use PYTHONDONTWRITEBYTECODE=1 so nothing is written into /repo).
6. Write {od}/patch.diff  (cd {wt} && git diff > {od}/patch.diff ; it must apply with patch -p1 to a copy of /repo) and {od}/meta.json with keys: property ("{pid}"), summary (one or two sentences: what was changed), files (list), trigger (which inputs / usage show the violation), tests_pass (true).
7. Do not commit anything. Leave the worktree in place. Report briefly what you changed and how it manifests.
"""
        open(os.path.join(out, f"prompt_{pid}.txt"), "w").write(txt)
    print("prompts written to", out, "(round", rnd + ")")


main()
