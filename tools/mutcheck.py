#!/usr/bin/env python3
"""Seeded-mutant self-test (DESIGN.md 6.6): apply each deliberate change to a scratch copy of /repo
(outside /repo and /verif, removed afterwards) and run the property's check against it.

usage: tools/mutcheck.py [PROP ...] [--list]      exit 0 iff every `red` mutant is detected (exit 1 of the
check with a VIOLATION line) and every `green` (semantically neutral) edit stays exit 0."""
import json, os, shutil, subprocess, sys, tempfile

ROOT = os.path.dirname(os.path.dirname(os.path.abspath(__file__)))
MUTS = json.load(open(os.path.join(ROOT, "tools", "mutants.json")))


def run(m):
    d = tempfile.mkdtemp(prefix="pyvc_mut_")
    try:
        shutil.copytree("/repo/dissect", os.path.join(d, "dissect"), ignore=shutil.ignore_patterns("__pycache__"))
        p = os.path.join(d, "dissect", "cobaltstrike", m["file"])
        s = open(p).read()
        if s.count(m["old"]) < 1:
            return "STALE", ""
        open(p, "w").write(s.replace(m["old"], m["new"], 1))
        r = subprocess.run([os.path.join(ROOT, "check"), m["prop"], "--repo", d, "--no-evidence"], capture_output=True, text=True)
        return r.returncode, r.stdout[-400:]
    finally:
        shutil.rmtree(d, ignore_errors=True)


def main():
    props = [a for a in sys.argv[1:] if not a.startswith("-")]
    bad = 0
    for m in MUTS:
        if props and m["prop"] not in props:
            continue
        rc, out = run(m)
        want = m.get("expect", "red")
        ok = (want == "red" and rc == 1 and "VIOLATION" in out) or (want == "green" and rc == 0) or \
             (want == "undecided-ok" and rc in (1, 2))
        print(f"{'ok  ' if ok else 'MISS'} {m['prop']} {m['id']:<34} expect={want} rc={rc}  " +
              (out.strip().splitlines()[-1][:150] if out.strip() else ""))
        bad += 0 if ok else 1
    sys.exit(1 if bad else 0)


main()
