import z3, time
I = z3.IntSort(); B = z3.BoolSort()
Q = z3.DeclareSort('Sq')
ln = z3.Function('len', Q, I); at = z3.Function('at', Q, I, I)
empty = z3.Const('empty', Q); unit = z3.Function('unit', I, Q)
cat = z3.Function('cat', Q, Q, Q); sl = z3.Function('sl', Q, I, I, Q)
eq = z3.Function('eq', Q, Q, B)
s,t = z3.Consts('s t', Q); i,j,a,b,x = z3.Ints('i j a b x')
FA = z3.ForAll
PRELUDE = [
 FA([s], ln(s)>=0, patterns=[ln(s)]),
 ln(empty)==0,
 FA([x], z3.And(ln(unit(x))==1, at(unit(x),0)==x), patterns=[unit(x)]),
 FA([s,t], ln(cat(s,t))==ln(s)+ln(t), patterns=[cat(s,t)]),
 FA([s,t,i], at(cat(s,t),i)==z3.If(i<ln(s), at(s,i), at(t,i-ln(s))), patterns=[at(cat(s,t),i)]),
 FA([s,a,b], z3.Implies(z3.And(0<=a,a<=b,b<=ln(s)), ln(sl(s,a,b))==b-a), patterns=[sl(s,a,b)]),
 FA([s,a,b,i], z3.Implies(z3.And(0<=a,a<=b,b<=ln(s),0<=i,i<b-a), at(sl(s,a,b),i)==at(s,a+i)), patterns=[at(sl(s,a,b),i)]),
 FA([s,t], eq(s,t)==z3.And(ln(s)==ln(t), FA([i], z3.Implies(z3.And(0<=i,i<ln(s)), at(s,i)==at(t,i)), patterns=[at(s,i)],)), patterns=[eq(s,t)]),
 FA([s,t], z3.Implies(eq(s,t), s==t), patterns=[eq(s,t)]),
]
def check(name, hyps, goal, timeout=20000, show=False):
    sv = z3.Solver(); sv.set("timeout", timeout); sv.set("auto_config", False); sv.set("smt.mbqi", False)
    for h in PRELUDE: sv.add(h)
    for h in hyps: sv.add(h)
    sv.add(z3.Not(goal))
    t0=time.time(); r = sv.check(); print(f"{name}: {r} {time.time()-t0:.2f}s", flush=True)
    if show and r==z3.sat: print(sv.model())
    return r
