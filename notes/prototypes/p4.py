from prelude import *
# occ predicate + find axiom
occ = z3.Function('occ', Q, Q, I, B)
H,N = z3.Consts('H N', Q); o, st = z3.Ints('o st')
OCC = FA([H,N,o], occ(H,N,o)==z3.And(o>=0, o+ln(N)<=ln(H), FA([j], z3.Implies(z3.And(0<=j,j<ln(N)), at(H,o+j)==at(N,j)), patterns=[at(N,j)])), patterns=[occ(H,N,o)])
find = z3.Function('find', Q, Q, I, I)
FIND = FA([H,N,st], z3.Implies(z3.And(st>=0, ln(N)>=1),
   z3.Or(z3.And(find(H,N,st)==-1, FA([o], z3.Implies(o>=st, z3.Not(occ(H,N,o))), patterns=[occ(H,N,o)])),
         z3.And(find(H,N,st)>=st, occ(H,N,find(H,N,st)), FA([o], z3.Implies(z3.And(o>=st,o<find(H,N,st)), z3.Not(occ(H,N,o))), patterns=[occ(H,N,o)])))), patterns=[find(H,N,st)])
F, Nn, d = z3.Consts('F Nn d', Q); base, xx = z3.Ints('base xx')
# transfer lemma
hy = [OCC, 0<=base, base+ln(d)<=ln(F), d==sl(F,base,base+ln(d)), xx>=0, xx+ln(Nn)<=ln(d)]
check("occ transfer =>", hy+[occ(d,Nn,xx)], occ(F,Nn,base+xx))
check("occ transfer <=", hy+[occ(F,Nn,base+xx)], occ(d,Nn,xx))
# dsaved: d = cat(saved, block); saved = sl(F, q-|saved|, q); block = sl(F,q,q+|block|)  => d == sl(F, q-|saved|, q+|block|)
saved, block = z3.Consts('saved block', Q); q = z3.Int('q')
hy2 = [0<=q-ln(saved), q+ln(block)<=ln(F), saved==sl(F,q-ln(saved),q), block==sl(F,q,q+ln(block))]
check("d is slice", hy2, eq(cat(saved,block), sl(F,q-ln(saved),q+ln(block))))
