"""Spike: AST of the REAL utils.netbios_encode -> VCs over the custom Sq prelude, sidecar invariants as Python expressions."""
import ast, sys, time, z3
from prelude import *   # Q, ln, at, empty, unit, cat, sl, eq, PRELUDE, check, FA
src = open('/repo/dissect/cobaltstrike/utils.py').read()
mod = ast.parse(src)
fn = next(n for n in mod.body if isinstance(n, ast.FunctionDef) and n.name == 'netbios_encode')

class Bytes:  # python-level wrapper of a symbolic byte/list sequence
    def __init__(self, t): self.t = t
def isbytes(sq):
    i = z3.Int('i!b'); return FA([i], z3.Implies(z3.And(0<=i, i<ln(sq)), z3.And(at(sq,i)>=0, at(sq,i)<256)), patterns=[at(sq,i)])

class Exec:
    def __init__(self): self.obl = []; self.hyp = []
    def expr(self, e, env):
        if isinstance(e, ast.Constant): return z3.IntVal(e.value) if isinstance(e.value,int) else e.value
        if isinstance(e, ast.Name): return env[e.id]
        if isinstance(e, ast.BinOp):
            l, r = self.expr(e.left, env), self.expr(e.right, env)
            if isinstance(e.op, ast.Add): return l + r
            if isinstance(e.op, ast.Sub): return l - r
            if isinstance(e.op, ast.Mult): return l * r
            if isinstance(e.op, ast.BitAnd):
                m = e.right.value  # constant mask
                lo = (m & -m).bit_length()-1; hi = m.bit_length()
                assert m == (1<<hi)-(1<<lo), "contiguous mask only"
                return (l % (1<<hi)) - (l % (1<<lo))
            if isinstance(e.op, ast.RShift): return l / (1 << e.right.value)
            if isinstance(e.op, ast.Mod): return l % r
        if isinstance(e, ast.Compare) and len(e.ops)==1:
            l, r = self.expr(e.left, env), self.expr(e.comparators[0], env)
            op = e.ops[0]
            if isinstance(l, Bytes) and isinstance(op, ast.Eq): return eq(l.t, r.t)
            return {ast.Eq: lambda: l==r, ast.Lt: lambda: l<r, ast.LtE: lambda: l<=r, ast.GtE: lambda: l>=r, ast.Gt: lambda: l>r}[type(op)]()
        if isinstance(e, ast.BoolOp):
            vs = [self.expr(v, env) for v in e.values]; return z3.And(*vs) if isinstance(e.op, ast.And) else z3.Or(*vs)
        if isinstance(e, ast.Subscript):
            return at(self.expr(e.value, env).t, self.expr(e.slice, env))
        if isinstance(e, ast.Call) and isinstance(e.func, ast.Name):
            f = e.func.id
            if f == 'len': return ln(self.expr(e.args[0], env).t)
            if f == 'bytearray': return self.expr(e.args[0], env)
            if f == 'forall':   # forall(j, lo, hi, body)
                v = z3.Int(e.args[0].id + '!q'); env2 = dict(env); env2[e.args[0].id] = v
                lo, hi = self.expr(e.args[1], env2), self.expr(e.args[2], env2); body = self.expr(e.args[3], env2)
                return FA([v], z3.Implies(z3.And(lo<=v, v<hi), body))
            if f == 'bytes':   # bytes(list): obligation all in range, result same sequence
                b = self.expr(e.args[0], env); self.obl.append(('bytes() range', list(self.hyp), isbytes(b.t))); return b
        raise NotImplementedError(ast.dump(e))
    def stmts(self, body, env, contract):
        for s in body:
            if isinstance(s, ast.Expr) and isinstance(s.value, ast.Constant): continue  # docstring dropped
            if isinstance(s, ast.Assign):
                tgt = s.targets[0].id
                if isinstance(s.value, ast.List) and not s.value.elts: env[tgt] = Bytes(empty)
                else: env[tgt] = self.expr(s.value, env)
            elif isinstance(s, ast.Expr) and isinstance(s.value, ast.Call) and isinstance(s.value.func, ast.Attribute) and s.value.func.attr == 'append':
                lst = s.value.func.value.id; env[lst] = Bytes(cat(env[lst].t, unit(self.expr(s.value.args[0], env))))
            elif isinstance(s, ast.For):
                seq = self.expr(s.iter, env); k = z3.Int('k!0')
                inv_src = contract['loops'][0]
                def inv(envx, kx): e2 = dict(envx); e2['k'] = kx; return z3.And(*[self.expr(ast.parse(t, mode='eval').body, e2) for t in inv_src])
                self.obl.append(('inv-entry', list(self.hyp), inv(env, z3.IntVal(0))))
                # havoc modified vars
                env_h = dict(env)
                for name in ('barray',): env_h[name] = Bytes(z3.Const(name+'!h', Q))
                hyp0 = list(self.hyp); self.hyp += [inv(env_h, k), k >= 0, k < ln(seq.t)]
                env_b = dict(env_h); env_b[s.target.id] = at(seq.t, k)
                self.stmts(s.body, env_b, contract)
                self.obl.append(('inv-pres', list(self.hyp), inv(env_b, k+1)))
                self.hyp = hyp0 + [inv(env_h, ln(seq.t))]; env.update({n: env_h[n] for n in ('barray',)})
            elif isinstance(s, ast.Return):
                env['result'] = self.expr(s.value, env)
                for t in contract['ensures']:
                    self.obl.append(('post', list(self.hyp), self.expr(ast.parse(t, mode='eval').body, env)))
            else: raise NotImplementedError(ast.dump(s))

# sidecar contract (Python expressions over real locals + engine names k/result + spec function)
nb = z3.Function('spec_nb_enc_at', Q, I, I, I)   # spec: element i of encoding
contract = dict(
  loops={0: ["len(barray) == 2*k", "forall(i, 0, len(barray), barray[i] >= 0 and barray[i] < 256)", "forall(j, 0, k, barray[2*j] == ((data[j] % 256) - (data[j] % 16)) / 16 + offset and barray[2*j+1] == data[j] % 16 + offset)"]},
  ensures=["len(result) == 2*len(data)", "forall(j, 0, len(data), result[2*j] == data[j] / 16 + offset and result[2*j+1] == data[j] % 16 + offset)"])
ex = Exec(); data = z3.Const('data', Q); off = z3.Int('offset')
ex.hyp = [isbytes(data), off >= 0, off <= 240]
# allow '/' in contract exprs
_old = Exec.expr
def expr2(self, e, env):
    if isinstance(e, ast.BinOp) and isinstance(e.op, (ast.Div, ast.FloorDiv)): return self.expr(e.left, env) / self.expr(e.right, env)
    return _old(self, e, env)
Exec.expr = expr2
ex.stmts(fn.body, {'data': Bytes(data), 'offset': off}, contract)
print(len(ex.obl), 'obligations from the real AST of', fn.name)
for name, hyps, goal in ex.obl: check(name, hyps, goal)
