# Prototype: XorEncodedFile.read loop invariant (fixed code), custom Sq prelude.
from prelude import *
def xor8(a,b): return z3.BV2Int(z3.Int2BV(a,8) ^ z3.Int2BV(b,8))
by = lambda x: z3.And(x>=0,x<256)
E, data, nonce, chunk = z3.Consts('E data nonce chunk', Q)
off, r0, r, k = z3.Ints('off r0 r k')
isb = lambda sq: FA([i], z3.Implies(z3.And(0<=i,i<ln(sq)), by(at(sq,i))), patterns=[at(sq,i)])
# key(i) for raw index i >= off+8
def key(idx): return z3.If(idx-(off+8) < 4, at(E, idx-8), at(E, idx-4))
# spec plain at raw index i: E[i] ^ key(i)
def plain(idx): return xor8(at(E,idx), key(idx))
# xor contract result: out = xor(chunk, nonce): len same; out[i] = chunk[i]^nonce[i % len(nonce)]
out = z3.Const('out', Q)
xorpost = z3.And(ln(out)==ln(chunk), FA([i], z3.Implies(z3.And(0<=i,i<ln(chunk)), at(out,i)==xor8(at(chunk,i), at(nonce, i % ln(nonce)))), patterns=[at(out,i)]))
# invariant: off>=0, r0>=off+8, r0<=r<=len(E) ; data == [plain(r0..r)], nonce has len 4 and nonce[k]=key(r+k)   (when r+? in range) ; 
def inv(data, nonce, r):
    return z3.And(r0<=r, r<=ln(E), ln(data)==r-r0,
                  FA([i], z3.Implies(z3.And(0<=i,i<r-r0), at(data,i)==plain(r0+i)), patterns=[at(data,i)]),
                  ln(nonce)==4,
                  FA([k], z3.Implies(z3.And(0<=k,k<4, r+k<ln(E)), at(nonce,k)==key(r+k)), patterns=[at(nonce,k)]))
# step: chunk = fh.read(4) = sl(E, r, min(r+4,len E)), nonempty ; data' = cat(data,out); nonce' = chunk ; r' = r+len(chunk)
r2 = r+ln(chunk)
hy = [off>=0, r0>=off+8, isb(E), inv(data,nonce,r), ln(chunk)>0, chunk==sl(E,r,z3.If(r+4<=ln(E), r+4, ln(E))), xorpost]
# goal 1: data part
d2 = cat(data,out)
g1 = z3.And(ln(d2)==r2-r0, z3.Implies(z3.And(0<=k,k<r2-r0), at(d2,k)==plain(r0+k)))
check("read loop: data preservation", hy, g1)
# goal 2: nonce part only matters if full chunk (len 4) since else EOF next
g2 = z3.Implies(z3.And(ln(chunk)==4, 0<=k, k<4, r2+k<ln(E)), at(chunk,k)==key(r2+k))
check("read loop: nonce preservation", hy, g2)
check("canary", hy, z3.BoolVal(False), timeout=3000)
