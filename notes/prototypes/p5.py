from prelude import *
occ = z3.Function('occ', Q, Q, I, B)
H,N = z3.Consts('H N', Q); o, st = z3.Ints('o st')
OCC = FA([H,N,o], occ(H,N,o)==z3.And(o>=0, o+ln(N)<=ln(H), FA([j], z3.Implies(z3.And(0<=j,j<ln(N)), at(H,o+j)==at(N,j)), patterns=[at(N,j)])), patterns=[occ(H,N,o)])
find = z3.Function('find', Q, Q, I, I)
FIND = FA([H,N,st], z3.Implies(z3.And(st>=0, ln(N)>=1),
   z3.Or(z3.And(find(H,N,st)==-1, FA([o], z3.Implies(o>=st, z3.Not(occ(H,N,o))), patterns=[occ(H,N,o)])),
         z3.And(find(H,N,st)>=st, occ(H,N,find(H,N,st)), FA([o], z3.Implies(z3.And(o>=st,o<find(H,N,st)), z3.Not(occ(H,N,o))), patterns=[occ(H,N,o)])))), patterns=[find(H,N,st)])
allocc = z3.Function('allocc', Q, Q, I, I, Q)
def unfold(Fq,Nq,lo,hi):
    return allocc(Fq,Nq,lo,hi) == z3.If(lo>=hi, empty, cat(z3.If(occ(Fq,Nq,lo), unit(lo), empty), allocc(Fq,Nq,lo+1,hi)))
F, Nn, d, Y = z3.Consts('F Nn d Y', Q); base, p, s0 = z3.Ints('base p s0')
n = ln(Nn)
# Lemmas as assumed (proved separately by induction):  split and empty, instantiated at the needed points (ghost lemma calls)
def lemma_split(lo,mid,hi): return z3.Implies(z3.And(lo<=mid,mid<=hi), eq(allocc(F,Nn,lo,hi), cat(allocc(F,Nn,lo,mid), allocc(F,Nn,mid,hi))))
def lemma_empty(lo,hi): return z3.Implies(FA([o], z3.Implies(z3.And(lo<=o,o<hi), z3.Not(occ(F,Nn,o))), patterns=[occ(F,Nn,o)]), allocc(F,Nn,lo,hi)==empty)
# transfer lemma (quantified, trigger occ(F,Nn,o))
transfer = FA([o], z3.Implies(z3.And(base<=o, o-base+n<=ln(d)), occ(F,Nn,o)==occ(d,Nn,o-base)), patterns=[occ(F,Nn,o)])
ctx = [OCC, FIND, n>=1, 0<=s0, s0<=base, base+ln(d)<=ln(F), transfer]
inv = lambda Yv,pv: z3.And(pv>=-1, z3.Implies(pv>=0, pv+n<=ln(d)), Yv==allocc(F,Nn,s0,base+pv+1))
p2 = find(d,Nn,p+1)
Y2 = cat(Y, unit(base+p2))
hints = [lemma_split(s0, base+p+1, base+p2+1), lemma_split(base+p+1, base+p2, base+p2+1), lemma_empty(base+p+1, base+p2),
         unfold(F,Nn,base+p2,base+p2+1), unfold(F,Nn,base+p2+1,base+p2+1)]
check("inner loop preservation (found)", ctx+[inv(Y,p), p2!=-1]+hints, z3.And(p2>=-1, p2+n<=ln(d), eq(Y2, allocc(F,Nn,s0,base+p2+1))))
# exit: p2 == -1 -> Y == allocc(s0, base+|d|-n+1)   (all complete occurrences in d region), when |d|>=n... general: hiF = base + max(p+1, ln(d)-n+1)
hi = base+ln(d)-n+1
hints2 = [lemma_split(s0, base+p+1, hi), lemma_empty(base+p+1, hi)]
check("inner loop exit (|d|>=n)", ctx+[inv(Y,p), p2==-1, ln(d)>=n, base+p+1<=hi]+hints2, eq(Y, allocc(F,Nn,s0,hi)))
print("vacuity canary (must NOT be unsat):")
check("canary false", ctx+[inv(Y,p), p2!=-1]+hints, z3.BoolVal(False), timeout=5000)
# a broken variant: offset computed as base+p2+1 must fail
Y3 = cat(Y, unit(base+p2+1))
check("mutant (offset+1) must not verify", ctx+[inv(Y,p), p2!=-1]+hints, eq(Y3, allocc(F,Nn,s0,base+p2+1)), timeout=5000)
