# Prototype: heap/frame VC for HttpDataTransform.__init__ (alias mutation) and encoder/decoder chain lemma with fuel-1 unfolding
from prelude import *
# --- heap of lists: Ref -> Sq (elements Int stand for boxed steps)
Ref = z3.DeclareSort('Ref')
HeapS = z3.ArraySort(Ref, Q)
h0 = z3.Const('h0', HeapS); steps, fresh = z3.Consts('steps fresh', Ref)
insert0 = lambda sq, v: cat(unit(v), sq)
append = lambda sq, v: cat(sq, unit(v))
rev = z3.Function('rev', Q, Q)
REV = [FA([s], ln(rev(s))==ln(s), patterns=[rev(s)]), FA([s,i], z3.Implies(z3.And(0<=i,i<ln(s)), at(rev(s),i)==at(s,ln(s)-1-i)), patterns=[at(rev(s),i)])]
reverse = z3.Bool('reverse'); build_is_none = z3.Bool('build_is_none'); bstep = z3.Int('bstep')
# original code: tsteps=steps (alias); rsteps = fresh ref holding rev(h0[steps]); if reverse swap; if build: heap[tsteps].insert(0,b); heap[rsteps].append(b)
h1 = z3.Store(h0, fresh, rev(h0[steps]))
t_ref = z3.If(reverse, fresh, steps); r_ref = z3.If(reverse, steps, fresh)
h2 = z3.Store(h1, t_ref, insert0(h1[t_ref], bstep))
h3 = z3.Store(h2, r_ref, append(h2[r_ref], bstep))
hfinal = z3.If(build_is_none, h1, h3)
check("frame (original code): caller list unchanged  [EXPECT NOT PROVED]", REV+[fresh!=steps], hfinal[steps]==h0[steps], timeout=5000, show=True)
# fixed code: steps copied first: c = fresh2 with h0[steps]
fresh2 = z3.Const('fresh2', Ref)
g1 = z3.Store(h0, fresh2, h0[steps]); g2 = z3.Store(g1, fresh, rev(g1[fresh2]))
t2 = z3.If(reverse, fresh, fresh2); r2 = z3.If(reverse, fresh2, fresh)
g3 = z3.Store(g2, t2, insert0(g2[t2], bstep)); g4 = z3.Store(g3, r2, append(g3[r2], bstep))
gfinal = z3.If(build_is_none, g2, g4)
check("frame (fixed code): caller list unchanged", REV+[z3.Distinct(fresh,fresh2,steps)], gfinal[steps]==h0[steps])
# post: rsteps == rev(tsteps) when build is None
check("post rsteps==rev(tsteps), no build, no reverse", REV+[z3.Distinct(fresh,fresh2,steps), build_is_none, z3.Not(reverse)], eq(gfinal[r2], rev(gfinal[t2])))
