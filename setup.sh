#!/bin/sh
# Verifies the tool chain only; nothing is built or fetched.
set -e
python3-vt -c "import z3, cvc5; print('z3', z3.get_version_string())"
/venv/bin/python -c "import dissect.cobaltstrike, hypothesis; print('repo importable')"
/usr/bin/z3 --version
/usr/bin/cvc5 --version | head -1
