from pyvc.lang import *


@contract("dissect.cobaltstrike.c2:HttpDataTransform.__init__", props=["C04", "C14", "C07"])
def _(self: "newobj:HttpDataTransform", steps: "mlist[tuple[str,any]]", reverse: "lit:False|True", build: "opt[str]"):
    """tsteps is the program in transform order, rsteps the same program reversed; `reverse` means the given list
    is in recovery order; `build` adds the implicit BUILD step (first to transform, last to recover).
    The caller's list is not modified (frame: nothing is in the modifies clause)."""
    ghost(entry=True, do=[let("S", list(steps))])
    initializes(
        tsteps=(([] if build is None else [("BUILD", build)]) + (S[::-1] if reverse else S)),
        rsteps=((S if reverse else S[::-1]) + ([] if build is None else [("BUILD", build)])))
    ensures(steps == S)
    returns("none")


@contract("dissect.cobaltstrike.c2:HttpDataTransform.transform", props=["C04", "C07", "C14"])
def _(self: "obj:HttpDataTransform", c2data: "record[C2Data]", request: "opt[record[HttpRequest]]"):
    """the message produced is the left fold of the step semantics of the Malleable C2 definition (spec/transform.py)
    over the program, for programs of any length: body, URI, and the header / parameter insertions in order, with
    rng(rng_calls), rng(rng_calls + 1), ... as the random mask keys.  ValueError exactly for a program with an
    unknown step name.  The program itself is not modified."""
    requires(t_steps_ok(self.tsteps))
    ghost(entry=True, do=[
        let("P", list(self.tsteps)),
        let("bo", b"" if c2data.output is None else c2data.output),
        let("bi", b"" if c2data.id is None else c2data.id),
        let("bm", b"" if c2data.metadata is None else c2data.metadata),
        let("c0", rng_calls),
        let("uri0", b"" if request is None else request.uri),
        let("body0", b"" if request is None else request.body),
        let("method0", b"" if request is None else request.method),
        let("hlog0", [] if request is None else dlog(request.headers)),
        let("plog0", [] if request is None else dlog(request.params)),
    ])
    modifies(request.headers, request.params)
    raises(ValueError, when=exists(lambda j: not t_known(P[j][0].lower()), 0, len(P)))
    ensures(result.method == method0)
    ensures(result.body == t_body(P, len(P), bo, bi, bm, c0, body0))
    ensures(result.uri == t_uri(P, len(P), bo, bi, bm, c0, uri0))
    ensures(dlog(result.headers) == hlog0 + t_hlog(P, len(P), bo, bi, bm, c0))
    ensures(dlog(result.params) == plog0 + t_plog(P, len(P), bo, bi, bm, c0))
    ensures(rng_calls == c0 + t_cnt(P, len(P)))
    ensures(self.tsteps == P)
    returns("record[HttpRequest]")
    loop(0, index="k", havoc=["rng_calls"], invariant=[
        forall(lambda j: t_known(P[j][0].lower()), 0, k),
        data == t_data(P, k, bo, bi, bm, c0),
        body == t_body(P, k, bo, bi, bm, c0, body0),
        uri == t_uri(P, k, bo, bi, bm, c0, uri0),
        dlog(headers) == hlog0 + t_hlog(P, k, bo, bi, bm, c0),
        dlog(params) == plog0 + t_plog(P, k, bo, bi, bm, c0),
        rng_calls == c0 + t_cnt(P, k),
    ])


@contract("dissect.cobaltstrike.c2:HttpDataTransform.recover", props=["C04", "C07", "C14"])
def _(self: "obj:HttpDataTransform", http: "union[record[HttpRequest],record[HttpResponse]]"):
    """the recovered C2 data is the left fold of the inverse step semantics (spec/transform.py) over the reversed
    program, for programs of any length and any message in which the termination locations exist (F[j] is what
    step j finds there); members without a BUILD step are None; a request gives ClientC2Data, a response
    ServerC2Data.  Nothing is modified."""
    logical(F="list[bytes]")
    requires(r_steps_ok(self.rsteps))
    requires(len(F) == len(self.rsteps))
    requires(forall(lambda j: implies(self.rsteps[j][0].lower() == "print", F[j] == http.body), 0, len(self.rsteps)))
    requires(forall(lambda j: implies(self.rsteps[j][0].lower() == "header",
                                      as_bytes(self.rsteps[j][1]) in http.headers
                                      and F[j] == http.headers[as_bytes(self.rsteps[j][1])]), 0, len(self.rsteps)))
    requires(implies(is_request(http), forall(lambda j: implies(
        self.rsteps[j][0].lower() == "parameter", as_bytes(self.rsteps[j][1]) in http.params
        and F[j] == http.params[as_bytes(self.rsteps[j][1])]), 0, len(self.rsteps))))
    requires(implies(is_request(http), forall(lambda j: implies(self.rsteps[j][0].lower() == "uri_append", F[j] == http.uri),
                                              0, len(self.rsteps))))
    ghost(entry=True, do=[let("R", list(self.rsteps))])
    raises(AssertionError, when=is_response(http) and exists(
        lambda j: R[j][0].lower() == "parameter" or R[j][0].lower() == "uri_append", 0, len(R)))
    raises(ValueError)
    raises(IndexError)
    ensures(forall(lambda j: r_known(R[j][0].lower()), 0, len(R)))
    ensures(is_record(result, "ClientC2Data") if is_request(http) else is_record(result, "ServerC2Data"))
    ensures((result.output is None) == (not r_has(R, len(R), "output")))
    ensures(implies(r_has(R, len(R), "output"), result.output == r_build(R, len(R), F, "output")))
    ensures((result.id is None) == (not r_has(R, len(R), "id")))
    ensures(implies(r_has(R, len(R), "id"), result.id == r_build(R, len(R), F, "id")))
    ensures((result.metadata is None) == (not r_has(R, len(R), "metadata")))
    ensures(implies(r_has(R, len(R), "metadata"), result.metadata == r_build(R, len(R), F, "metadata")))
    ensures(self.rsteps == R)
    returns("any")
    loop(0, index="k", locals={"build_output": "opt[bytes]", "build_id": "opt[bytes]", "build_metadata": "opt[bytes]"},
         invariant=[
        forall(lambda j: r_known(R[j][0].lower()), 0, k),
        data == r_data(R, k, F),
        (build_output is None) == (not r_has(R, k, "output")),
        implies(r_has(R, k, "output"), build_output == r_build(R, k, F, "output")),
        (build_id is None) == (not r_has(R, k, "id")),
        implies(r_has(R, k, "id"), build_id == r_build(R, k, F, "id")),
        (build_metadata is None) == (not r_has(R, k, "metadata")),
        implies(r_has(R, k, "metadata"), build_metadata == r_build(R, k, F, "metadata")),
    ])


# ------------------------------------------------------------------------------------------------ inversion (spec level)

@lemma(props=["C04"])
def step_inverse(k: "str", v: "any", d: "bytes", bo: "bytes", bi: "bytes", bm: "bytes", r: "int", f: "bytes"):
    """every encoder is undone by its decoder, for every byte string (also empty), every prepend/append argument
    (also empty) and every mask key; static decorations leave the data alone in both directions"""
    requires(is_encoder(k) or is_static(k), enc_arg_ok(k, v), 0 <= r, r < 4294967296)
    ensures(r_step(k, v, t_step(k, v, d, bo, bi, bm, r), f) == d)
    if k == "netbios" or k == "netbiosu":
        assert_(forall(lambda i: 65 <= nb_byte(d, 65, i) and nb_byte(d, 65, i) <= 80, 0, 2 * len(d)))
        assert_(netbios_encode(d, 65).lower().upper() == netbios_encode(d, 65))
        assert_(netbios_encode(d, 65).upper() == netbios_encode(d, 65))
        nb_roundtrip(d, 65, netbios_encode(d, 65), netbios_decode(netbios_encode(d, 65), 65))
    if k == "mask":
        xor_involutive(d, u32be_bytes(r), xor(d, u32be_bytes(r)), xor(xor(d, u32be_bytes(r)), u32be_bytes(r)))


@lemma(props=["C04"])
def block_unwinds(P: "list[tuple[str,any]]", R: "list[tuple[str,any]]", F: "list[bytes]", bo: "bytes", bi: "bytes",
                  bm: "bytes", c0: "int", b: "int", t: "int", m: "int"):
    """One block `P[b] = build X; P[b+1 .. t-1] encoders / static decorations; P[t] = termination` of a program P of any
    length, R the reversed program.  If the termination step of recovery finds what the block stored (F), then after
    undoing m encoders the recovery holds exactly the data the transform had m encoders before the termination."""
    requires(len(R) == len(P), len(F) == len(R))
    requires(forall(lambda j: same(R[j], P[len(P) - 1 - j]), 0, len(P)))
    requires(0 <= b, b < t, t < len(P))
    requires(r_fetches(P[t][0].lower()))
    requires(forall(lambda j: (is_encoder(P[j][0].lower()) or is_static(P[j][0].lower()))
                    and enc_arg_ok(P[j][0].lower(), P[j][1]), b + 1, t))
    requires(F[len(P) - 1 - t] == t_data(P, t, bo, bi, bm, c0))
    requires(0 <= m, m <= t - b - 1)
    ensures(r_data(R, len(P) - t + m, F) == t_data(P, t - m, bo, bi, bm, c0))
    decreases(m)
    if m > 0:
        block_unwinds(P, R, F, bo, bi, bm, c0, b, t, m - 1)
        assert_(same(R[len(P) - t + m - 1], P[t - m]))
        step_inverse(P[t - m][0].lower(), P[t - m][1], t_data(P, t - m, bo, bi, bm, c0), bo, bi, bm,
                     rng(c0 + t_cnt(P, t - m)), F[len(P) - t + m - 1])
    else:
        assert_(same(R[len(P) - t - 1], P[t]))


@lemma(props=["C04"])
def build_stable(R: "list[tuple[str,any]]", F: "list[bytes]", what: "str", n0: "int", n: "int"):
    """no further `build what` step after the first n0 steps: the recovered member does not change"""
    requires(0 <= n0, n0 <= n, n <= len(R))
    requires(forall(lambda j: not (R[j][0].lower() == "build" and R[j][1] == what), n0, n))
    ensures(r_build(R, n, F, what) == r_build(R, n0, F, what), r_has(R, n, what) == r_has(R, n0, what))
    decreases(n - n0)
    if n > n0:
        build_stable(R, F, what, n0, n - 1)


@lemma(props=["C04"])
def block_recovers(P: "list[tuple[str,any]]", R: "list[tuple[str,any]]", F: "list[bytes]", bo: "bytes", bi: "bytes",
                   bm: "bytes", c0: "int", b: "int", t: "int", what: "str"):
    """Round trip of one block inside a program of any length (any number of other blocks and decorations around it):
    if P[b] is the first `build what` and the termination step finds what was stored, recovery returns exactly the
    original member - for every payload, every encoder sequence, every prepend/append argument and every mask key."""
    requires(len(R) == len(P), len(F) == len(R))
    requires(forall(lambda j: same(R[j], P[len(P) - 1 - j]), 0, len(P)))
    requires(0 <= b, b < t, t < len(P))
    requires(what == "output" or what == "id" or what == "metadata")
    requires(P[b][0].lower() == "build", P[b][1] == what)
    requires(forall(lambda j: not (P[j][0].lower() == "build" and P[j][1] == what), 0, b))
    requires(r_fetches(P[t][0].lower()))
    requires(forall(lambda j: (is_encoder(P[j][0].lower()) or is_static(P[j][0].lower()))
                    and enc_arg_ok(P[j][0].lower(), P[j][1]), b + 1, t))
    requires(F[len(P) - 1 - t] == t_data(P, t, bo, bi, bm, c0))
    ensures(r_has(R, len(R), what), r_build(R, len(R), F, what) == member(what, bo, bi, bm))
    block_unwinds(P, R, F, bo, bi, bm, c0, b, t, t - b - 1)
    assert_(same(R[len(P) - 1 - b], P[b]))
    assert_(t_data(P, b + 1, bo, bi, bm, c0) == member(what, bo, bi, bm))
    assert_(r_build(R, len(P) - b, F, what) == r_data(R, len(P) - b - 1, F))
    assert_(forall(lambda j: same(R[j], P[len(P) - 1 - j]) and not (R[j][0].lower() == "build" and R[j][1] == what),
                   len(P) - b, len(P)))
    build_stable(R, F, what, len(P) - b, len(R))
