from pyvc.lang import *


@lemma(props=["C15", "C01"])
def all_occ_split(F: "bytes", N: "bytes", lo: "int", mid: "int", hi: "int"):
    requires(lo <= mid, mid <= hi)
    ensures(all_occ(F, N, lo, hi) == all_occ(F, N, lo, mid) + all_occ(F, N, mid, hi))
    decreases(mid - lo)
    if lo < mid:
        all_occ_split(F, N, lo + 1, mid, hi)


@lemma(props=["C15", "C01"])
def all_occ_empty(F: "bytes", N: "bytes", lo: "int", hi: "int"):
    requires(forall(lambda o: not occ(F, N, o), lo, hi))
    ensures(all_occ(F, N, lo, hi) == [])
    decreases(hi - lo)
    if lo < hi:
        all_occ_empty(F, N, lo + 1, hi)


@lemma(props=["C15", "C01"])
def occ_transfer(F: "bytes", d: "bytes", N: "bytes", base: "int"):
    """a window d that is a slice of the file has the pattern exactly where the file has it"""
    reveal("occ")
    requires(0 <= base, base + len(d) <= len(F), d == sub(F, base, base + len(d)))
    ensures(forall(lambda o: implies(base <= o and o - base + len(N) <= len(d), occ(F, N, o) == occ(d, N, o - base)),
                   trigger=occ(F, N, o)))
    ensures(forall(lambda p: implies(0 <= p and p + len(N) <= len(d), occ(d, N, p) == occ(F, N, base + p)),
                   trigger=occ(d, N, p)))


@lemma(props=["C15", "C01", "C09"])
def occ_snoc(F: "bytes", N: "bytes", y0: "ilist", y1: "ilist", x: "int"):
    """appending a true occurrence keeps 'every reported offset is an occurrence'"""
    requires(forall(lambda k: occ(F, N, y0[k]), 0, len(y0)), len(y1) == len(y0) + 1)
    requires(forall(lambda k: y1[k] == y0[k], 0, len(y0)), y1[len(y0)] == x, occ(F, N, x))
    ensures(forall(lambda k: occ(F, N, y1[k]), 0, len(y1)))


@contract("dissect.cobaltstrike.utils:iter_find_needle", mode="all", props=["C15", "C01", "C08", "C09"])
def _(fp: "file", needle: "bytes", start_offset: "opt[int]", max_offset: "int"):
    """all-mode generator contract: the ghost sequence `yielded` is the list of reported offsets.
    s = the offset the search starts from; F = the file content; the read-buffer size
    io.DEFAULT_BUFFER_SIZE is a symbolic constant >= 1."""
    modifies(fp)
    requires(len(needle) >= 1, max_offset >= 0)
    requires(implies(start_offset is not None, start_offset >= 0))
    yields("int")
    terminates()
    case_split(max_offset=0)
    ghost(entry=True, do=[let("F", file_content(fp)),
                          let("s", old(file_pos(fp)) if start_offset is None else start_offset)])
    # no limit: exactly the occurrences, ascending (sequence equality gives: all, ordered, no negative, no duplicate)
    ensures(implies(max_offset == 0, yielded == all_occ(F, needle, s, len(F) - len(needle) + 1)))
    # with a limit: every reported offset is an occurrence ...
    ensures(forall(lambda k: occ(F, needle, yielded[k]), 0, len(yielded)))
    # ... and every occurrence lying entirely before the limit is reported
    ensures(implies(max_offset > 0, forall(
        lambda o: implies(o + len(needle) <= max_offset and occ(F, needle, o), contains(yielded, o)),
        s, len(F), trigger=occ(F, needle, o))))
    loop(0, invariant=[
        s <= file_pos(fp),
        file_pos(fp) <= len(F) or file_pos(fp) == s,
        len(saved) == min(overlap_len, file_pos(fp) - s),
        forall(lambda i: saved[i] == F[file_pos(fp) - len(saved) + i], 0, len(saved)),
        needle_len == len(needle), overlap_len == needle_len - 1,
        implies(max_offset == 0, yielded == all_occ(F, needle, s, file_pos(fp) - len(saved))),
        forall(lambda k: occ(F, needle, yielded[k]), 0, len(yielded)),
        implies(max_offset > 0, forall(
            lambda o: implies(o < file_pos(fp) - len(saved) and o + len(needle) <= max_offset
                              and occ(F, needle, o), contains(yielded, o)), s, len(F), trigger=occ(F, needle, o))),
    ], decreases=len(F) - file_pos(fp) + 1)
    ghost(before="p = -1", do=[let("base", pos - len(saved)),
                               assert_(d == sub(F, base, base + len(d))),
                               occ_transfer(F, d, needle, base)])
    loop(1, invariant=[
        -1 <= p, implies(p >= 0, p + len(needle) <= len(d)),
        implies(max_offset == 0, yielded == all_occ(F, needle, s, base + p + 1)),
        forall(lambda k: occ(F, needle, yielded[k]), 0, len(yielded)),
        implies(max_offset > 0, forall(
            lambda o: implies(o < base + p + 1 and o + len(needle) <= max_offset
                              and occ(F, needle, o), contains(yielded, o)), s, len(F), trigger=occ(F, needle, o))),
    ], decreases=len(d) - p)
    ghost(before="p = d.find(needle, p + 1)", do=[let("p_old", p), let("y_old", yielded)])
    ghost(after="p = d.find(needle, p + 1)", do=[
        when(max_offset == 0 and p != -1, [
            all_occ_split(F, needle, s, base + p_old + 1, base + p + 1),
            all_occ_split(F, needle, base + p_old + 1, base + p, base + p + 1),
            all_occ_empty(F, needle, base + p_old + 1, base + p),
            all_occ_empty(F, needle, base + p + 1, base + p + 1),
            assert_(all_occ(F, needle, s, base + p + 1) == y_old + [base + p])]),
        when(max_offset == 0 and p == -1 and p_old + 1 <= len(d) - overlap_len, [
            all_occ_split(F, needle, s, base + p_old + 1, base + len(d) - overlap_len),
            all_occ_empty(F, needle, base + p_old + 1, base + len(d) - overlap_len)]),
        when(max_offset > 0 and p != -1,
             [assert_(forall(lambda o: not occ(F, needle, o), base + p_old + 1, base + p))]),
    ])
    ghost(after="p = d.find(needle, p + 1)", do=[when(p != -1, [assert_(occ(d, needle, p)), assert_(occ(F, needle, base + p))])])
    ghost(after="yield offset", do=[
        assert_(offset == base + p), assert_(len(yielded) == len(y_old) + 1), assert_(yielded[len(y_old)] == base + p),
        assert_(forall(lambda k: yielded[k] == y_old[k], 0, len(y_old))),
        occ_snoc(F, needle, y_old, yielded, base + p),
        when(max_offset > 0, [
            assert_(yielded[len(y_old)] == offset), assert_(contains(yielded, offset)),
            assert_(forall(lambda o: implies(contains(y_old, o), contains(yielded, o)), s, len(F),
                           trigger=occ(F, needle, o)))])])
    domain(fp=files(alphabet=b"\x00\x01", maxlen=5, positions=(0, 1)), needle=bytes_(alphabet=b"\x00\x01", minlen=1, maxlen=3),
           start_offset=ints(None, 0, 1, 2), max_offset=ints(0, 2, 3), const_io__DEFAULT_BUFFER_SIZE=ints(1, 2, 3, 4))


@contract("dissect.cobaltstrike.artifact:iter_artifactkit_payloads", mode="all", props=["C15", "C08"])
def _(fobj: "file", start_offset: "opt[int]", maxrange: "opt[int]"):
    """yields exactly the offsets in the scanned range whose header satisfies the self-referential
    check, ascending, each with size / key / hints / decoded payload from the stated offsets."""
    modifies(fobj)
    requires(implies(start_offset is not None, start_offset >= 0))
    yields("record[ArtifactKitPayload]")
    terminates()
    ghost(entry=True, do=[let("F", file_content(fobj)),
                          let("s", old(file_pos(fobj)) if start_offset is None else start_offset),
                          let("E", max(s, len(F) - 3) if maxrange is None else max(s, min(len(F) - 3, maxrange + 1)))])
    ensures(len(yielded) == len(ak_offsets(F, s, E)))
    ensures(forall(lambda k: ak_item_ok(F, ak_offsets(F, s, E)[k], yielded[k]), 0, len(yielded)))
    loop(0, invariant=[
        s <= pos, pos <= max(s, len(F) - 3),
        implies(maxrange is not None, pos <= max(s, maxrange + 1)),
        len(yielded) == len(ak_offsets(F, s, pos)),
        forall(lambda k: ak_item_ok(F, ak_offsets(F, s, pos)[k], yielded[k]), 0, len(yielded)),
    ], decreases=len(F) - pos)
    ghost(before="yield ArtifactKitPayload(offset=pos, size=size, xorkey=xorkey, hints=hints, payload=payload)",
          do=[let("y_old", yielded)])
    ghost(after="yield ArtifactKitPayload(offset=pos, size=size, xorkey=xorkey, hints=hints, payload=payload)",
          do=[assert_(len(yielded) == len(y_old) + 1),
              assert_(ak_item_ok(F, pos, yielded[len(y_old)])),
              assert_(forall(lambda k: same(yielded[k], y_old[k]), 0, len(y_old)))])
    domain(fobj=files(alphabet=b"\x00\x10\x11\x12", maxlen=5, positions=(0, 1)) + gen_ak_files(),
           start_offset=ints(None, 0, 1), maxrange=ints(None, 0, 1, 3))


@lemma(props=["C09", "C15"])
def contains_cat(a: "ilist", b: "ilist", c: "int"):
    requires(contains(a, c) or contains(b, c))
    ensures(contains(a + b, c))
    let("ab", a + b)
    assert_(len(ab) == len(a) + len(b))


@lemma(props=["C09", "C15"])
def contains_cat_all(a: "ilist", b: "ilist"):
    """membership in a concatenation"""
    ensures(forall(lambda c: implies(contains(a, c) or contains(b, c), contains(a + b, c)),
                   trigger=[contains(a, c), contains(b, c)]))
    let("ab", a + b)
    assert_(len(ab) == len(a) + len(b))
