from pyvc.lang import *


@contract("dissect.cobaltstrike.c2:C2Http.get_transform_for_http", props=["C07"])
def _(self: "obj:C2Http", http: "union[record[HttpRequest],record[HttpResponse]]"):
    """routing reads nothing but the message kind, the verb and the URI prefix: a request goes to the get transform iff its
    verb is the get verb and its URI starts with one of the get URIs; otherwise to the submit transform iff verb and URI
    prefix match the submit settings; a response goes to the response transform; every other request is rejected with
    ValueError.  (Raw bytes are first parsed by parse_raw_http, C16.)  Nothing is modified."""
    ghost(entry=True, do=[
        let("G", is_request(http) and http.method == self.get_verb
            and exists(lambda j: http.uri[:len(self.get_uris[j])] == self.get_uris[j] and len(self.get_uris[j]) <= len(http.uri),
                       0, len(self.get_uris))),
        let("P", is_request(http) and http.method == self.submit_verb and len(self.submit_uri) <= len(http.uri)
            and http.uri[:len(self.submit_uri)] == self.submit_uri)])
    raises(ValueError, when=is_request(http) and not G and not P)
    ensures(implies(is_response(http), result is self.transform_response))
    ensures(implies(G, result is self.transform_get))
    ensures(implies(is_request(http) and not G and P, result is self.transform_submit))
    returns("any")
