from pyvc.lang import *


@contract("dissect.cobaltstrike.beacon:BeaconConfig.from_bytes", props=["C08"])
def _(cls: "any", data: "bytes", xor_keys: "any", all_xor_keys: "bool"):
    """safety contract used by callers: only the documented ValueError escapes (C08)"""
    raises(ValueError)
    returns("any")
