from pyvc.lang import *


@lemma(props=["C02", "C08", "C01"])
def nul_from_is(B: "bytes", q: "int", x: "int"):
    """characterisation of the next NUL: nothing but non-NUL bytes in [q, x) and x is a NUL or the end of the data"""
    requires(0 <= q, q <= x, x <= len(B), forall(lambda i: B[i] != 0, q, x), x == len(B) or B[x] == 0)
    ensures(nul_from(B, q) == x)
    decreases(x - q)
    if q < x:
        nul_from_is(B, q + 1, x)


@contract("dissect.cobaltstrike.beacon:iter_settings", mode="all", props=["C02", "C08", "C01"])
def _(fobj: "bytes"):
    """the settings in on-disk order with index, type, length and value exactly as serialized (spec tlv), ended by a zero
    index / a record that does not fit / end of data; bytes after the terminator never influence the result; the
    over-long User-Agent continues to its NUL; index 36 is named by its type; terminates for every block"""
    yields("tuple[int,int,int,int,int,bytes]")
    terminates()
    ensures(snapshots(yielded) == tlv(fobj, 0))
    ghost(entry=True, do=[let("B", fobj)])
    loop(0, invariant=[
        file_content(fobj) == B, 0 <= file_pos(fobj), file_pos(fobj) <= len(B),
        tlv(B, 0) == yielded + tlv(B, file_pos(fobj))],
        decreases=len(B) - file_pos(fobj))
    ghost(loop_head=0, do=[let("p", file_pos(fobj))])
    loop(1, invariant=[
        file_content(fobj) == B, p + 6 + 128 <= file_pos(fobj), file_pos(fobj) <= len(B),
        setting.value == sub(B, p + 6, file_pos(fobj)), setting.length == 128,
        same_enum(setting.index, BeaconSetting.SETTING_USERAGENT), setting.type == be16(B, p + 2),
        forall(lambda i: B[i] != 0, p + 6 + 128, file_pos(fobj))],
        decreases=len(B) - file_pos(fobj))
    ghost(loop_exit=1, do=[nul_from_is(B, p + 6 + 128, file_pos(fobj)),
                           assert_(rec_end(B, p) == file_pos(fobj)),
                           assert_(setting.value == B[p + 6:rec_end(B, p)])])
    ghost(before="yield setting", do=[assert_(not tlv_stop(B, p)),
                                      assert_(file_pos(fobj) == rec_end(B, p)),
                                      assert_(tlv(B, p) == [tlv_rec(B, p)] + tlv(B, file_pos(fobj))),
                                      assert_(setting.value == B[p + 6:rec_end(B, p)]),
                                      assert_(setting.length == be16(B, p + 4)),
                                      assert_(setting.type == be16(B, p + 2)),
                                      assert_(setting.index == be16(B, p)),
                                      let("y0", yielded)])
    ghost(after="yield setting", do=[assert_(yielded == y0 + [tlv_rec(B, p)]),
                                     assert_(y0 + tlv(B, p) == yielded + tlv(B, file_pos(fobj)))])
    domain(fobj=gen_config_blocks())


@contract("dissect.cobaltstrike.beacon:parse_recover_binary", props=["C03", "C04", "C13"])
def _(program: "bytes"):
    """for EVERY well-formed step list (ghost parameter): decoding its encoding (optionally followed by a zero opcode
    and anything) yields precisely those steps and arguments, in order, and nothing else"""
    logical(steps="list[tuple[str,any]]", tail="bytes")
    requires(forall(lambda j: rstep_ok(steps[j][0], steps[j][1]), 0, len(steps)))
    requires(program == enc_recover(steps, 0) + tail)
    requires(len(tail) == 0 or (len(tail) >= 4 and tail[0] == 0 and tail[1] == 0 and tail[2] == 0 and tail[3] == 0))
    ensures(len(result) == len(steps))
    ensures(forall(lambda j: result[j][0] == steps[j][0] and same(result[j][1], steps[j][1]), 0, len(steps)))
    returns("list[tuple[str,any]]")
    local(rsteps="list[tuple[str,any]]")
    loop(0, index="k", invariant=[
        k <= len(steps), len(rsteps) == k, file_content(p) == program, 0 <= file_pos(p), file_pos(p) <= len(program),
        program[file_pos(p):] == enc_recover(steps, k) + tail,
        forall(lambda j: rsteps[j][0] == steps[j][0] and same(rsteps[j][1], steps[j][1]), 0, k)],
        decreases=len(program) - file_pos(p))


@contract("dissect.cobaltstrike.beacon:parse_transform_binary", props=["C03", "C04", "C13"])
def _(program: "bytes", build: "str"):
    """for EVERY well-formed transform program (ghost step list over the full opcode set with arbitrary byte arguments):
    decoding its encoding (optionally followed by a zero opcode and anything) yields precisely those steps, in order"""
    logical(steps="list[tuple[str,any]]", tail="bytes")
    requires(forall(lambda j: tstep_ok(steps[j][0], steps[j][1], build), 0, len(steps)))
    requires(program == enc_transform(steps, 0) + tail)
    requires(len(tail) < 4 or (tail[0] == 0 and tail[1] == 0 and tail[2] == 0 and tail[3] == 0))
    ensures(len(result) == len(steps))
    ensures(forall(lambda j: result[j][0] == steps[j][0] and tval_eq(result[j][1], steps[j][1]), 0, len(steps)))
    returns("list[tuple[str,any]]")
    local(tsteps="list[tuple[any,any]]")
    loop(0, index="k", invariant=[
        k <= len(steps), len(tsteps) == k, file_content(p) == program, 0 <= file_pos(p), file_pos(p) <= len(program),
        program[file_pos(p):] == enc_transform(steps, k) + tail,
        forall(lambda j: tsteps[j][0] == steps[j][0] and tval_eq(tsteps[j][1], steps[j][1]), 0, k)],
        decreases=len(program) - file_pos(p))


@contract("dissect.cobaltstrike.beacon:parse_pivot_frame", props=["C03"])
def _(data: "bytes"):
    """pivot frame header: u16 big-endian (length of the frame bytes + 4) followed by the frame bytes"""
    logical(frame="bytes", tail="bytes")
    requires(len(frame) + 4 < 65536, data == int.to_bytes(len(frame) + 4, 2, "big") + frame + tail)
    ensures(result == frame)
    returns("bytes")


@contract("dissect.cobaltstrike.beacon:parse_process_injection_transform_steps", props=["C03"])
def _(data: "bytes"):
    """process-inject transform: two length-prefixed byte strings, the bytes to append and the bytes to prepend"""
    logical(a="bytes", b="bytes")
    requires(len(a) < 4294967296, len(b) < 4294967296)
    requires(data == int.to_bytes(len(a), 4, "big") + a + int.to_bytes(len(b), 4, "big") + b)
    ensures(len(result) == 2, result[0][0] == "append", as_bytes(result[0][1]) == a, result[1][0] == "prepend",
            as_bytes(result[1][1]) == b)
    returns("list[tuple[str,any]]")
    local(steps="list[tuple[str,any]]")


@contract("dissect.cobaltstrike.beacon:null_terminated_bytes", props=["C03", "C13"])
def _(data: "bytes"):
    """the bytes before the first NUL (everything if there is none); embedded high bytes are kept"""
    ensures(result == (data if data.find(b"\x00") == -1 else data[:data.find(b"\x00")]))
    returns("bytes")
    domain(data=bytes_(alphabet=b"\x00A\xff", maxlen=4))


@contract("dissect.cobaltstrike.beacon:null_terminated_str", props=["C03", "C13"])
def _(data: "bytes"):
    """the NUL-terminated prefix as text: one character per byte (latin-1), nothing dropped or added"""
    ensures(len(result) == len(data if data.find(b"\x00") == -1 else data[:data.find(b"\x00")]))
    ensures(forall(lambda i: ord(result[i]) == data[i], 0, len(result)))
    returns("str")
    domain(data=bytes_(alphabet=b"\x00A\xff", maxlen=4))


@contract("dissect.cobaltstrike.beacon:sha256sum_pubkey", props=["C03"])
def _(der_data: "bytes"):
    """hex digest of SHA-256 over the DER data without its trailing NUL padding"""
    ensures(result == hex_of(sha256(der_data.rstrip(b"\x00"))))
    returns("str")
