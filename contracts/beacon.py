from pyvc.lang import *


@contract("dissect.cobaltstrike.beacon:BeaconConfig.from_bytes", props=["C08"])
def _(cls: "any", data: "bytes", xor_keys: "any", all_xor_keys: "bool"):
    """safety contract used by callers: only the documented ValueError escapes (C08)"""
    raises(ValueError)
    returns("any")


@lemma(props=["C02", "C08", "C01"])
def nul_from_is(B: "bytes", q: "int", x: "int"):
    """characterisation of the next NUL: nothing but non-NUL bytes in [q, x) and x is a NUL or the end of the data"""
    requires(0 <= q, q <= x, x <= len(B), forall(lambda i: B[i] != 0, q, x), x == len(B) or B[x] == 0)
    ensures(nul_from(B, q) == x)
    decreases(x - q)
    if q < x:
        nul_from_is(B, q + 1, x)


@contract("dissect.cobaltstrike.beacon:iter_settings", mode="all", props=["C02", "C08", "C01"])
def _(fobj: "bytes"):
    """the settings in on-disk order with index, type, length and value exactly as serialized (spec tlv), ended by a zero
    index / a record that does not fit / end of data; bytes after the terminator never influence the result; the
    over-long User-Agent continues to its NUL; index 36 is named by its type; terminates for every block"""
    yields("tuple[int,int,int,int,int,bytes]")
    terminates()
    ensures(snapshots(yielded) == tlv(fobj, 0))
    ghost(entry=True, do=[let("B", fobj)])
    loop(0, invariant=[
        file_content(fobj) == B, 0 <= file_pos(fobj), file_pos(fobj) <= len(B),
        tlv(B, 0) == yielded + tlv(B, file_pos(fobj))],
        decreases=len(B) - file_pos(fobj))
    ghost(loop_head=0, do=[let("p", file_pos(fobj))])
    loop(1, invariant=[
        file_content(fobj) == B, p + 6 + 128 <= file_pos(fobj), file_pos(fobj) <= len(B),
        setting.value == sub(B, p + 6, file_pos(fobj)), setting.length == 128,
        same_enum(setting.index, BeaconSetting.SETTING_USERAGENT), setting.type == be16(B, p + 2),
        forall(lambda i: B[i] != 0, p + 6 + 128, file_pos(fobj))],
        decreases=len(B) - file_pos(fobj))
    ghost(loop_exit=1, do=[nul_from_is(B, p + 6 + 128, file_pos(fobj)),
                           assert_(rec_end(B, p) == file_pos(fobj)),
                           assert_(setting.value == B[p + 6:rec_end(B, p)])])
    domain(fobj=gen_config_blocks())
