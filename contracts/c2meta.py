from pyvc.lang import *


@contract("dissect.cobaltstrike.c2:derive_aes_hmac_keys", props=["C06", "C07", "C19"])
def _(aes_random: "bytes"):
    """session keys are the first and second half of SHA-256 over the random bytes"""
    ensures(result[0] == sha256(aes_random)[:16], result[1] == sha256(aes_random)[16:])
    ensures(len(result[0]) == 16, len(result[1]) == 16, result[0] + result[1] == sha256(aes_random))
    returns("tuple[bytes,bytes]")
    domain(aes_random=bytes_(alphabet=b"\x00\xff", maxlen=2) + [{"bytes": list(range(16))}])


@contract("dissect.cobaltstrike.c2:BeaconKeys.from_aes_rand", props=["C06", "C05", "C07"])
def _(cls: "class:dissect.cobaltstrike.c2:BeaconKeys", aes_rand: "bytes", iv: "bytes"):
    """the session keys are derived from the random bytes and carry the CONFIGURED initialisation vector"""
    ensures(result.aes_key == sha256(aes_rand)[:16], result.hmac_key == sha256(aes_rand)[16:], result.iv == iv)
    returns("record[BeaconKeys]")


@contract("dissect.cobaltstrike.c2:BeaconKeys.from_beacon_metadata", props=["C06", "C05", "C07"])
def _(cls: "class:dissect.cobaltstrike.c2:BeaconKeys", metadata: "cstruct:dissect.cobaltstrike.c_c2:c2struct:BeaconMetadata", iv: "bytes"):
    ensures(result.aes_key == sha256(metadata.aes_rand)[:16], result.hmac_key == sha256(metadata.aes_rand)[16:], result.iv == iv)
    returns("record[BeaconKeys]")


@contract("dissect.cobaltstrike.c2:encrypt_metadata", props=["C06"])
def _(metadata: "cstruct:dissect.cobaltstrike.c_c2:c2struct:BeaconMetadata", public_key: "any"):
    """size is made consistent (size = 51 + len(info), i.e. total length - 8: the fixed fields before `info`
    take 59 bytes - derived from C2_DEF), the dump is PKCS#1 v1.5 encrypted"""
    requires(len(metadata.info) < 4294967245)
    modifies(metadata.size)
    raises(ValueError, when=59 + len(old(metadata.info)) > rsa_k(public_key) - 11)
    ensures(59 + len(metadata.info) <= rsa_k(public_key) - 11)
    ensures(metadata.size == 51 + len(metadata.info), metadata.info == old(metadata.info))
    ensures(len(result) == rsa_k(public_key))
    ensures(forall(lambda priv: implies(keypair(public_key, priv),
                                        rsa_ok(priv, result) and rsa_pt(priv, result) == bm_bytes(metadata.magic, metadata.size, metadata.aes_rand, metadata.ansi_cp, metadata.oem_cp, metadata.bid, metadata.pid, metadata.port, metadata.flag, metadata.ver_major, metadata.ver_minor, metadata.ver_build, metadata.ptr_x64, metadata.ptr_gmh, metadata.ptr_gpa, metadata.ip, metadata.info))))
    returns("bytes")


@contract("dissect.cobaltstrike.c2:decrypt_metadata", props=["C06"])
def _(encrypted_metadata: "bytes", private_key: "any"):
    """blobs that do not decrypt, or decrypt without the 0xBEEF magic (or to fewer bytes than the layout
    needs), are rejected with ValueError; otherwise the fields are exactly those of the plaintext"""
    raises(ValueError, when=len(encrypted_metadata) != rsa_k(private_key) or not rsa_ok(private_key, encrypted_metadata)
           or len(rsa_pt(private_key, encrypted_metadata)) < 59
           or len(rsa_pt(private_key, encrypted_metadata)) < 59 + max(ub(rsa_pt(private_key, encrypted_metadata), 4, 4) - 51, 0)
           or ub(rsa_pt(private_key, encrypted_metadata), 0, 4) != 48879)
    ensures(rsa_ok(private_key, encrypted_metadata), result.magic == 48879)
    ensures(bm_parse(rsa_pt(private_key, encrypted_metadata), result.magic, result.size, result.aes_rand, result.ansi_cp, result.oem_cp, result.bid, result.pid, result.port, result.flag, result.ver_major, result.ver_minor, result.ver_build, result.ptr_x64, result.ptr_gmh, result.ptr_gpa, result.ip, result.info))
    returns("cstruct:dissect.cobaltstrike.c_c2:c2struct:BeaconMetadata")
    domain(cases=gen_decrypt_metadata_cases())


@lemma(props=["C06"])
def bm_roundtrip(magic: "int", size: "int", aes_rand: "bytes", ansi_cp: "int", oem_cp: "int", bid: "int", pid: "int",
                 port: "int", flag: "int", ver_major: "int", ver_minor: "int", ver_build: "int", ptr_x64: "int",
                 ptr_gmh: "int", ptr_gpa: "int", ip: "int", info: "bytes"):
    """parsing the wire image of any metadata (every field at its full width, size made consistent) gives back
    exactly its fields: with encrypt_metadata's and decrypt_metadata's contracts this is the RSA round trip"""
    requires(len(aes_rand) == 16, size == 51 + len(info), size < 4294967296)
    requires(0 <= magic, magic < 4294967296, 0 <= ansi_cp, ansi_cp < 65536, 0 <= oem_cp, oem_cp < 65536)
    requires(0 <= bid, bid < 4294967296, 0 <= pid, pid < 4294967296, 0 <= port, port < 65536, 0 <= flag, flag < 256)
    requires(0 <= ver_major, ver_major < 256, 0 <= ver_minor, ver_minor < 256, 0 <= ver_build, ver_build < 65536)
    requires(0 <= ptr_x64, ptr_x64 < 4294967296, 0 <= ptr_gmh, ptr_gmh < 4294967296, 0 <= ptr_gpa, ptr_gpa < 4294967296)
    requires(0 <= ip, ip < 4294967296)
    ensures(bm_parse(bm_bytes(magic, size, aes_rand, ansi_cp, oem_cp, bid, pid, port, flag, ver_major, ver_minor,
                              ver_build, ptr_x64, ptr_gmh, ptr_gpa, ip, info),
                     magic, size, aes_rand, ansi_cp, oem_cp, bid, pid, port, flag, ver_major, ver_minor, ver_build,
                     ptr_x64, ptr_gmh, ptr_gpa, ip, info))
