from pyvc.lang import *


@contract("dissect.cobaltstrike.guardrails:payload_checksum", props=["C17"])
def _(data: "bytes"):
    """payload_checksum(d) == (sum of d[i] * (i mod 3 + 1)) mod 99999999"""
    ensures(result == guard_checksum(data))
    returns("int")
    loop(0, index="k", invariant=[n == wsum(data, k) % 99999999])
    domain(data=bytes_(alphabet=b"\x00\x01\xff", maxlen=5) + [{"bytes": [255] * 300}])


@lemma(props=["C17", "C08"])
def guard_items_snoc(F: "bytes", K: "int", go0: "ilist", go1: "ilist", y0: "list[record[GuardrailMetadata]]",
                     y1: "list[record[GuardrailMetadata]]", o: "int"):
    """appending one matching item / offset keeps the item-wise relation between the two lists"""
    requires(len(y0) == len(go0), forall(lambda j: guard_item_ok(F, K, go0[j], y0[j]), 0, len(y0)))
    requires(len(go1) == len(go0) + 1, len(y1) == len(y0) + 1)
    requires(forall(lambda j: go1[j] == go0[j] and same(y1[j], y0[j]), 0, len(go0)))
    requires(go1[len(go0)] == o, guard_item_ok(F, K, o, y1[len(y0)]))
    ensures(forall(lambda j: guard_item_ok(F, K, go1[j], y1[j]), 0, len(y1)))


@contract("dissect.cobaltstrike.guardrails:iter_guardrail_configs", mode="all", props=["C17", "C08"])
def _(fh: "file", xorkey: "bytes"):
    """yields exactly one metadata item per marker offset (ascending) that has room for a beacon configuration in
    front of it, with the masked areas read from the stated offsets and the guard configuration unmasked;
    terminates and raises nothing for every file content"""
    modifies(fh)
    requires(len(xorkey) == 1)
    yields("record[GuardrailMetadata]")
    terminates()
    ghost(entry=True, do=[let("F", file_content(fh)), let("K", xorkey[0])])
    ensures(len(yielded) == len(guard_offsets(F, K, len(F))))
    ensures(forall(lambda j: guard_item_ok(F, K, guard_offsets(F, K, len(F))[j], yielded[j]), 0, len(yielded)))
    loop(0, invariant=[
        0 <= offset, offset <= len(F), size == 6,
        len(yielded) == len(guard_offsets(F, K, offset)),
        forall(lambda j: guard_item_ok(F, K, guard_offsets(F, K, offset)[j], yielded[j]), 0, len(yielded))],
        decreases=len(F) - offset)
    local(settings="list[any]")
    ghost(loop_head=0, do=[let("y0", yielded), let("go0", guard_offsets(F, K, offset))])
    ghost(before="guard_config_offset = offset + 6", do=[assert_(guard_marker(F, offset, K))])
    ghost(before="offset += 1", do=[
        when(not (xor(a[::-1], b) in xorred_guardconfig_starts), [assert_(not guard_marker(F, offset, K))]),
        assert_(guard_offsets(F, K, offset + 1) == go0 + ([offset] if len(yielded) > len(y0) else [])),
        assert_(forall(lambda j: guard_offsets(F, K, offset + 1)[j] == go0[j], 0, len(go0))),
        when(len(yielded) > len(y0), [guard_items_snoc(F, K, go0, guard_offsets(F, K, offset + 1), y0, yielded, offset)])])
    ghost(after="unmasked_guard_config = xor(xor(masked_guard_config, masked_beacon_config[::-1]), xorkey)", do=[
        assert_(len(unmasked_guard_config) == len(masked_guard_config)),
        assert_(forall(lambda i: unmasked_guard_config[i] == bxor(bxor(masked_guard_config[i], masked_beacon_config[6143 - i]), K),
                       0, len(masked_guard_config)))])
    ghost(before="yield GuardrailMetadata(...", do=[let("y_old", yielded)])
    ghost(after="yield GuardrailMetadata(...", do=[
        assert_(len(yielded) == len(y_old) + 1),
        assert_(guard_item_ok(F, K, offset, yielded[len(y_old)])),
        assert_(forall(lambda j: same(yielded[j], y_old[j]), 0, len(y_old)))])
    loop(1, invariant=[file_pos(fh_guard) >= 0], decreases=len(unmasked_guard_config) - file_pos(fh_guard),
         locals={"setting": "any"})
    domain(fh=gen_guardrail_files(), xorkey=lit(b"\x8a"))


@external("dissect.cobaltstrike.guardrails:find_xor_key_candidates", mode="all", props=["C17"])
def _(fh: "file"):
    """ASSUMED (frequency heuristic over n-grams, DESIGN.md C17 OUT): yields byte strings, terminates, raises nothing.
    Cross-checked by the bounded component of C17; the soundness clause proved below does not depend on WHICH keys
    are proposed."""
    yields("bytes")
    modifies(fh)


@lemma(props=["C17"])
def wb_items_snoc(G: "list[record[GuardrailMetadata]]", y0: "list[record[GuardrailMetadata]]",
                  y1: "list[record[GuardrailMetadata]]", k: "int"):
    requires(0 <= k, k < len(G), len(y0) == k, len(y1) == k + 1)
    requires(forall(lambda j: wb_item_ok(G[j], y0[j]), 0, k), forall(lambda j: same(y1[j], y0[j]), 0, k))
    requires(wb_item_ok(G[k], y1[k]))
    ensures(forall(lambda j: wb_item_ok(G[j], y1[j]), 0, k + 1))


@lemma(props=["C17"])
def wb_item_file(F: "bytes", o: "int", g: "record[GuardrailMetadata]", y: "record[GuardrailMetadata]"):
    """composition of the scanner contract and the soundness relation"""
    requires(guard_item_ok(F, 138, o, g), wb_item_ok(g, y))
    ensures(wb_file_item_ok(F, o, y))


@contract("dissect.cobaltstrike.guardrails:iter_guardrail_configs_with_beacon", mode="all", props=["C17", "C08"])
def _(fh: "file"):
    """soundness: one item per scanner item (marker offsets ascending); an unmasked beacon configuration is only ever
    reported together with a key under which payload_checksum(unmasked) + 1 equals the checksum stored in the guard
    configuration, and it is xor(xor(masked, 0x2e), key); otherwise the guard metadata alone is reported"""
    modifies(fh)
    yields("record[GuardrailMetadata]")
    ghost(entry=True, do=[let("F", file_content(fh))])
    ensures(len(yielded) == len(guard_offsets(F, 138, len(F))))
    ensures(forall(lambda j: wb_file_item_ok(F, guard_offsets(F, 138, len(F))[j], yielded[j]), 0, len(yielded)))
    loop(0, index="k", invariant=[
        len(yielded) == k,
        forall(lambda j: wb_file_item_ok(F, guard_offsets(F, 138, len(F))[j], yielded[j]), 0, k)])
    ghost(loop_head=0, do=[let("y0", yielded), let("G", iter_seq), let("GO", guard_offsets(F, 138, len(F)))])
    ghost(before="for xorkey in find_xor_key_candidates(io.BytesIO(guarded_config)):", do=[let("g0", grconfig)])
    loop(1, index="m", invariant=[same(grconfig, g0), len(yielded) == k, same(yielded, y0)])
    domain(fh=gen_guardrail_files())
    ghost(after="yield grconfig", do=[
        assert_(len(yielded) == k + 1), assert_(wb_item_ok(G[k], yielded[k])),
        wb_item_file(F, GO[k], G[k], yielded[k]),
        assert_(forall(lambda j: same(yielded[j], y0[j]), 0, k))])
