from pyvc.lang import *


@contract("dissect.cobaltstrike.beacon:find_beacon_config_bytes", mode="first", props=["C01", "C08"])
def _(fh: "file", xorkey: "bytes"):
    """first-mode: a block is found exactly when the configuration header XORed with the key occurs in the file, and the
    first block reported is the 4096 bytes (clamped at the end of the file) at the FIRST occurrence, un-XORed with the
    key - for every file content, every position of the header (also offset 0 / the last 7 bytes), every key.
    Independent of the initial file position."""
    requires(len(xorkey) == 1)
    modifies(fh)
    yields("bytes")
    position_independent(fh)
    ghost(entry=True, do=[let("F", file_content(fh)), let("N", xor(b"\x00\x01\x00\x01\x00\x02\x00", xorkey)),
                          let("A", all_occ(F, N, 0, len(F) - 6))])
    ensures(found == (len(A) > 0))
    ensures(implies(found, first == xor(F[A[0]:A[0] + 4096], xorkey)))
    ensures(file_content(fh) == F)


@contract("dissect.cobaltstrike.beacon:iter_beacon_config_blocks", mode="first", props=["C01", "C08"])
def _(fobj: "file", xor_keys: "opt[list[bytes]]", xordecode: "lit:True", all_xor_keys: "lit:False"):
    """first-mode, default / caller-supplied key lists (the all-keys retry is covered by the bounded component):
    the first candidate is the block of the FIRST key in list order that has an occurrence, at its FIRST occurrence -
    searched in the decoded view of the XorEncoded container if the file is one and that view has any occurrence
    (reported as xorencoded), otherwise in the raw file (reported as not xorencoded); nothing is reported exactly when
    neither has an occurrence under any key."""
    requires(implies(xor_keys is not None, forall(lambda j: len(xor_keys[j]) == 1, 0, len(xor_keys))))
    modifies(fobj)
    yields("tuple[bytes,any]")
    position_independent(fobj)
    ghost(entry=True, do=[let("E", file_content(fobj)),
                          let("K", [b"\x69", b"\x2e", b"\x00"] if (xor_keys is None or len(xor_keys) == 0) else xor_keys)])
    ensures(implies(found, exists(lambda j: first[1]["xorkey"] == K[j] and (
        (first[1]["xorencoded"] == True and exists(lambda off: xcandidate(E, off) and xok(E, off) and picks(xview(E, off), K, j, first[0]),
                                                    0, len(E) + 1))
        or (first[1]["xorencoded"] == False and picks(E, K, j, first[0])
            and (no_xor_view(E, 1024) or exists(lambda off: view_without_hits(E, off, K), 0, len(E) + 1)))), 0, len(K))))
    ensures(implies(not found, no_hit_before(E, K, len(K))))
    ensures(file_content(fobj) == E)
    loop(0, index="k", invariant=[found == False, no_hit_before(xview(E, fxor.nonce_offset), K, k), file_content(fobj) == E])
    loop(2, index="k", invariant=[found == False, no_hit_before(E, K, k), file_content(fobj) == E])
    ghost(before='yield config_block, {"xorkey": xorkey, "xorencoded": True}', do=[
        assert_(xorkey == K[k]), assert_(picks(xview(E, fxor.nonce_offset), K, k, config_block))])
    ghost(loop_exit=0, do=[assert_(view_without_hits(E, fxor.nonce_offset, K))])
    ghost(before='yield config_block, {"xorkey": xorkey, "xorencoded": False}', do=[
        assert_(xorkey == K[k]), assert_(picks(E, K, k, config_block))])


@contract("dissect.cobaltstrike.beacon:BeaconConfig.__init__", props=["C01", "C08", "C02"])
def _(self: "newobj:BeaconConfig", config_block: "bytes"):
    """a configuration object holds the block it was given and the settings decoded from it (iter_settings, C02);
    key, flag and artefacts start unset; nothing else is touched; construction terminates and raises nothing"""
    initializes(config_block=config_block, xorkey=None, xorencoded=False, pe_export_stamp=None, pe_compile_stamp=None,
                architecture=None, guardrails=None)
    ensures(snapshots(self.settings_tuple) == tlv(config_block, 0))
    returns("none")


@contract("dissect.cobaltstrike.beacon:BeaconConfig.from_file", props=["C01", "C08"])
def _(cls: "class:dissect.cobaltstrike.beacon:BeaconConfig", fobj: "file", xor_keys: "opt[list[bytes]]", all_xor_keys: "lit:False"):
    """default / caller-supplied keys (the all-keys retry is bounded): the configuration returned is built from the FIRST
    candidate of iter_beacon_config_blocks - its block, the key used and the XorEncoded flag exactly as that contract
    states them - or, when there is no candidate, from the first Guardrails item with an unmasked configuration;
    only when neither exists the documented ValueError is raised; no other exception escapes and the call terminates."""
    requires(implies(xor_keys is not None, forall(lambda j: len(xor_keys[j]) == 1, 0, len(xor_keys))))
    modifies(fobj)
    position_independent(fobj)
    ghost(entry=True, do=[let("E", file_content(fobj)),
                          let("K", [b"\x69", b"\x2e", b"\x00"] if (xor_keys is None or len(xor_keys) == 0) else xor_keys)])
    raises(ValueError, when=no_hit_before(E, K, len(K)))
    ensures(implies(result.guardrails is None, exists(lambda j: result.xorkey == K[j] and (
        (result.xorencoded == True and exists(lambda off: xcandidate(E, off) and xok(E, off) and picks(xview(E, off), K, j, result.config_block),
                                               0, len(E) + 1))
        or (result.xorencoded == False and picks(E, K, j, result.config_block)
            and (no_xor_view(E, 1024) or exists(lambda off: view_without_hits(E, off, K), 0, len(E) + 1)))), 0, len(K))))
    ensures(implies(result.guardrails is not None, no_hit_before(E, K, len(K)) and result.xorkey == b"\x2e"))
    ensures(snapshots(result.settings_tuple) == tlv(result.config_block, 0))
    returns("obj:BeaconConfig")
    loop(1, index="k", invariant=[file_content(fobj) == E])


@contract("dissect.cobaltstrike.beacon:BeaconConfig.from_bytes", props=["C01", "C08", "C20"])
def _(cls: "class:dissect.cobaltstrike.beacon:BeaconConfig", data: "bytes", xor_keys: "opt[list[bytes]]", all_xor_keys: "lit:False"):
    """the same statement as from_file, for the data given as bytes"""
    requires(implies(xor_keys is not None, forall(lambda j: len(xor_keys[j]) == 1, 0, len(xor_keys))))
    ghost(entry=True, do=[let("E", data),
                          let("K", [b"\x69", b"\x2e", b"\x00"] if (xor_keys is None or len(xor_keys) == 0) else xor_keys)])
    raises(ValueError, when=no_hit_before(E, K, len(K)))
    ensures(implies(result.guardrails is None, exists(lambda j: result.xorkey == K[j] and (
        (result.xorencoded == True and exists(lambda off: xcandidate(E, off) and xok(E, off) and picks(xview(E, off), K, j, result.config_block),
                                               0, len(E) + 1))
        or (result.xorencoded == False and picks(E, K, j, result.config_block)
            and (no_xor_view(E, 1024) or exists(lambda off: view_without_hits(E, off, K), 0, len(E) + 1)))), 0, len(K))))
    ensures(implies(result.guardrails is not None, no_hit_before(E, K, len(K)) and result.xorkey == b"\x2e"))
    ensures(snapshots(result.settings_tuple) == tlv(result.config_block, 0))
    returns("obj:BeaconConfig")
