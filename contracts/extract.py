from pyvc.lang import *


@contract("dissect.cobaltstrike.beacon:find_beacon_config_bytes", mode="first", props=["C01", "C08"])
def _(fh: "file", xorkey: "bytes"):
    """first-mode: a block is found exactly when the configuration header XORed with the key occurs in the file, and the
    first block reported is the 4096 bytes (clamped at the end of the file) at the FIRST occurrence, un-XORed with the
    key - for every file content, every position of the header (also offset 0 / the last 7 bytes), every key.
    Independent of the initial file position."""
    requires(len(xorkey) == 1)
    modifies(fh)
    yields("bytes")
    position_independent(fh)
    ghost(entry=True, do=[let("F", file_content(fh)), let("N", xor(b"\x00\x01\x00\x01\x00\x02\x00", xorkey)),
                          let("A", all_occ(F, N, 0, len(F) - 6))])
    ensures(found == (len(A) > 0))
    ensures(implies(found, first == xor(F[A[0]:A[0] + 4096], xorkey)))
    ensures(file_content(fh) == F)


@contract("dissect.cobaltstrike.beacon:iter_beacon_config_blocks", mode="first", props=["C01", "C08"])
def _(fobj: "file", xor_keys: "opt[list[bytes]]", xordecode: "lit:True", all_xor_keys: "lit:False"):
    """first-mode, default / caller-supplied key lists (the all-keys retry is covered by the bounded component):
    the first candidate is the block of the FIRST key in list order that has an occurrence, at its FIRST occurrence -
    searched in the decoded view of the XorEncoded container if the file is one and that view has any occurrence
    (reported as xorencoded), otherwise in the raw file (reported as not xorencoded); nothing is reported exactly when
    neither has an occurrence under any key."""
    requires(implies(xor_keys is not None, forall(lambda j: len(xor_keys[j]) == 1, 0, len(xor_keys))))
    modifies(fobj)
    yields("tuple[bytes,any]")
    position_independent(fobj)
    ghost(entry=True, do=[let("E", file_content(fobj)),
                          let("K", [b"\x69", b"\x2e", b"\x00"] if (xor_keys is None or len(xor_keys) == 0) else xor_keys)])
    ensures(implies(found, exists(lambda j: first[1]["xorkey"] == K[j] and (
        (first[1]["xorencoded"] == True and exists(lambda off: xcandidate(E, off) and xok(E, off) and picks(xview(E, off), K, j, first[0]),
                                                    0, len(E) + 1))
        or (first[1]["xorencoded"] == False and picks(E, K, j, first[0])
            and (no_xor_view(E, 1024) or exists(lambda off: view_without_hits(E, off, K), 0, len(E) + 1)))), 0, len(K))))
    ensures(implies(not found, no_hit_before(E, K, len(K))))
    ensures(file_content(fobj) == E)
    loop(0, index="k", invariant=[found == False, no_hit_before(xview(E, fxor.nonce_offset), K, k), file_content(fobj) == E])
    loop(2, index="k", invariant=[found == False, no_hit_before(E, K, k), file_content(fobj) == E])
    ghost(before='yield config_block, {"xorkey": xorkey, "xorencoded": True}', do=[
        assert_(xorkey == K[k]), assert_(picks(xview(E, fxor.nonce_offset), K, k, config_block))])
    ghost(loop_exit=0, do=[assert_(view_without_hits(E, fxor.nonce_offset, K))])
    ghost(before='yield config_block, {"xorkey": xorkey, "xorencoded": False}', do=[
        assert_(xorkey == K[k]), assert_(picks(E, K, k, config_block))])
