from pyvc.lang import *


@contract("dissect.cobaltstrike.xordecode:XorEncodedFile.tell", props=["C09"])
def _(self: "obj:XorEncodedFile"):
    """logical position = raw position - (nonce_offset + 8); nothing is modified"""
    ensures(result == file_pos(self.fh) - (self.nonce_offset + 8))
    ensures(file_pos(self.fh) == old(file_pos(self.fh)))
    returns("int")
    domain(self=gen_xf_objects())


@contract("dissect.cobaltstrike.xordecode:XorEncodedFile.seek", props=["C09"])
def _(self: "obj:XorEncodedFile", offset: "int", whence: "lit:0|1|2"):
    """seek sets the logical position as a file over the decoded bytes would (any non-negative target,
    also beyond the end of the data)"""
    requires(xf_wf(file_content(self.fh), self.nonce_offset, self.initial_nonce), file_pos(self.fh) >= 0)
    requires(implies(whence == 0, 0 <= offset))
    requires(implies(whence == 1, 0 <= file_pos(self.fh) - (self.nonce_offset + 8) + offset))
    requires(implies(whence == 2, 0 <= len(file_content(self.fh)) - (self.nonce_offset + 8) + offset))
    modifies(self.fh)
    ensures(implies(whence == 0, file_pos(self.fh) - (self.nonce_offset + 8) == offset))
    ensures(implies(whence == 1, file_pos(self.fh) == old(file_pos(self.fh)) + offset))
    ensures(implies(whence == 2, file_pos(self.fh) - (self.nonce_offset + 8)
                    == len(file_content(self.fh)) - (self.nonce_offset + 8) + offset))
    ensures(xf_inv(file_content(self.fh), self.nonce_offset, self.initial_nonce, file_pos(self.fh)))
    returns("int")
    domain(self=gen_xf_objects(), offset=ints(0, 1, 2, 3, 4, 5, -1, -2, 9, 100), whence=lit(0, 1, 2))


@contract("dissect.cobaltstrike.xordecode:XorEncodedFile.read_nonce", props=["C09"])
def _(self: "obj:XorEncodedFile"):
    """the four key bytes for the current position, including the three mixed cases just after the size
    dword; the raw position is unchanged"""
    requires(xf_inv(file_content(self.fh), self.nonce_offset, self.initial_nonce, file_pos(self.fh)))
    modifies(self.fh)
    ensures(file_pos(self.fh) == old(file_pos(self.fh)))
    ensures(implies(file_pos(self.fh) <= len(file_content(self.fh)), len(result) == 4 and forall(
        lambda t: result[t] == xkey_at(file_content(self.fh), self.nonce_offset,
                                       file_pos(self.fh) - (self.nonce_offset + 8) + t), 0, 4)))
    returns("bytes")
    domain(self=gen_xf_objects())


@contract("dissect.cobaltstrike.xordecode:XorEncodedFile.read", props=["C09"])
def _(self: "obj:XorEncodedFile", n: "int"):
    """read(n) returns plain[lpos : lpos+n] (all remaining for n = -1, nothing for n = 0, clamped at the end of
    the data, any alignment of lpos and n) and the position advances by exactly len(result); the invariant is
    re-established, so the claim holds after every finite sequence of operations"""
    requires(n >= -1)
    requires(xf_inv(file_content(self.fh), self.nonce_offset, self.initial_nonce, file_pos(self.fh)))
    case_split(n=0)
    modifies(self.fh)
    terminates()
    ghost(entry=True, do=[let("E", file_content(self.fh)), let("off", self.nonce_offset),
                          let("lp0", old(file_pos(self.fh)) - (self.nonce_offset + 8)),
                          let("rem", max(len(file_content(self.fh)) - old(file_pos(self.fh)), 0))])
    ensures(len(result) == (rem if n == -1 else min(n, rem)))
    ensures(forall(lambda j: result[j] == xplain_at(E, off, lp0 + j), 0, len(result)))
    ensures(file_pos(self.fh) == old(file_pos(self.fh)) + len(result))
    ensures(xf_inv(file_content(self.fh), self.nonce_offset, self.initial_nonce, file_pos(self.fh)))
    returns("bytes")
    loop(0, invariant=[
        file_pos(self.fh) == old(file_pos(self.fh)) + len(data), len(data) == 0 or file_pos(self.fh) <= len(E),
        forall(lambda j: data[j] == xplain_at(E, off, lp0 + j), 0, len(data)),
        implies(file_pos(self.fh) < len(E), len(nonce) == 4
                and forall(lambda t: nonce[t] == xkey_at(E, off, lp0 + len(data) + t), 0, 4)),
        implies(n > 0, len(data) < n + 4),
    ], decreases=len(E) - file_pos(self.fh) + 1)
    domain(self=gen_xf_objects(), n=ints(-1, 0, 1, 2, 3, 4, 5, 7, 8, 100))


@contract("dissect.cobaltstrike.xordecode:XorEncodedFile.__init__", props=["C09"])
def _(self: "newobj:XorEncodedFile", fh: "file", nonce_offset: "int"):
    requires(nonce_offset >= 0)
    modifies(fh)
    initializes(fh=fh, nonce_offset=nonce_offset,
                initial_nonce=file_content(fh)[nonce_offset:nonce_offset + 4],
                nonced_filesize=file_content(fh)[nonce_offset + 4:nonce_offset + 8])
    ensures(file_pos(fh) == (nonce_offset if nonce_offset >= len(file_content(fh))
                             else min(nonce_offset + 8, len(file_content(fh)))))
    returns("none")
    domain(self=lit(None), fh=files(alphabet=b"\x01\x02", maxlen=4) + gen_xorencoded_files()[:6], nonce_offset=ints(0, 1, 2, 9))


@contract("dissect.cobaltstrike.xordecode:iter_nonce_offsets", mode="all", props=["C09"])
def _(fh: "file", real_size: "opt[int]", maxrange: "int"):
    """yields exactly the offsets i < maxrange whose decoded size field accounts for the rest of the file"""
    modifies(fh)
    requires(maxrange >= 0)
    yields("int")
    terminates()
    ghost(entry=True, do=[let("E", file_content(fh)), let("rs", len(file_content(fh)) if real_size is None else real_size)])
    ensures(yielded == nonce_offs_upto(E, rs, min(maxrange, max(len(E) - 7, 0))))
    loop(0, index="k", invariant=[real_size == rs, k <= max(len(E) - 7, 0), yielded == nonce_offs_upto(E, rs, k)])
    domain(fh=files(alphabet=b"\x00\x01\x09", minlen=7, maxlen=9), real_size=ints(None, 9, 10), maxrange=ints(0, 1, 2, 5))


@lemma(props=["C09"])
def xview_is_xplain(E: "bytes", off: "int", i: "int"):
    """the built-in decoded view is the plaintext the XorEncodedFile contracts are stated against"""
    requires(0 <= off, 0 <= i, i < len(xview(E, off)))
    ensures(xview(E, off)[i] == xplain_at(E, off, i), len(xview(E, off)) == xplen(E, off))


@lemma(props=["C09"])
def nonce_offsets_sound(E: "bytes", rs: "int", hi: "int"):
    ensures(forall(lambda j: nonce_cand(E, nonce_offs_upto(E, rs, hi)[j], rs) and nonce_offs_upto(E, rs, hi)[j] < hi,
                   0, len(nonce_offs_upto(E, rs, hi))))
    decreases(hi)
    if hi > 0:
        nonce_offsets_sound(E, rs, hi - 1)


@lemma(props=["C09"])
def nonce_offsets_complete(E: "bytes", rs: "int", hi: "int", c: "int"):
    requires(0 <= c, c < hi, nonce_cand(E, c, rs))
    ensures(contains(nonce_offs_upto(E, rs, hi), c))
    decreases(hi)
    if c < hi - 1:
        nonce_offsets_complete(E, rs, hi - 1, c)


@lemma(props=["C09"])
def nonce_offsets_complete_all(E: "bytes", rs: "int", hi: "int"):
    ensures(forall(lambda c: implies(nonce_cand(E, c, rs), contains(nonce_offs_upto(E, rs, hi), c)), 0, hi,
                   trigger=nonce_cand(E, c, rs)))
    decreases(hi)
    if hi > 0:
        nonce_offsets_complete_all(E, rs, hi - 1)
        assert_(forall(lambda c: implies(contains(nonce_offs_upto(E, rs, hi - 1), c), contains(nonce_offs_upto(E, rs, hi), c)),
                       0, hi, trigger=nonce_cand(E, c, rs)))
        assert_(implies(nonce_cand(E, hi - 1, rs), nonce_offs_upto(E, rs, hi)[len(nonce_offs_upto(E, rs, hi - 1))] == hi - 1))


@contract("dissect.cobaltstrike.xordecode:XorEncodedFile.from_file", props=["C09", "C01", "C08"])
def _(cls: "class:dissect.cobaltstrike.xordecode:XorEncodedFile", fh: "file", maxrange: "int"):
    """returns a candidate (size relation or end-of-stub marker + 3) whose decoded view contains a valid PE
    header pair, positioned at logical offset 0; raises ValueError only if no candidate within the search
    range has one.  Which of several working candidates is returned (Counter order) is not specified."""
    requires(maxrange >= 1)
    modifies(fh)
    ghost(entry=True, do=[let("E", file_content(fh))])
    raises(ValueError, when=forall(lambda c: implies(nonce_cand(E, c, len(E)) and c < maxrange, not xok(E, c)), 0, len(E) + 1)
           and forall(lambda o: implies(occ(E, b"\xff\xff\xff", o) and o + 3 <= maxrange, not xok(E, o + 3)), 0, len(E) + 1))
    ensures(xcandidate(E, result.nonce_offset) and xok(E, result.nonce_offset))
    ensures(xf_inv(E, result.nonce_offset, result.initial_nonce, file_pos(fh)), file_pos(fh) == result.nonce_offset + 8)
    returns("obj:XorEncodedFile")
    result_alias(fh=fh)
    domain(fh=gen_xorencoded_files(), maxrange=ints(1024, 5, 1))
    ghost(after="nonce_offsets = list(iter_nonce_offsets(fh, maxrange=maxrange))", do=[
        let("HI", min(maxrange, max(len(E) - 7, 0))),
        nonce_offsets_sound(E, len(E), HI),
        let("NO", nonce_offs_upto(E, len(E), HI)), assert_(nonce_offsets == NO)])
    ghost(before="xf = None", do=[let("EO", eof_shellcode_offsets), let("ALL", eof_shellcode_offsets + nonce_offsets),
                                  assert_(forall(lambda j: xcandidate(E, ALL[j]) and ALL[j] >= 0, 0, len(ALL)))])
    loop(0, index="k", invariant=[
        forall(lambda j: not xok(E, iter_seq[j][0]), 0, k)],
        locals={"xf": "any", "found_nonce_offset": "int"})
    ghost(before='raise ValueError(f"MZ header not found for: {fh}")', do=[
        nonce_offsets_complete_all(E, len(E), HI),
        assert_(forall(lambda c: implies(nonce_cand(E, c, len(E)) and c < maxrange, contains(NO, c)), 0, len(E) + 1,
                       trigger=nonce_cand(E, c, len(E)))),
        assert_(forall(lambda o: implies(occ(E, b"\xff\xff\xff", o) and o + 3 <= maxrange, contains(EO, o + 3)), 0, len(E) + 1,
                       trigger=occ(E, b"\xff\xff\xff", o))),
        contains_cat_all(EO, NO), assert_(ALL == EO + NO),
        assert_(forall(lambda c: implies(contains(ALL, c), not xok(E, c)), 0, len(E) + 1, trigger=xok(E, c))),
    ])
