from pyvc.lang import *


@contract("dissect.cobaltstrike.xordecode:XorEncodedFile.tell", props=["C09"])
def _(self: "obj:XorEncodedFile"):
    """logical position = raw position - (nonce_offset + 8); nothing is modified"""
    ensures(result == file_pos(self.fh) - (self.nonce_offset + 8))
    ensures(file_pos(self.fh) == old(file_pos(self.fh)))
    returns("int")
    domain(self=gen_xf_objects())


@contract("dissect.cobaltstrike.xordecode:XorEncodedFile.seek", props=["C09"])
def _(self: "obj:XorEncodedFile", offset: "int", whence: "lit:0|1|2"):
    """seek sets the logical position as a file over the decoded bytes would (any non-negative target,
    also beyond the end of the data)"""
    requires(xf_wf(file_content(self.fh), self.nonce_offset, self.initial_nonce), file_pos(self.fh) >= 0)
    requires(implies(whence == 0, 0 <= offset))
    requires(implies(whence == 1, 0 <= file_pos(self.fh) - (self.nonce_offset + 8) + offset))
    requires(implies(whence == 2, 0 <= len(file_content(self.fh)) - (self.nonce_offset + 8) + offset))
    modifies(self.fh)
    ensures(implies(whence == 0, file_pos(self.fh) - (self.nonce_offset + 8) == offset))
    ensures(implies(whence == 1, file_pos(self.fh) == old(file_pos(self.fh)) + offset))
    ensures(implies(whence == 2, file_pos(self.fh) - (self.nonce_offset + 8)
                    == len(file_content(self.fh)) - (self.nonce_offset + 8) + offset))
    ensures(xf_inv(file_content(self.fh), self.nonce_offset, self.initial_nonce, file_pos(self.fh)))
    returns("int")
    domain(self=gen_xf_objects(), offset=ints(0, 1, 2, 3, 4, 5, -1, -2, 9, 100), whence=lit(0, 1, 2))


@contract("dissect.cobaltstrike.xordecode:XorEncodedFile.read_nonce", props=["C09"])
def _(self: "obj:XorEncodedFile"):
    """the four key bytes for the current position, including the three mixed cases just after the size
    dword; the raw position is unchanged"""
    requires(xf_inv(file_content(self.fh), self.nonce_offset, self.initial_nonce, file_pos(self.fh)))
    modifies(self.fh)
    ensures(file_pos(self.fh) == old(file_pos(self.fh)))
    ensures(implies(file_pos(self.fh) <= len(file_content(self.fh)), len(result) == 4 and forall(
        lambda t: result[t] == xkey_at(file_content(self.fh), self.nonce_offset,
                                       file_pos(self.fh) - (self.nonce_offset + 8) + t), 0, 4)))
    returns("bytes")
    domain(self=gen_xf_objects())


@contract("dissect.cobaltstrike.xordecode:XorEncodedFile.read", props=["C09"])
def _(self: "obj:XorEncodedFile", n: "int"):
    """read(n) returns plain[lpos : lpos+n] (all remaining for n = -1, nothing for n = 0, clamped at the end of
    the data, any alignment of lpos and n) and the position advances by exactly len(result); the invariant is
    re-established, so the claim holds after every finite sequence of operations"""
    requires(n >= -1)
    requires(xf_inv(file_content(self.fh), self.nonce_offset, self.initial_nonce, file_pos(self.fh)))
    case_split(n=0)
    modifies(self.fh)
    terminates()
    ghost(entry=True, do=[let("E", file_content(self.fh)), let("off", self.nonce_offset),
                          let("lp0", old(file_pos(self.fh)) - (self.nonce_offset + 8)),
                          let("rem", max(len(file_content(self.fh)) - old(file_pos(self.fh)), 0))])
    ensures(len(result) == (rem if n == -1 else min(n, rem)))
    ensures(forall(lambda j: result[j] == xplain_at(E, off, lp0 + j), 0, len(result)))
    ensures(file_pos(self.fh) == old(file_pos(self.fh)) + len(result))
    ensures(xf_inv(file_content(self.fh), self.nonce_offset, self.initial_nonce, file_pos(self.fh)))
    returns("bytes")
    loop(0, invariant=[
        file_pos(self.fh) == old(file_pos(self.fh)) + len(data), len(data) == 0 or file_pos(self.fh) <= len(E),
        forall(lambda j: data[j] == xplain_at(E, off, lp0 + j), 0, len(data)),
        implies(file_pos(self.fh) < len(E), len(nonce) == 4
                and forall(lambda t: nonce[t] == xkey_at(E, off, lp0 + len(data) + t), 0, 4)),
        implies(n > 0, len(data) < n + 4),
    ], decreases=len(E) - file_pos(self.fh) + 1)
    domain(self=gen_xf_objects(), n=ints(-1, 0, 1, 2, 3, 4, 5, 7, 8, 100))


@contract("dissect.cobaltstrike.xordecode:XorEncodedFile.__init__", props=["C09"])
def _(self: "newobj:XorEncodedFile", fh: "file", nonce_offset: "int"):
    requires(nonce_offset >= 0)
    modifies(fh)
    initializes(fh=fh, nonce_offset=nonce_offset,
                initial_nonce=file_content(fh)[nonce_offset:nonce_offset + 4],
                nonced_filesize=file_content(fh)[nonce_offset + 4:nonce_offset + 8])
    ensures(file_pos(fh) == (nonce_offset if nonce_offset >= len(file_content(fh))
                             else min(nonce_offset + 8, len(file_content(fh)))))
    returns("none")


@contract("dissect.cobaltstrike.xordecode:iter_nonce_offsets", mode="all", props=["C09"])
def _(fh: "file", real_size: "opt[int]", maxrange: "int"):
    """yields exactly the offsets i < maxrange whose decoded size field accounts for the rest of the file"""
    requires(maxrange >= 0)
    yields("int")
    terminates()
    ghost(entry=True, do=[let("E", file_content(fh)), let("rs", len(file_content(fh)) if real_size is None else real_size)])
    ensures(yielded == nonce_offsets(E, rs, min(maxrange, max(len(E) - 7, 0))))
    loop(0, index="k", invariant=[real_size == rs, k <= max(len(E) - 7, 0), yielded == nonce_offsets(E, rs, k)])
    domain(fh=files(alphabet=b"\x00\x01\x09", minlen=7, maxlen=9), real_size=ints(None, 9, 10), maxrange=ints(0, 1, 2, 5))
