"""Spec of the beacon configuration block (C02): big-endian TLV records
    u16 index | u16 type | u16 length | value[length]
ended by a zero index or by a record that does not fit / end of data.  Written from the property statement.
A decoded setting is the flat tuple (index enum tag, index, type enum tag, type, length, value)."""
from pyvc.rt import spec, specfn, forall, exists, implies, ite, enum_tag


@spec
def be16(B: "bytes", p: "int") -> "int":
    return 256 * B[p] + B[p + 1]


@spec
def rec_fits(B: "bytes", p: "int") -> "bool":
    return 0 <= p and p + 6 <= len(B) and p + 6 + be16(B, p + 4) <= len(B)


@spec
def tlv_stop(B: "bytes", p: "int") -> "bool":
    """decoding stops at p: zero index, or the record at p does not fit into the data"""
    return (p + 2 <= len(B) and B[p] == 0 and B[p + 1] == 0) or not rec_fits(B, p)


@spec
def ua_long(B: "bytes", p: "int") -> "bool":
    """the over-long User-Agent edge case: index 9, length 0x80, the 128-byte value does not end in NUL"""
    return be16(B, p) == 9 and be16(B, p + 4) == 128 and B[p + 6 + 127] != 0


@spec
def nul_from(B: "bytes", q: "int") -> "int":
    """least index >= q holding a NUL byte, len(B) if there is none"""
    if q >= len(B):
        return len(B)
    if B[q] == 0:
        return q
    return nul_from(B, q + 1)


@spec
def rec_end(B: "bytes", p: "int") -> "int":
    """offset of the record that follows the one at p (the over-long User-Agent continues to its NUL, not consumed)"""
    return nul_from(B, p + 6 + 128) if ua_long(B, p) else p + 6 + be16(B, p + 4)


@spec
def tlv_rec(B: "bytes", p: "int") -> "tuple[int,int,int,int,int,bytes]":
    """the setting at p; index 36 with type SHORT is the deprecated SETTING_INJECT_OPTIONS"""
    return (enum_tag("DeprecatedBeaconSetting") if be16(B, p) == 36 and be16(B, p + 2) == 1 else enum_tag("BeaconSetting"),
            be16(B, p), enum_tag("SettingsType"), be16(B, p + 2), be16(B, p + 4), B[p + 6:rec_end(B, p)])


@spec
def tlv(B: "bytes", p: "int") -> "list[tuple[int,int,int,int,int,bytes]]":
    """the settings from offset p to the end, in on-disk order"""
    if tlv_stop(B, p):
        return []
    return [tlv_rec(B, p)] + tlv(B, rec_end(B, p))
