"""Spec functions for the byte-level codecs (C20, C04).  Written from the property statements:
XOR with a repeating key, NetBIOS nibble encoding, checksum8."""
from pyvc.rt import spec, specfn, forall, exists, implies, ite, bxor


@spec
def seqsum(s: "ilist") -> "int":
    if len(s) == 0:
        return 0
    return seqsum(s[:-1]) + s[-1]


@specfn
def nb_byte(d: "bytes", o: "int", i: "int") -> "int":
    """i-th byte of the NetBIOS encoding of d with offset o: high nibble first."""
    return (d[i // 2] // 16 if i % 2 == 0 else d[i // 2] % 16) + o


@spec
def nb_enc_post(d: "bytes", o: "int", e: "bytes") -> "bool":
    return len(e) == 2 * len(d) and forall(lambda i: e[i] == nb_byte(d, o, i), 0, 2 * len(d))


@spec
def nb_dec_post(e: "bytes", o: "int", r: "bytes") -> "bool":
    return len(r) == len(e) // 2 and forall(lambda j: r[j] == (e[2 * j] - o) * 16 + (e[2 * j + 1] - o), 0, len(e) // 2)


@spec
def xor_post(d: "bytes", k: "bytes", r: "bytes") -> "bool":
    """r is d XORed with the repeating key k (identity for an empty or all-zero key)."""
    return len(r) == len(d) and forall(
        lambda i: r[i] == (d[i] if len(k) == 0 else bxor(d[i], k[i % len(k)])), 0, len(d))


@spec
def byte_width(n: "int") -> "int":
    """minimal number of bytes of a non-negative integer (pack(n) without an explicit size)"""
    return (n.bit_length() + 7) // 8


@spec
def remove_char(s: "str", c: "int") -> "str":
    """s with every occurrence of the character c removed (Python: s.replace(chr(c), ""))"""
    if len(s) == 0:
        return ""
    return remove_char(s[:-1], c) + ("" if ord(s[-1]) == c else s[-1])


@spec
def sum_excl(s: "str", c: "int") -> "int":
    """sum of the code points of s, not counting occurrences of the character c"""
    if len(s) == 0:
        return 0
    return sum_excl(s[:-1], c) + (0 if ord(s[-1]) == c else ord(s[-1]))


@spec
def cs8(text: "str") -> "int":
    """Cobalt Strike checksum8: sum of the characters (slashes ignored) modulo 256; 0 for fewer than 4 characters"""
    if len(text) < 4:
        return 0
    return sum_excl(text, 47) % 256


@spec
def is_alnum(c: "int") -> "bool":
    return (48 <= c and c <= 57) or (65 <= c and c <= 90) or (97 <= c and c <= 122)


@spec
def stager_x64_shape(u: "str") -> "bool":
    """a slash followed by exactly four alphanumerics"""
    return len(u) == 5 and ord(u[0]) == 47 and is_alnum(ord(u[1])) and is_alnum(ord(u[2])) and is_alnum(ord(u[3])) \
        and is_alnum(ord(u[4]))
