"""Spec functions for the byte-level codecs (C20, C04).  Written from the property statements:
XOR with a repeating key, NetBIOS nibble encoding, checksum8."""
from pyvc.rt import spec, specfn, forall, exists, implies, ite, bxor


@spec
def seqsum(s: "ilist") -> "int":
    if len(s) == 0:
        return 0
    return seqsum(s[:-1]) + s[-1]


@specfn
def nb_byte(d: "bytes", o: "int", i: "int") -> "int":
    """i-th byte of the NetBIOS encoding of d with offset o: high nibble first."""
    return (d[i // 2] // 16 if i % 2 == 0 else d[i // 2] % 16) + o


@spec
def nb_enc_post(d: "bytes", o: "int", e: "bytes") -> "bool":
    return len(e) == 2 * len(d) and forall(lambda i: e[i] == nb_byte(d, o, i), 0, 2 * len(d))


@spec
def nb_dec_post(e: "bytes", o: "int", r: "bytes") -> "bool":
    return len(r) == len(e) // 2 and forall(lambda j: r[j] == (e[2 * j] - o) * 16 + (e[2 * j + 1] - o), 0, len(e) // 2)


@spec
def xor_post(d: "bytes", k: "bytes", r: "bytes") -> "bool":
    """r is d XORed with the repeating key k (identity for an empty or all-zero key)."""
    return len(r) == len(d) and forall(
        lambda i: r[i] == (d[i] if len(k) == 0 else bxor(d[i], k[i % len(k)])), 0, len(d))


@spec
def byte_width(n: "int") -> "int":
    """minimal number of bytes of a non-negative integer (pack(n) without an explicit size)"""
    return (n.bit_length() + 7) // 8
