"""Spec functions for the pattern scanners (C15, C01, C09).  Written from the property statement:
"reports exactly the offsets at which the pattern occurs - all of them, ascending, none negative or duplicated"."""
from pyvc.rt import spec, specfn, opaque, forall, exists, implies, ite, sub


@opaque
def occ(F: "bytes", N: "bytes", o: "int") -> "bool":
    """the pattern N occurs in F at offset o.  SMT: the built-in predicate smt.occ with the same
    element-wise definition (0 <= o, o + len(N) <= len(F), F[o+i] == N[i] for all i)."""
    return 0 <= o and o + len(N) <= len(F) and F[o:o + len(N)] == N


@spec
def all_occ(F: "bytes", N: "bytes", lo: "int", hi: "int") -> "ilist":
    """ascending list of the occurrence offsets o with lo <= o < hi"""
    if lo >= hi:
        return []
    return ([lo] if occ(F, N, lo) else []) + all_occ(F, N, lo + 1, hi)


@spec
def contains(xs: "ilist", v: "int") -> "bool":
    return exists(lambda k: xs[k] == v, 0, len(xs))
