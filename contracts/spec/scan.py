"""Spec functions for the pattern scanners (C15, C01, C09).  Written from the property statement:
"reports exactly the offsets at which the pattern occurs - all of them, ascending, none negative or duplicated"."""
from pyvc.rt import spec, specfn, opaque, forall, exists, implies, ite, sub


@opaque
def occ(F: "bytes", N: "bytes", o: "int") -> "bool":
    """the pattern N occurs in F at offset o.  SMT: the built-in predicate smt.occ with the same
    element-wise definition (0 <= o, o + len(N) <= len(F), F[o+i] == N[i] for all i)."""
    return 0 <= o and o + len(N) <= len(F) and F[o:o + len(N)] == N


@spec
def all_occ(F: "bytes", N: "bytes", lo: "int", hi: "int") -> "ilist":
    """ascending list of the occurrence offsets o with lo <= o < hi"""
    if lo >= hi:
        return []
    return ([lo] if occ(F, N, lo) else []) + all_occ(F, N, lo + 1, hi)


@specfn
def contains(xs: "ilist", v: "int") -> "bool":
    return exists(lambda k: xs[k] == v, 0, len(xs))


@specfn
def ak_hdr(F: "bytes", o: "int") -> "bool":
    """ArtifactKit self-referential header check: the little-endian dword at o equals o + 16"""
    return 0 <= o and o + 4 <= len(F) and F[o] + 256 * F[o + 1] + 65536 * F[o + 2] + 16777216 * F[o + 3] == o + 16


@spec
def ak_offsets(F: "bytes", lo: "int", hi: "int") -> "ilist":
    """ascending list of the offsets o in [lo, hi) whose header satisfies the check"""
    if hi <= lo:
        return []
    return ak_offsets(F, lo, hi - 1) + ([hi - 1] if ak_hdr(F, hi - 1) else [])


@specfn
def ak_item_ok(F: "bytes", o: "int", rec: "record[ArtifactKitPayload]") -> "bool":
    """the reported item carries offset, size, key, hints and the payload decoded by its 4-byte key,
    read from the stated offsets (clamped at end of file)"""
    return (rec.offset == o and rec.size == int.from_bytes(F[o + 4:o + 8], "little")
            and rec.xorkey == F[o + 8:o + 12] and rec.hints == F[o + 12:o + 20]
            and xor_post(F[o + 20:o + 20 + rec.size], rec.xorkey, rec.payload))


def gen_ak_files():
    """Small-scope inputs for the ArtifactKit scanner: files with valid / near-valid headers at several
    offsets, short and truncated tails (JSON-able input descriptions for pyvc.rt_runner)."""
    out = []
    fill = [0, 0x11]
    for off in (0, 1, 3):
        for hdr_delta in (0, 1, -4):
            for size in (0, 1, 3, 5):
                for tail in (0, 2, 30):
                    for trunc in (None, 6, 14, 22):
                        body = [fill[(i * 7 + off) % 2] for i in range(off)]
                        hdr = (off + 16 + hdr_delta).to_bytes(4, "little")
                        rec = list(hdr) + list(size.to_bytes(4, "little")) + [1, 2, 3, 4] + list(range(0x30, 0x38)) + \
                            [(0x41 + i) % 256 for i in range(size)]
                        data = body + rec + [0x11] * tail
                        if trunc is not None:
                            data = data[:off + trunc]
                        out.append({"file": {"bytes": data}, "pos": 0, "fkind": "bytesio"})
    return out
