"""Spec functions for Guardrails (C17)."""
from pyvc.rt import spec, specfn, forall, exists, implies, ite, bxor


@spec
def wsum(d: "bytes", k: "int") -> "int":
    """sum of d[i] * (i mod 3 + 1) over i < k"""
    if k <= 0:
        return 0
    return wsum(d, k - 1) + d[k - 1] * ((k - 1) % 3 + 1)


@spec
def guard_checksum(d: "bytes") -> "int":
    """Guardrails payload checksum: the weighted byte sum modulo 99999999"""
    return wsum(d, len(d)) % 99999999


@spec
def start_match(a: "bytes", b: "bytes", k: "int", start: "bytes") -> "bool":
    """xor(a, b) == xor(start, k) for six-byte a, start and the (possibly short, then tiled) key b"""
    return len(a) == 6 and forall(lambda t: (a[t] if len(b) == 0 else bxor(a[t], b[t % len(b)])) == bxor(start[t], k), 0, 6)


@specfn
def guard_marker(F: "bytes", o: "int", k: "int") -> "bool":
    """offset o starts the six masked bytes that precede a guardrail configuration: reversed and XORed with the
    following bytes they give one of the four known first settings (GUARD_USER/COMPUTER/DOMAIN/LOCAL_IP), masked
    with the single-byte guardrail key k"""
    return (0 <= o and o + 6 <= len(F) and (
        start_match(F[o:o + 6][::-1], F[o + 6:o + 12], k, b"\x00\x05\x00\x01\x00\x02")
        or start_match(F[o:o + 6][::-1], F[o + 6:o + 12], k, b"\x00\x06\x00\x01\x00\x02")
        or start_match(F[o:o + 6][::-1], F[o + 6:o + 12], k, b"\x00\x07\x00\x01\x00\x02")
        or start_match(F[o:o + 6][::-1], F[o + 6:o + 12], k, b"\x00\x08\x00\x02\x00\x04")))


@spec
def guard_offsets(F: "bytes", k: "int", hi: "int") -> "ilist":
    """ascending list of the marker offsets o < hi that have room for a 6144-byte beacon config in front"""
    if hi <= 0:
        return []
    return guard_offsets(F, k, hi - 1) + ([hi - 1] if guard_marker(F, hi - 1, k) and hi - 1 + 6 - 6144 >= 0 else [])


@specfn
def guard_item_ok(F: "bytes", k: "int", o: "int", g: "record[GuardrailMetadata]") -> "bool":
    """the reported metadata for the marker at o: offsets, masked areas and the unmasked guard configuration
    (masked guard bytes XOR reversed masked beacon config XOR key)"""
    return (g.guard_config_offset == o + 6 and g.beacon_config_offset == o + 6 - 6144
            and g.masked_beacon_config == F[o + 6 - 6144:o + 6] and g.masked_guard_config == F[o + 6:o + 6 + 2048]
            and len(g.unmasked_guard_config) == len(g.masked_guard_config)
            and forall(lambda i: g.unmasked_guard_config[i] == bxor(bxor(g.masked_guard_config[i], g.masked_beacon_config[6143 - i]), k),
                       0, len(g.masked_guard_config))
            and g.payload_xor_key is None and g.unmasked_beacon_config is None and g.beacon_xor_key == b"\x2e")


@spec
def unguard_post(masked: "bytes", key: "bytes", out: "bytes") -> "bool":
    """out == xor(xor(masked, 0x2e), key): the beacon configuration with the static mask and the environmental key removed"""
    return len(out) == len(masked) and forall(
        lambda i: out[i] == (bxor(masked[i], 46) if len(key) == 0 else bxor(bxor(masked[i], 46), key[i % len(key)])),
        0, len(masked))


@specfn
def wb_item_ok(g: "record[GuardrailMetadata]", y: "record[GuardrailMetadata]") -> "bool":
    """the item reported by iter_guardrail_configs_with_beacon for the scanner item g: same guard metadata, and an
    unmasked configuration only together with a key under which the checksum matches"""
    return (y.guard_config_offset == g.guard_config_offset and y.beacon_config_offset == g.beacon_config_offset
            and y.masked_beacon_config == g.masked_beacon_config and y.masked_guard_config == g.masked_guard_config
            and y.unmasked_guard_config == g.unmasked_guard_config and y.checksum == g.checksum
            and y.beacon_xor_key == b"\x2e"
            and ((y.unmasked_beacon_config is None and y.payload_xor_key is None)
                 or (y.unmasked_beacon_config is not None and y.payload_xor_key is not None
                     and unguard_post(g.masked_beacon_config, y.payload_xor_key, y.unmasked_beacon_config)
                     and guard_checksum(y.unmasked_beacon_config) + 1 == y.checksum)))


@specfn
def wb_file_item_ok(F: "bytes", o: "int", y: "record[GuardrailMetadata]") -> "bool":
    """what a reported item says about the file: guard metadata of the marker at o, and an unmasked beacon
    configuration only if its checksum (+1) equals the stored one under the reported key"""
    return (y.guard_config_offset == o + 6 and y.beacon_config_offset == o + 6 - 6144
            and y.masked_beacon_config == F[o + 6 - 6144:o + 6] and y.masked_guard_config == F[o + 6:o + 6 + 2048]
            and y.beacon_xor_key == b"\x2e"
            and ((y.unmasked_beacon_config is None and y.payload_xor_key is None)
                 or (y.unmasked_beacon_config is not None and y.payload_xor_key is not None
                     and unguard_post(F[o + 6 - 6144:o + 6], y.payload_xor_key, y.unmasked_beacon_config)
                     and guard_checksum(y.unmasked_beacon_config) + 1 == y.checksum)))
