"""Spec functions for raw HTTP parsing (C16)."""
from pyvc.rt import spec, specfn, forall, exists, implies, ite


@spec
def split_on(s: "bytes", sep: "bytes") -> "list[bytes]":
    """pieces of s between the occurrences of the non-empty separator (Python: s.split(sep))"""
    if s.find(sep) == -1:
        return [s]
    return [s[:s.find(sep)]] + split_on(s[s.find(sep) + len(sep):], sep)


@spec
def http_head(data: "bytes") -> "bytes":
    """everything before the first CR LF CR LF (the whole message if there is none)"""
    return data if data.find(b"\r\n\r\n") == -1 else data[:data.find(b"\r\n\r\n")]


@spec
def http_body(data: "bytes") -> "bytes":
    """everything after the first CR LF CR LF, byte for byte (empty if there is none)"""
    return b"" if data.find(b"\r\n\r\n") == -1 else data[data.find(b"\r\n\r\n") + 4:]


@spec
def first_line(data: "bytes") -> "bytes":
    return http_head(data) if http_head(data).find(b"\r\n") == -1 else http_head(data)[:http_head(data).find(b"\r\n")]


@spec
def header_block(data: "bytes") -> "bytes":
    return b"" if http_head(data).find(b"\r\n") == -1 else http_head(data)[http_head(data).find(b"\r\n") + 2:]


@spec
def hdr_key(line: "bytes") -> "bytes":
    return line if line.find(b": ") == -1 else line[:line.find(b": ")]


@spec
def hdr_val(line: "bytes") -> "bytes":
    return b"" if line.find(b": ") == -1 else line[line.find(b": ") + 2:]


@spec
def header_pairs(lines: "list[bytes]", n: "int") -> "list[tuple[bytes,bytes]]":
    """(key, value) of the first n non-empty header lines, in order ('Key: value' split at the first ': ')"""
    if n <= 0:
        return []
    return header_pairs(lines, n - 1) + ([] if len(lines[n - 1]) == 0 else [(hdr_key(lines[n - 1]), hdr_val(lines[n - 1]))])
