"""Spec functions for the PE helpers (C18, C09, C08).  Offsets are those of the PE/COFF format:
e_lfanew is the signed little-endian dword at 0x3c of the DOS header (64 bytes); the COFF file header
(20 bytes: Machine u16, NumberOfSections u16, TimeDateStamp u32, ...) follows the 4-byte PE signature."""
from pyvc.rt import spec, specfn, forall, exists, implies, ite


@spec
def u16le(F: "bytes", o: "int") -> "int":
    return F[o] + 256 * F[o + 1]


@spec
def u32le(F: "bytes", o: "int") -> "int":
    return F[o] + 256 * F[o + 1] + 65536 * F[o + 2] + 16777216 * F[o + 3]


@spec
def s32le(F: "bytes", o: "int") -> "int":
    return u32le(F, o) - 4294967296 if u32le(F, o) >= 2147483648 else u32le(F, o)


@specfn
def valid_mz(F: "bytes", o: "int", maxrange: "int") -> "bool":
    """a DOS header at o whose e_lfanew is in (0, maxrange) and points to a COFF header for x86 or x64"""
    return (0 <= o and o + 64 <= len(F) and 0 < s32le(F, o + 60) and s32le(F, o + 60) < maxrange
            and o + 4 + s32le(F, o + 60) + 20 <= len(F)
            and (u16le(F, o + 4 + s32le(F, o + 60)) == 34404 or u16le(F, o + 4 + s32le(F, o + 60)) == 332))


@spec
def machine_at(F: "bytes", o: "int") -> "int":
    return u16le(F, o + 4 + s32le(F, o + 60))


@spec
def first_mz(F: "bytes", lo: "int", hi: "int", maxrange: "int") -> "int":
    """least offset in [lo, hi) with a valid header pair, -1 if there is none"""
    if lo >= hi:
        return -1
    if valid_mz(F, lo, maxrange):
        return lo
    return first_mz(F, lo + 1, hi, maxrange)


@specfn
def sec_hit(F: "bytes", base: "int", j: "int", rva: "int") -> "bool":
    """section j (40-byte headers from base; VirtualSize at +8, VirtualAddress at +12) contains the RVA"""
    return u32le(F, base + 40 * j + 12) <= rva and rva < u32le(F, base + 40 * j + 12) + u32le(F, base + 40 * j + 8)


@spec
def first_sec(F: "bytes", base: "int", k: "int", n: "int", rva: "int") -> "int":
    """index of the first section in [k, n) containing the RVA, -1 if none"""
    if k >= n:
        return -1
    if sec_hit(F, base, k, rva):
        return k
    return first_sec(F, base, k + 1, n, rva)


@spec
def pe_compile_stamp(F: "bytes", o: "int") -> "int":
    """TimeDateStamp of the COFF file header of the image at o"""
    return u32le(F, o + s32le(F, o + 60) + 4 + 4)


@specfn
def pe_export_stamp(F: "bytes", o: "int") -> "int":
    """TimeDateStamp of the export directory of the image at o, located through the first section that contains
    the export RVA; -1 when the headers are truncated, no section contains it or the directory is out of the file"""
    coff = o + s32le(F, o + 60) + 4
    x64 = u16le(F, coff) == 34404
    opt = coff + 20
    optsize = 240 if x64 else 224
    if opt + optsize > len(F):
        return -1
    rva = u32le(F, opt + (112 if x64 else 96))
    nsec = u16le(F, coff + 2)
    base = opt + optsize
    if base + 40 * nsec > len(F):
        return -1
    j = first_sec(F, base, 0, nsec, rva)
    if j == -1:
        return -1
    off = rva - u32le(F, base + 40 * j + 12) + u32le(F, base + 40 * j + 20) + o
    if off + 40 > len(F):
        return -1
    return u32le(F, off + 4)


@spec
def raw_sum(F: "bytes", base: "int", k: "int") -> "int":
    """sum of SizeOfRawData (at +16 of each 40-byte section header) over the first k sections"""
    if k <= 0:
        return 0
    return raw_sum(F, base, k - 1) + u32le(F, base + 40 * (k - 1) + 16)


@specfn
def pe_total_size(F: "bytes", o: "int") -> "int":
    """SizeOfHeaders plus the raw sizes of all sections of the image at o; -1 if the machine is neither x86 nor x64
    or the headers are truncated"""
    coff = o + s32le(F, o + 60) + 4
    m = u16le(F, coff)
    if not (m == 34404 or m == 332):
        return -1
    opt = coff + 20
    optsize = 240 if m == 34404 else 224
    if opt + optsize > len(F):
        return -1
    nsec = u16le(F, coff + 2)
    if opt + optsize + 40 * nsec > len(F):
        return -1
    return u32le(F, opt + 60) + raw_sum(F, opt + optsize, nsec)
