"""Spec functions for the PE helpers (C18, C09, C08).  Offsets are those of the PE/COFF format:
e_lfanew is the signed little-endian dword at 0x3c of the DOS header (64 bytes); the COFF file header
(20 bytes: Machine u16, NumberOfSections u16, TimeDateStamp u32, ...) follows the 4-byte PE signature."""
from pyvc.rt import spec, specfn, forall, exists, implies, ite


@spec
def u16le(F: "bytes", o: "int") -> "int":
    return F[o] + 256 * F[o + 1]


@spec
def u32le(F: "bytes", o: "int") -> "int":
    return F[o] + 256 * F[o + 1] + 65536 * F[o + 2] + 16777216 * F[o + 3]


@spec
def s32le(F: "bytes", o: "int") -> "int":
    return u32le(F, o) - 4294967296 if u32le(F, o) >= 2147483648 else u32le(F, o)


@specfn
def valid_mz(F: "bytes", o: "int", maxrange: "int") -> "bool":
    """a DOS header at o whose e_lfanew is in (0, maxrange) and points to a COFF header for x86 or x64"""
    return (0 <= o and o + 64 <= len(F) and 0 < s32le(F, o + 60) and s32le(F, o + 60) < maxrange
            and o + 4 + s32le(F, o + 60) + 20 <= len(F)
            and (u16le(F, o + 4 + s32le(F, o + 60)) == 34404 or u16le(F, o + 4 + s32le(F, o + 60)) == 332))


@spec
def machine_at(F: "bytes", o: "int") -> "int":
    return u16le(F, o + 4 + s32le(F, o + 60))


@spec
def first_mz(F: "bytes", lo: "int", hi: "int", maxrange: "int") -> "int":
    """least offset in [lo, hi) with a valid header pair, -1 if there is none"""
    if lo >= hi:
        return -1
    if valid_mz(F, lo, maxrange):
        return lo
    return first_mz(F, lo + 1, hi, maxrange)
