"""Spec functions for packet encryption / framing (C05, C06, C07)."""
from pyvc.rt import spec, specfn, forall, exists, implies, ite


@spec
def pad_A(d: "bytes") -> "bytes":
    """Cobalt Strike padding: 1..16 bytes of 'A' up to the next multiple of 16"""
    return d + b"A" * (16 - len(d) % 16)


@spec
def frame(ct: "bytes", sig: "bytes") -> "bytes":
    """callback framing: big-endian length prefix, ciphertext, signature"""
    return int.to_bytes(len(ct) + len(sig), 4, "big") + ct + sig


@spec
def concat_frames(pkts: "list[tuple[bytes,bytes]]", k: "int") -> "bytes":
    """concatenation of the frames of the packets k, k+1, ..."""
    if k >= len(pkts):
        return b""
    return frame(pkts[k][0], pkts[k][1]) + concat_frames(pkts, k + 1)


@spec
def be(v: "int", n: "int") -> "bytes":
    return int.to_bytes(v, n, "big")


@spec
def bm_bytes(magic: "int", size: "int", aes_rand: "bytes", ansi_cp: "int", oem_cp: "int", bid: "int", pid: "int",
             port: "int", flag: "int", ver_major: "int", ver_minor: "int", ver_build: "int", ptr_x64: "int",
             ptr_gmh: "int", ptr_gpa: "int", ip: "int", info: "bytes") -> "bytes":
    """wire image of BeaconMetadata (big endian), written from the documented layout: 59 fixed bytes + info"""
    return (be(magic, 4) + be(size, 4) + aes_rand + be(ansi_cp, 2) + be(oem_cp, 2) + be(bid, 4) + be(pid, 4)
            + be(port, 2) + be(flag, 1) + be(ver_major, 1) + be(ver_minor, 1) + be(ver_build, 2) + be(ptr_x64, 4)
            + be(ptr_gmh, 4) + be(ptr_gpa, 4) + be(ip, 4) + info)


@spec
def ub(pt: "bytes", a: "int", n: "int") -> "int":
    """unsigned big-endian integer of the n bytes at offset a"""
    return int.from_bytes(pt[a:a + n], "big")


@spec
def bm_parse(pt: "bytes", magic: "int", size: "int", aes_rand: "bytes", ansi_cp: "int", oem_cp: "int", bid: "int",
             pid: "int", port: "int", flag: "int", ver_major: "int", ver_minor: "int", ver_build: "int",
             ptr_x64: "int", ptr_gmh: "int", ptr_gpa: "int", ip: "int", info: "bytes") -> "bool":
    """the fields are exactly what the documented layout says about the plaintext pt"""
    return (len(pt) >= 59 + max(size - 51, 0)
            and magic == ub(pt, 0, 4) and size == ub(pt, 4, 4) and aes_rand == pt[8:24]
            and ansi_cp == ub(pt, 24, 2) and oem_cp == ub(pt, 26, 2) and bid == ub(pt, 28, 4) and pid == ub(pt, 32, 4)
            and port == ub(pt, 36, 2) and flag == ub(pt, 38, 1) and ver_major == ub(pt, 39, 1)
            and ver_minor == ub(pt, 40, 1) and ver_build == ub(pt, 41, 2) and ptr_x64 == ub(pt, 43, 4)
            and ptr_gmh == ub(pt, 47, 4) and ptr_gpa == ub(pt, 51, 4) and ip == ub(pt, 55, 4)
            and info == pt[59:59 + max(size - 51, 0)])
