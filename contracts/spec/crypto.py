"""Spec functions for packet encryption / framing (C05, C06, C07)."""
from pyvc.rt import spec, specfn, forall, exists, implies, ite


@spec
def pad_A(d: "bytes") -> "bytes":
    """Cobalt Strike padding: 1..16 bytes of 'A' up to the next multiple of 16"""
    return d + b"A" * (16 - len(d) % 16)


@spec
def frame(ct: "bytes", sig: "bytes") -> "bytes":
    """callback framing: big-endian length prefix, ciphertext, signature"""
    return int.to_bytes(len(ct) + len(sig), 4, "big") + ct + sig


@spec
def concat_frames(pkts: "list[tuple[bytes,bytes]]", k: "int") -> "bytes":
    """concatenation of the frames of the packets k, k+1, ..."""
    if k >= len(pkts):
        return b""
    return frame(pkts[k][0], pkts[k][1]) + concat_frames(pkts, k + 1)
