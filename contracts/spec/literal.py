"""Spec: decoding of a profile STRING literal body (C12), written from the documented escape table:
\\xHH and \\uHHHH (low byte) -> the byte, \\n \\r \\t \\\\ \\" \\' -> LF CR TAB backslash quote apostrophe, any other
backslash pair is dropped, a lone trailing backslash and every other character stand for their (low) byte."""
from pyvc.rt import spec, specfn, forall, exists, implies, ite


@spec
def esc_byte(c: "int") -> "int":
    """byte denoted by the one-character escape \\c (-1: not a one-character escape)"""
    return (10 if c == 110 else 13 if c == 114 else 9 if c == 116 else 92 if c == 92 else 34 if c == 34 else 39 if c == 39 else -1)


@spec
def lit_dec(s: "clist", i: "int") -> "ilist":
    """the byte values denoted by the characters of s from position i on"""
    if i >= len(s):
        return []
    if ord(s[i]) == 92 and i + 1 < len(s):
        if ord(s[i + 1]) == 117:
            return [int16("".join(s[i + 4:i + 6]))] + lit_dec(s, i + 6)
        if ord(s[i + 1]) == 120:
            return [int16("".join(s[i + 2:i + 4]))] + lit_dec(s, i + 4)
        if esc_byte(ord(s[i + 1])) >= 0:
            return [esc_byte(ord(s[i + 1]))] + lit_dec(s, i + 2)
        return lit_dec(s, i + 2)
    return [ord(s[i])] + lit_dec(s, i + 1)
