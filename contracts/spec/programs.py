"""Spec: Cobalt Strike's binary encodings of recover / transform programs (C03, C04, C13), written from the format:
a program is a sequence of big-endian dwords - an opcode, followed for some opcodes by a dword argument or a
length-prefixed byte string; it ends at the end of the data or at a zero opcode.
Opcodes: APPEND 1, PREPEND 2, BASE64 3, PRINT 4, PARAMETER 5, HEADER 6, BUILD 7, NETBIOS 8, _PARAMETER 9, _HEADER 10,
NETBIOSU 11, URI_APPEND 12, BASE64URL 13, STRREP 14, MASK 15, _HOSTHEADER 16."""
from pyvc.rt import spec, specfn, forall, exists, implies, ite


@spec
def u32b(v: "int") -> "bytes":
    return int.to_bytes(v, 4, "big")


@spec
def rstep_ok(name: "str", val: "any") -> "bool":
    """a well-formed recover step: append/prepend carry a length, the other six are flags"""
    return ((name == "append" or name == "prepend") and is_int(val) and 0 <= as_int(val) and as_int(val) < 4294967296) or \
        ((name == "base64" or name == "print" or name == "netbios" or name == "netbiosu" or name == "base64url"
          or name == "mask") and is_true(val))


@spec
def rstep_code(name: "str") -> "int":
    return (1 if name == "append" else 2 if name == "prepend" else 3 if name == "base64" else 4 if name == "print"
            else 8 if name == "netbios" else 11 if name == "netbiosu" else 13 if name == "base64url" else 15)


@spec
def enc_rstep(name: "str", val: "any") -> "bytes":
    return u32b(rstep_code(name)) + (u32b(as_int(val)) if name == "append" or name == "prepend" else b"")


@spec
def enc_recover(steps: "list[tuple[str,any]]", k: "int") -> "bytes":
    """encoding of the steps k, k+1, ..."""
    if k >= len(steps):
        return b""
    return enc_rstep(steps[k][0], steps[k][1]) + enc_recover(steps, k + 1)


@spec
def tstep_code(name: "str") -> "int":
    """opcode of a transform step name (0 for anything that is not a transform step name)"""
    return (1 if name == "APPEND" else 2 if name == "PREPEND" else 3 if name == "BASE64" else 4 if name == "PRINT"
            else 5 if name == "PARAMETER" else 6 if name == "HEADER" else 7 if name == "BUILD" else 8 if name == "NETBIOS"
            else 9 if name == "_PARAMETER" else 10 if name == "_HEADER" else 11 if name == "NETBIOSU"
            else 12 if name == "URI_APPEND" else 13 if name == "BASE64URL" else 15 if name == "MASK"
            else 16 if name == "_HOSTHEADER" else 0)


@spec
def tstep_kind(name: "str") -> "int":
    """1: flag step, 2: step with a byte-string argument, 3: BUILD, 0: not a step the parser understands"""
    return (3 if name == "BUILD" else
            1 if (name == "BASE64" or name == "BASE64URL" or name == "NETBIOS" or name == "NETBIOSU" or name == "URI_APPEND"
                  or name == "PRINT" or name == "MASK") else
            2 if (name == "_HEADER" or name == "HEADER" or name == "PARAMETER" or name == "_PARAMETER" or name == "_HOSTHEADER"
                  or name == "APPEND" or name == "PREPEND") else 0)


@spec
def tstep_ok(name: "str", val: "any", build: "str") -> "bool":
    return (tstep_kind(name) == 1 and is_true(val)) or \
        (tstep_kind(name) == 2 and is_bytes(val) and len(as_bytes(val)) < 4294967296) or \
        (tstep_kind(name) == 3 and is_str(val) and (as_str(val) == build or as_str(val) == "output"))


@spec
def enc_tstep(name: "str", val: "any") -> "bytes":
    return u32b(tstep_code(name)) + (
        (u32b(len(as_bytes(val))) + as_bytes(val)) if tstep_kind(name) == 2
        else u32b(1 if as_str(val) == "output" else 0) if tstep_kind(name) == 3 else b"")


@spec
def enc_transform(steps: "list[tuple[str,any]]", k: "int") -> "bytes":
    if k >= len(steps):
        return b""
    return enc_tstep(steps[k][0], steps[k][1]) + enc_transform(steps, k + 1)


@spec
def tval_eq(a: "any", b: "any") -> "bool":
    """equality of step arguments (flag / byte string / build name)"""
    return (is_true(a) and is_true(b)) or (is_bytes(a) and is_bytes(b) and as_bytes(a) == as_bytes(b)) or \
        (is_str(a) and is_str(b) and as_str(a) == as_str(b))
