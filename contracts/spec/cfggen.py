"""Generator of complete, realistic HTTP(S) beacon configuration blocks for the bounded components (C01, C07, C13, C14, C19).
Written from the configuration format (TLV settings, binary recover / transform programs); uses nothing from the library
under test.  All randomness comes from the `rng` passed in."""
import os

HERE = os.path.dirname(os.path.abspath(__file__))

T_SHORT, T_INT, T_PTR = 1, 2, 3
OPC = {"append": 1, "prepend": 2, "base64": 3, "print": 4, "parameter": 5, "header": 6, "build": 7, "netbios": 8,
       "_parameter": 9, "_header": 10, "netbiosu": 11, "uri_append": 12, "base64url": 13, "mask": 15, "_hostheader": 16}


def u16(v):
    return v.to_bytes(2, "big")


def u32(v):
    return v.to_bytes(4, "big")


def setting(idx, ty, val, size=None):
    if ty == T_SHORT:
        val = u16(val)
    elif ty == T_INT:
        val = u32(val)
    elif size is not None:
        val = val + b"\x00" * (size - len(val))
    return u16(idx) + u16(ty) + u16(len(val)) + val


def enc_transform_program(steps):
    """steps: [(name, arg)] in transform order; arg: bytes for steps with an argument, 'metadata'|'id'|'output' for build"""
    out = b""
    for name, arg in steps:
        k = name.lower()
        out += u32(OPC[k])
        if k == "build":
            out += u32(1 if arg == "output" else 0)
        elif k in ("append", "prepend", "parameter", "header", "_parameter", "_header", "_hostheader"):
            out += u32(len(arg)) + arg
    return out + u32(0)


def enc_recover_program(steps):
    """steps in RECOVERY order: [(name, arg)], arg = number of bytes for append/prepend"""
    out = b""
    for name, arg in steps:
        out += u32(OPC[name.lower()])
        if name.lower() in ("append", "prepend"):
            out += u32(arg)
    return out + u32(0)


def test_keypair(bits=1024):
    from Crypto.PublicKey import RSA
    return RSA.import_key(open(os.path.join(HERE, f"test_rsa_{bits}.pem")).read())


ENCODERS = ["append", "prepend", "base64", "base64url", "netbios", "netbiosu", "mask"]


def rand_encoders(rng, lo=0, hi=4, textual=False):
    out = []
    for _ in range(rng.randrange(lo, hi + 1)):
        e = rng.choice(ENCODERS)
        if e in ("append", "prepend"):
            arg = bytes(rng.choice(b"abcXYZ019-_=;") for _ in range(rng.randrange(0, 6)))
            if rng.random() < 0.15:
                # text outside ASCII (UTF-8): "donn\u00e9es=", "\u00fc"
                arg = rng.choice(["donn\u00e9es=", "\u00fc", "cl\u00e9", "\u20ac1"]).encode("utf-8") + arg
            out.append((e, arg))
        else:
            out.append((e, True))
    if textual:
        # a placement in a header / parameter must be printable: the last encoder that rewrites the whole data is a textual one
        last = [e for e, _ in out if e not in ("append", "prepend")]
        if not last or last[-1] == "mask":
            out.append((rng.choice(["base64url", "netbios", "netbiosu", "base64"]), True))
    return out


def gen_profile(rng):
    """a random valid http-get / http-post / server profile as three step lists in transform order"""
    get_term = rng.choice([("header", b"Cookie"), ("parameter", b"sid"), ("print", True), ("header", b"X-Session"),
                           ("header", b"X-CSRF-Token"), ("header", b"ETag"), ("header", b"x-trace"), ("parameter", b"SID_v2"),
                           ("parameter", "cl\u00e9".encode("utf-8"))])
    get = []
    if rng.random() < 0.6:
        get.append(("_header", rng.choice([b"Accept: */*", b"Accept-Language: en-US", b"Referer: http://code.example/"])))
    if rng.random() < 0.3:
        get.append(("_parameter", rng.choice([b"v=1", b"lang=en"])))
    if rng.random() < 0.3:
        get.append(("_hostheader", b"Host: cdn.example"))
    get += [("build", "metadata")] + rand_encoders(rng, textual=get_term[0] != "print") + [get_term]
    id_term = rng.choice([("parameter", b"id"), ("header", b"X-Id"), ("header", b"CF-RAY"), ("header", b"x-req-id"), ("parameter", b"Req.ID"),
                          ("parameter", "n\u00b0".encode("utf-8"))])
    out_term = ("print", True)
    post = []
    if rng.random() < 0.5:
        post.append(("_header", b"Content-Type: application/octet-stream"))
    post += [("build", "id")] + rand_encoders(rng, textual=True) + [id_term]
    post += [("build", "output")] + rand_encoders(rng) + [out_term]
    server = rand_encoders(rng) + [("print", True)]          # transform order without the implicit build
    return get, post, server


def server_recover_list(server):
    """the recover program of the server transform: reversed, prepend/append carry lengths"""
    out = []
    for name, arg in reversed(server):
        out.append((name, len(arg)) if name in ("append", "prepend") else (name, True))
    return out


def config_block(rng, profile=None, https=None, trial=False, domains=None, jitter=None, sleeptime=None, key_bits=1024,
                 extra=(), verbs=(b"GET", b"POST"), submit=None):
    """-> (config block bytes, description dict)"""
    get, post, server = profile or gen_profile(rng)
    https = rng.random() < 0.5 if https is None else https
    key = test_keypair(key_bits)
    der = key.publickey().export_key("DER")
    domains = domains or rng.choice(["c2.example,/api/v1", "a.example,/load,b.example,/fetch", "10.0.0.5,/ca,10.0.0.6,/cx,10.0.0.7,/cm"])
    ua = rng.choice(["Mozilla/5.0 (Windows NT 10.0; Win64; x64)", "curl/8.0", "Mozilla/4.0 (compatible; MSIE 8.0)"])
    submit = submit or rng.choice(["/submit.php", "/api/v1/push", "/s"])
    jitter = rng.choice([0, 10, 37, 100]) if jitter is None else jitter
    sleeptime = rng.choice([1000, 60000, 5000]) if sleeptime is None else sleeptime
    port = 443 if https else 80
    s = [
        setting(1, T_SHORT, (8 if https else 0) | 0),
        setting(2, T_SHORT, port),
        setting(3, T_INT, sleeptime),
        setting(4, T_INT, 1048576),
        setting(5, T_SHORT, jitter),
        setting(7, T_PTR, der, 256),
        setting(8, T_PTR, domains.encode(), 256),
        setting(9, T_PTR, ua.encode(), 128),
        setting(10, T_PTR, submit.encode(), 64),
        setting(11, T_PTR, enc_recover_program(server_recover_list(server)), 256),
        setting(12, T_PTR, enc_transform_program(get), 512),
        setting(13, T_PTR, enc_transform_program(post), 512),
        setting(26, T_PTR, verbs[0], 16),
        setting(27, T_PTR, verbs[1], 16),
        setting(28, T_INT, 96),
        setting(29, T_PTR, b"%windir%\\syswow64\\rundll32.exe", 64),
        setting(30, T_PTR, b"%windir%\\sysnative\\rundll32.exe", 64),
        setting(31, T_SHORT, 0),
        setting(37, T_INT, 0 if trial else rng.choice([305419896, 1359593325, 1])),
        setting(38, T_SHORT, 0),
        setting(39, T_SHORT, 0),
        setting(40, T_INT, rng.choice([0, 20301231])),
        setting(50, T_SHORT, 1),
        setting(54, T_PTR, rng.choice([b"", b"Host: front.example\r\n"]), 128),
    ]
    for e in extra:
        s.append(e)
    block = b"".join(s) + u16(0)
    desc = {"get": get, "post": post, "server": server, "https": https, "domains": domains, "user_agent": ua, "submit_uri": submit,
            "jitter": jitter, "sleeptime": sleeptime, "port": port, "trial": trial, "key_bits": key_bits, "verbs": verbs}
    return block, desc
