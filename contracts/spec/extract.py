"""Spec: beacon configuration extraction (C01), written from the property statement: the configuration block starts with
the protocol setting header 00 01 00 01 00 02 00, obfuscated with a single-byte XOR key; keys are tried in list order,
positions in file order; a block is the 4096 bytes from the header on (clamped at the end of the data), un-XORed."""
from pyvc.rt import spec, specfn, forall, exists, implies, ite


@spec
def cfg_needle(k: "bytes") -> "bytes":
    return xor(b"\x00\x01\x00\x01\x00\x02\x00", k)


@spec
def cfg_hits(F: "bytes", k: "bytes") -> "ilist":
    """ascending offsets at which the obfuscated header occurs"""
    return all_occ(F, cfg_needle(k), 0, len(F) - 6)


@spec
def cfg_block(F: "bytes", k: "bytes") -> "bytes":
    """the de-obfuscated block at the first occurrence"""
    return xor(F[cfg_hits(F, k)[0]:cfg_hits(F, k)[0] + 4096], k)


@spec
def no_hit_before(F: "bytes", keys: "list[bytes]", n: "int") -> "bool":
    """none of the first n keys has an occurrence of its obfuscated header in F"""
    return forall(lambda j: len(cfg_hits(F, keys[j])) == 0, 0, n)


@specfn
def picks(F: "bytes", keys: "list[bytes]", j: "int", blk: "bytes") -> "bool":
    """key number j is the first key (in list order) with an occurrence and blk is the block at its first occurrence"""
    return 0 <= j and j < len(keys) and no_hit_before(F, keys, j) and len(cfg_hits(F, keys[j])) > 0 and blk == cfg_block(F, keys[j])


@spec
def no_xor_view(E: "bytes", maxrange: "int") -> "bool":
    """no candidate nonce offset within the search range decodes to something with a PE header:
    XorEncodedFile.from_file raises ValueError"""
    return forall(lambda c: implies(nonce_cand(E, c, len(E)) and c < maxrange, not xok(E, c)), 0, len(E) + 1) \
        and forall(lambda o: implies(occ(E, b"\xff\xff\xff", o) and o + 3 <= maxrange, not xok(E, o + 3)), 0, len(E) + 1)


@specfn
def view_without_hits(E: "bytes", off: "int", keys: "list[bytes]") -> "bool":
    """off is a usable nonce offset of the XorEncoded container E and its decoded view has no occurrence under any key"""
    return xcandidate(E, off) and xok(E, off) and no_hit_before(xview(E, off), keys, len(keys))
