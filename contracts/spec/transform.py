"""Spec: Malleable C2 HTTP data transforms (C04), written from the Malleable C2 definition.

A program is a list of (name, argument) steps executed left to right on a byte string `data` that starts empty:
  build X      data := the X member of the C2 data (output | id | metadata)
  append s     data := data + s              prepend s    data := s + data
  base64       data := RFC 4648 base64       base64url    data := RFC 4648 url-safe base64
  netbios      data := NetBIOS nibble encoding on 'a'      netbiosu    ... on 'A'
  mask         data := key + (data XOR key), key = 4 random bytes
  print | header h | parameter p | uri_append          termination: store data in body / header / parameter / URI
  _header "K: v" | _hostheader "K: v" | _parameter "k=v"    static decorations
Recovery runs the reversed program with the inverse of every step.
The placement in the header / parameter dictionaries is specified through the list of insertions in order."""
from pyvc.rt import spec, specfn, forall, exists, implies, ite


@spec
def u32be_bytes(v: "int") -> "bytes":
    return int.to_bytes(v, 4, "big")


@spec
def step_arg(v: "any") -> "bytes":
    """prepend/append argument: the byte string itself, or n filler bytes for a bare length n"""
    return (b"X" * as_int(v)) if is_int(v) else as_bytes(v)


@spec
def t_known(k: "str") -> "bool":
    return (k == "append" or k == "prepend" or k == "base64" or k == "base64url" or k == "netbios" or k == "netbiosu"
            or k == "mask" or k == "print" or k == "header" or k == "_header" or k == "_hostheader" or k == "uri_append"
            or k == "parameter" or k == "_parameter" or k == "build")


@spec
def t_arg_ok(k: "str", v: "any") -> "bool":
    """argument types of a transform step: byte string (or a length for prepend/append)"""
    return (implies(k == "append" or k == "prepend", is_int(v) or is_bytes(v))
            and implies(k == "header" or k == "_header" or k == "_hostheader" or k == "parameter" or k == "_parameter",
                        is_bytes(v)))


@spec
def t_steps_ok(steps: "list[tuple[str,any]]") -> "bool":
    return forall(lambda j: t_arg_ok(steps[j][0].lower(), steps[j][1]), 0, len(steps))


@spec
def t_cnt(steps: "list[tuple[str,any]]", n: "int") -> "int":
    """number of mask steps among the first n steps"""
    if n <= 0:
        return 0
    return t_cnt(steps, n - 1) + (1 if steps[n - 1][0].lower() == "mask" else 0)


@spec
def t_step(k: "str", v: "any", d: "bytes", bo: "bytes", bi: "bytes", bm: "bytes", r: "int") -> "bytes":
    """data after one step (r: the random dword of a mask step)"""
    return (d + step_arg(v) if k == "append" else
            step_arg(v) + d if k == "prepend" else
            b64e(d) if k == "base64" else
            b64ue(d) if k == "base64url" else
            netbios_encode(d, 65).lower() if k == "netbios" else
            netbios_encode(d, 65).upper() if k == "netbiosu" else
            u32be_bytes(r) + xor(d, u32be_bytes(r)) if k == "mask" else
            (bo if v == "output" else bi if v == "id" else bm if v == "metadata" else d) if k == "build" else
            d)


@spec
def t_data(steps: "list[tuple[str,any]]", n: "int", bo: "bytes", bi: "bytes", bm: "bytes", c0: "int") -> "bytes":
    """the data after the first n steps; mask steps draw rng(c0), rng(c0 + 1), ..."""
    if n <= 0:
        return b""
    return t_step(steps[n - 1][0].lower(), steps[n - 1][1], t_data(steps, n - 1, bo, bi, bm, c0), bo, bi, bm,
                  rng(c0 + t_cnt(steps, n - 1)))


@spec
def t_body(steps: "list[tuple[str,any]]", n: "int", bo: "bytes", bi: "bytes", bm: "bytes", c0: "int", body0: "bytes") -> "bytes":
    """body: the data at the last print step (the initial body if there is none)"""
    if n <= 0:
        return body0
    return t_data(steps, n - 1, bo, bi, bm, c0) if steps[n - 1][0].lower() == "print" else t_body(steps, n - 1, bo, bi, bm, c0, body0)


@spec
def t_uri(steps: "list[tuple[str,any]]", n: "int", bo: "bytes", bi: "bytes", bm: "bytes", c0: "int", uri0: "bytes") -> "bytes":
    """URI: the initial URI followed by the data at each uri_append step"""
    if n <= 0:
        return uri0
    return t_uri(steps, n - 1, bo, bi, bm, c0, uri0) + (
        t_data(steps, n - 1, bo, bi, bm, c0) if steps[n - 1][0].lower() == "uri_append" else b"")


@spec
def cut_key(s: "bytes", sep: "bytes") -> "bytes":
    return s if s.find(sep) == -1 else s[:s.find(sep)]


@spec
def cut_val(s: "bytes", sep: "bytes") -> "bytes":
    return b"" if s.find(sep) == -1 else s[s.find(sep) + len(sep):]


@spec
def t_hlog(steps: "list[tuple[str,any]]", n: "int", bo: "bytes", bi: "bytes", bm: "bytes", c0: "int") -> "list[tuple[bytes,bytes]]":
    """header insertions in order: (h, data) for `header h`; (K, v) for the static `_header "K: v"` / `_hostheader`"""
    if n <= 0:
        return []
    return t_hlog(steps, n - 1, bo, bi, bm, c0) + (
        [(as_bytes(steps[n - 1][1]), t_data(steps, n - 1, bo, bi, bm, c0))] if steps[n - 1][0].lower() == "header" else
        [(cut_key(as_bytes(steps[n - 1][1]), b": "), cut_val(as_bytes(steps[n - 1][1]), b": "))]
        if (steps[n - 1][0].lower() == "_header" or steps[n - 1][0].lower() == "_hostheader") else [])


@spec
def t_plog(steps: "list[tuple[str,any]]", n: "int", bo: "bytes", bi: "bytes", bm: "bytes", c0: "int") -> "list[tuple[bytes,bytes]]":
    """parameter insertions in order: (p, data) for `parameter p`; (k, v) for the static `_parameter "k=v"`"""
    if n <= 0:
        return []
    return t_plog(steps, n - 1, bo, bi, bm, c0) + (
        [(as_bytes(steps[n - 1][1]), t_data(steps, n - 1, bo, bi, bm, c0))] if steps[n - 1][0].lower() == "parameter" else
        [(cut_key(as_bytes(steps[n - 1][1]), b"="), cut_val(as_bytes(steps[n - 1][1]), b"="))]
        if steps[n - 1][0].lower() == "_parameter" else [])


# ------------------------------------------------------------------------------------------------ recovery

@spec
def r_len(v: "any") -> "int":
    """number of bytes a prepend/append step added: the length of its byte string, or the bare length"""
    return len(as_bytes(v)) if is_bytes(v) else as_int(v)


@spec
def r_known(k: "str") -> "bool":
    return (k == "append" or k == "prepend" or k == "base64" or k == "base64url" or k == "netbios" or k == "netbiosu"
            or k == "mask" or k == "print" or k == "header" or k == "_header" or k == "_hostheader" or k == "uri_append"
            or k == "parameter" or k == "_parameter" or k == "build")


@spec
def r_arg_ok(k: "str", v: "any") -> "bool":
    return (implies(k == "append" or k == "prepend", is_int(v) or is_bytes(v))
            and implies(k == "header" or k == "parameter", is_bytes(v)))


@spec
def r_steps_ok(steps: "list[tuple[str,any]]") -> "bool":
    return forall(lambda j: r_arg_ok(steps[j][0].lower(), steps[j][1]), 0, len(steps))


@spec
def r_fetches(k: "str") -> "bool":
    """termination steps: recovery starts from the stored data"""
    return k == "print" or k == "header" or k == "parameter" or k == "uri_append"


@spec
def r_step(k: "str", v: "any", d: "bytes", f: "bytes") -> "bytes":
    """data after undoing one step (f: what a termination step finds in the message)"""
    return (d[:max(len(d) - r_len(v), 0)] if k == "append" else
            d[r_len(v):] if k == "prepend" else
            b64d(d + b"==") if k == "base64" else
            b64ud(d + b"==") if k == "base64url" else
            netbios_decode(d.upper(), 65) if k == "netbios" else
            netbios_decode(d, 65) if k == "netbiosu" else
            xor(d[4:], d[:4]) if k == "mask" else
            f if r_fetches(k) else
            d)


@spec
def r_data(steps: "list[tuple[str,any]]", n: "int", F: "list[bytes]") -> "bytes":
    """data after undoing the first n steps of the (already reversed) program; F[j]: the stored data step j finds"""
    if n <= 0:
        return b""
    return r_step(steps[n - 1][0].lower(), steps[n - 1][1], r_data(steps, n - 1, F), F[n - 1])


@spec
def r_has(steps: "list[tuple[str,any]]", n: "int", what: "str") -> "bool":
    """a `build what` step occurs among the first n steps"""
    if n <= 0:
        return False
    return (steps[n - 1][0].lower() == "build" and steps[n - 1][1] == what) or r_has(steps, n - 1, what)


@spec
def r_build(steps: "list[tuple[str,any]]", n: "int", F: "list[bytes]", what: "str") -> "bytes":
    """the data at the last `build what` step among the first n steps"""
    if n <= 0:
        return b""
    return r_data(steps, n - 1, F) if (steps[n - 1][0].lower() == "build" and steps[n - 1][1] == what) \
        else r_build(steps, n - 1, F, what)


# ------------------------------------------------------------------------------------------------ inversion

@spec
def is_encoder(k: "str") -> "bool":
    """the seven data encoders"""
    return (k == "append" or k == "prepend" or k == "base64" or k == "base64url" or k == "netbios" or k == "netbiosu"
            or k == "mask")


@spec
def is_static(k: "str") -> "bool":
    """static decorations: they do not touch the data"""
    return k == "_header" or k == "_hostheader" or k == "_parameter"


@spec
def enc_arg_ok(k: "str", v: "any") -> "bool":
    """prepend/append carry a byte string or a non-negative length"""
    return implies(k == "append" or k == "prepend", is_bytes(v) or (is_int(v) and as_int(v) >= 0))


@spec
def member(what: "str", bo: "bytes", bi: "bytes", bm: "bytes") -> "bytes":
    return bo if what == "output" else bi if what == "id" else bm
