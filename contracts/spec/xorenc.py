"""Spec of the XorEncoded container (C09): rolling 4-byte XOR, size dword skipped.
Layout at offset off:  | nonce (4) | encoded size (4) | encoded payload ... |"""
from pyvc.rt import spec, specfn, forall, exists, implies, ite, bxor


@specfn
def xkey_at(E: "bytes", off: "int", i: "int") -> "int":
    """key byte for plaintext position i: the initial nonce for the first four bytes, afterwards the
    encoded byte four positions earlier"""
    return E[off + i] if i < 4 else E[off + 4 + i]


@specfn
def xplain_at(E: "bytes", off: "int", i: "int") -> "int":
    """plaintext byte i of the container at offset off"""
    return bxor(E[off + 8 + i], xkey_at(E, off, i))


@spec
def xplen(E: "bytes", off: "int") -> "int":
    return max(len(E) - (off + 8), 0)


@spec
def xf_wf(E: "bytes", off: "int", nonce: "bytes") -> "bool":
    """well-formed XorEncodedFile: the (possibly truncated) nonce is cached"""
    return (0 <= off and len(nonce) == min(4, max(len(E) - off, 0))
            and forall(lambda t: nonce[t] == E[off + t], 0, len(nonce)))


@spec
def xf_inv(E: "bytes", off: "int", nonce: "bytes", pos: "int") -> "bool":
    """representation invariant of XorEncodedFile: well formed, logical position not negative"""
    return xf_wf(E, off, nonce) and off + 8 <= pos


@specfn
def xsize(E: "bytes", i: "int") -> "int":
    """size field decoded with the candidate nonce at offset i (little endian)"""
    return (bxor(E[i], E[i + 4]) + 256 * bxor(E[i + 1], E[i + 5]) + 65536 * bxor(E[i + 2], E[i + 6])
            + 16777216 * bxor(E[i + 3], E[i + 7]))


@specfn
def nonce_cand(E: "bytes", i: "int", rs: "int") -> "bool":
    """offset i is a nonce candidate: the decoded size field accounts for exactly the rest of the file"""
    return 0 <= i and i + 8 <= len(E) and xsize(E, i) + i + 8 == rs


@spec
def nonce_offs_upto(E: "bytes", rs: "int", hi: "int") -> "ilist":
    """ascending list of the candidates below hi"""
    if hi <= 0:
        return []
    return nonce_offs_upto(E, rs, hi - 1) + ([hi - 1] if nonce_cand(E, hi - 1, rs) else [])


@specfn
def xok(E: "bytes", c: "int") -> "bool":
    """the decoded view at nonce offset c starts (within 1024 bytes) with a valid PE header pair"""
    return first_mz(xview(E, c), 0, 1024, 1024) != -1


@spec
def xcandidate(E: "bytes", c: "int") -> "bool":
    """c is a nonce-offset candidate: the size relation holds, or it follows an end-of-stub marker ff ff ff"""
    return nonce_cand(E, c, len(E)) or occ(E, b"\xff\xff\xff", c - 3)
