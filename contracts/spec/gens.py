"""Small-scope input generators for the concrete contract runner (JSON-able descriptions).
Not translated to SMT; used only by pyvc.rt_runner for replay search and bounded stand-ins."""


def _b(x):
    return {"bytes": list(x)}


def minimal_beacon_payload(key=0x2e):
    block = bytes.fromhex("0001000100020008") + bytes.fromhex("000200010002 0050".replace(" ", "")) + b"\x00" * 16
    return bytes(c ^ key for c in block)


def gen_http_responses():
    out = []
    payload = minimal_beacon_payload()
    uris = [b"/aaa9", b"/aab9", b"/aaa0\n", b"/pendants", b"/oOo0", b"/oO/o0", b"/x", b"", b"/aaa\xff9",
            b"/" + b"a" * 50]
    for body in (payload, b"nothing"):
        out.append({"record": "HttpResponse", "module": "dissect.cobaltstrike.c2",
                    "fields": {"status": {"int": 200}, "headers": {"py": "{}"}, "reason": _b(b"OK"), "body": _b(body),
                               "request": {"none": True}}})
        for u in uris:
            req = {"record": "HttpRequest", "module": "dissect.cobaltstrike.c2",
                   "fields": {"method": _b(b"GET"), "uri": _b(u), "params": {"py": "{}"}, "headers": {"py": "{}"},
                              "body": _b(b"")}}
            out.append({"record": "HttpResponse", "module": "dissect.cobaltstrike.c2",
                        "fields": {"status": {"int": 200}, "headers": {"py": "{}"}, "reason": _b(b"OK"),
                                   "body": _b(body), "request": req}})
    return out


def _rec(cls, **fields):
    return {"record": cls, "module": "dissect.cobaltstrike.c2", "fields": fields}


def _optb(x):
    return {"none": True} if x is None else _b(x)


def gen_enc_packets():
    out = []
    for ct in (b"", b"\x01" * 16, bytes(range(32)), b"\x07" * 5):
        for sig in (b"", b"\x02" * 16, b"\x03" * 4):
            out.append(_rec("EncryptedPacket", ciphertext=_b(ct), signature=_b(sig)))
    return out


def gen_signed_packets():
    """packets with a correct, a wrong and a truncated signature for key K"""
    import hmac
    out = []
    for key in (b"k" * 16, b"z" * 16):
        for ct in (b"\x01" * 16, bytes(range(32)), b""):
            good = hmac.new(key, ct, "sha256").digest()[:16]
            for sig in (good, good[:-1] + bytes([good[-1] ^ 1]), good[:8], b""):
                out.append(_rec("EncryptedPacket", ciphertext=_b(ct), signature=_b(sig)))
    return out


def gen_server_c2data():
    return [_rec("ServerC2Data", output=_optb(o), metadata=_optb(None), id=_optb(None))
            for o in (None, b"", b"\x01" * 16, b"\x01" * 15, bytes(range(48)), b"abc")]


def gen_client_cases():
    """joint cases for ClientC2Data.iter_encrypted_packets: ghost list pkts and the stream built from it"""
    out = []
    lists = [[], [(b"", b"s" * 16)], [(b"\x01" * 16, b"s" * 16), (b"\x02" * 32, b"t" * 16)],
             [(b"\x05" * 16, b"u" * 16)] * 3, [(b"\x00\x00\x00\x14" + b"x" * 12, b"v" * 16), (b"", b"w" * 16)]]
    for pk in lists:
        stream = b"".join((len(c) + len(s)).to_bytes(4, "big") + c + s for c, s in pk)
        out.append({"self": _rec("ClientC2Data", output=_optb(stream), metadata=_optb(None), id=_optb(None)),
                    "pkts": {"list": [{"tuple": [_b(c), _b(s)]} for c, s in pk]}})
    return out


def _rsa(bits=1024):
    import os
    from Crypto.PublicKey import RSA
    here = os.path.dirname(os.path.abspath(globals().get("__file__", "/verif/contracts/spec/gens.py")))
    return RSA.import_key(open(os.path.join("/verif/contracts/spec", f"test_rsa_{bits}.pem"), "rb").read())


def _pkcs1_encrypt_deterministic(pub, msg, seed=1):
    """PKCS#1 v1.5 type 2 encryption with a deterministic non-zero padding string (test vectors)"""
    import random
    k = pub.size_in_bytes()
    rnd = random.Random(seed)
    ps = bytes(rnd.randrange(1, 256) for _ in range(k - len(msg) - 3))
    em = b"\x00\x02" + ps + b"\x00" + msg
    return pow(int.from_bytes(em, "big"), pub.e, pub.n).to_bytes(k, "big")


def gen_decrypt_metadata_cases():
    out = []
    for bits in (1024,):
        priv = _rsa(bits)
        pub = priv.publickey()
        k = pub.size_in_bytes()
        fixed = bytes.fromhex("0000beef") + (51 + 5).to_bytes(4, "big") + bytes(range(16)) + bytes(35)
        msgs = [fixed + b"hello", fixed[:59], b"abc", b"", bytes(59), fixed + b"he",
                bytes.fromhex("0000beef") + (51 + 40).to_bytes(4, "big") + bytes(51) + b"short"]
        blobs = [_pkcs1_encrypt_deterministic(pub, m) for m in msgs]
        blobs += [bytes(k), b"\x01" * (k - 1), b"\xff" * k, b""]
        for b_ in blobs:
            out.append({"encrypted_metadata": _b(b_), "private_key": {"rsa_key": bits}})
    return out


def xorencode(plain, nonce=b"\x11\x22\x33\x44", stub=b""):
    """reference XorEncoded container: stub | nonce | size ^ nonce | rolling-xor payload"""
    out = bytearray(stub + nonce + bytes(a ^ b for a, b in zip(len(plain).to_bytes(4, "little"), nonce)))
    key = bytearray(nonce)
    for i, c in enumerate(plain):
        e = c ^ key[i % 4]
        out.append(e)
        key[i % 4] = e
    return bytes(out)


def xf(E, off, rawpos):
    """XorEncodedFile over io.BytesIO(E) at nonce offset off with the raw position set to rawpos"""
    import io
    from dissect.cobaltstrike.xordecode import XorEncodedFile
    f = XorEncodedFile(io.BytesIO(E), off)
    f.fh.seek(rawpos)
    return f


def gen_xf_objects():
    out = []
    for plain in (b"", b"A", b"MZ\x90", b"MZ\x90\x00\x03", b"0123456789", bytes(range(13))):
        for stub in (b"", b"\xeb\xfe\xff"):
            E = xorencode(plain, stub=stub)
            off = len(stub)
            for lpos in list(range(0, len(plain) + 1)) + [len(plain) + 3, len(plain) + 50]:
                out.append({"py": f"xf({E!r}, {off}, {off + 8 + lpos})"})
    out.append({"py": "xf(b'\\x01\\x02\\x03', 0, 8)"})       # truncated header
    out.append({"py": "xf(b'\\x01\\x02\\x03\\x04\\x05\\x06', 1, 9)"})
    return out


def mini_pe(machine=0x8664, e_lfanew=0x40, stamp=0x5f94c216, nsections=1, export_rva=0x1000, export_stamp=0x5fa0b201,
            opt_magic=None, append=b"", mzmagic=b"MZ"):
    """a minimal PE image: DOS header, PE signature, COFF header, optional header (x86/x64), one section
    holding an export directory"""
    is64 = machine == 0x8664
    dos = bytearray(64)
    dos[0:2] = mzmagic
    dos[60:64] = e_lfanew.to_bytes(4, "little", signed=True)
    pad = b"\x00" * max(0, e_lfanew - 64)
    opt_size = 240 if is64 else 224
    coff = machine.to_bytes(2, "little") + nsections.to_bytes(2, "little") + stamp.to_bytes(4, "little") + bytes(8) + \
        opt_size.to_bytes(2, "little") + bytes(2)
    opt = bytearray(opt_size)
    opt[0:2] = ((0x20b if is64 else 0x10b) if opt_magic is None else opt_magic).to_bytes(2, "little")
    hdr_size = e_lfanew + 4 + 20 + opt_size + 40 * nsections
    opt[60:64] = hdr_size.to_bytes(4, "little")          # SizeOfHeaders
    dd = opt_size - 128
    opt[dd:dd + 4] = export_rva.to_bytes(4, "little")
    opt[dd + 4:dd + 8] = (40).to_bytes(4, "little")
    sections = b""
    raw_ptr = hdr_size
    for k in range(nsections):
        sec = bytearray(40)
        sec[0:5] = b".data"
        sec[8:12] = (0x200).to_bytes(4, "little")            # VirtualSize
        sec[12:16] = (0x1000 * (k + 1)).to_bytes(4, "little")  # VirtualAddress
        sec[16:20] = (0x200).to_bytes(4, "little")           # SizeOfRawData
        sec[20:24] = (raw_ptr + 0x200 * k).to_bytes(4, "little")
        sections += bytes(sec)
    body = bytearray(0x200 * max(nsections, 1))
    body[4:8] = export_stamp.to_bytes(4, "little")
    return bytes(dos) + pad + b"PE\x00\x00" + coff + bytes(opt) + sections + bytes(body) + append


def gen_pe_files():
    out = []
    imgs = [mini_pe(), mini_pe(machine=0x14c), mini_pe(machine=0x200), mini_pe(e_lfanew=0x80), mini_pe(e_lfanew=2000),
            mini_pe(nsections=0), mini_pe(nsections=3, export_rva=0x2000), mini_pe(export_rva=0x9000)]
    for img in imgs:
        for prep in (b"", b"\x90" * 3, b"MZ" + b"\x00" * 70):
            for cut in (None, 40, 70, 100, 300):
                data = prep + img
                if cut is not None:
                    data = data[:len(prep) + cut]
                out.append({"file": {"bytes": list(data)}, "pos": 0, "fkind": "bytesio"})
    out.append({"file": {"bytes": []}, "pos": 0, "fkind": "bytesio"})
    return out


def gen_xorencoded_files():
    """XorEncoded stages (stub, nonce, decoded PE), near misses and plain garbage (small images: the executable
    spec first_mz is recursive and evaluated for every candidate offset)"""
    out = []
    pe64, pe32 = mini_pe(nsections=0)[:200], mini_pe(machine=0x14c, nsections=0)[:200]
    stubs = [b"", b"\xfc\xe8\x00\x00" + b"\x90" * 9 + b"\xff\xff\xff", b"\xff\xff\xff" + b"\x90" * 5 + b"\xff\xff\xff",
             b"\xff\xff\xff" + b"\x90" * 5, b"\x41" * 10]
    for plain in (pe64, pe32, pe64[:80], b"not a pe at all" * 4):
        for stub in stubs:
            for nonce in (b"\x11\x22\x33\x44",):
                data = xorencode(plain, nonce=nonce, stub=stub)
                out.append({"file": {"bytes": list(data)}, "pos": 0, "fkind": "bytesio"})
                out.append({"file": {"bytes": list(data + b"\x00" * 5)}, "pos": 2, "fkind": "bytesio"})   # size relation broken: marker only
    for raw in (b"", b"\xff\xff\xff", b"\xff\xff\xff\x00", pe64, b"\x00" * 20):
        out.append({"file": {"bytes": list(raw)}, "pos": 0, "fkind": "bytesio"})
    # the encoded payload itself ends with the marker ff ff ff: a spurious candidate at the very end, tried before the
    # real one found by the size relation
    for stub in (b"", b"\x41" * 10):
        enc = bytearray(xorencode(pe64 + bytes(8), stub=stub))
        for i in (3, 2, 1):           # choose the last plaintext bytes so that the encoding ends in ff ff ff
            enc[-i] = 0xFF
        out.append({"file": {"bytes": list(bytes(enc))}, "pos": 0, "fkind": "bytesio"})
    return out


def payload_checksum_ref(data):
    n = 0
    for i, c in enumerate(data):
        n = (n + c * (i % 3 + 1)) % 99999999
    return n


def guardrails_payload(envkey, options=(5,), config=None, prefix=b"", suffix=b"", bad_checksum=False, terminator=True,
                       guard_pad=2048, checksum_len=4):
    """reference Guardrails encoder written from the format: the 6144-byte configuration area is XORed with the
    environmental key and 0x2e; the 2048-byte guard configuration (TLV settings incl. option 9 = checksum + 1) is
    XORed with the reversed masked configuration and 0x8a"""
    if config is None:
        config = bytes.fromhex("00010001000200080002000100020050") + bytes(16)
    cfg = config + bytes(6144 - len(config))
    tiled = (envkey * (6144 // len(envkey) + 1))[:6144]
    mb = bytes(c ^ k ^ 0x2E for c, k in zip(cfg, tiled))
    guard = b""
    vals = {5: (1, (2).to_bytes(2, "big")), 6: (1, (3).to_bytes(2, "big")), 7: (1, (4).to_bytes(2, "big")),
            8: (2, (0x0A000001).to_bytes(4, "big"))}
    for opt in options:
        ty, val = vals[opt]
        guard += opt.to_bytes(2, "big") + ty.to_bytes(2, "big") + len(val).to_bytes(2, "big") + val
    cs = payload_checksum_ref(cfg) + 1 + (7 if bad_checksum else 0)
    # checksum_len != 4: a malformed (untrusted) guard configuration whose checksum value is shorter / longer than a dword
    guard += (9).to_bytes(2, "big") + (2).to_bytes(2, "big") + checksum_len.to_bytes(2, "big") + (cs.to_bytes(4, "big") + bytes(4))[:checksum_len]
    if terminator:
        guard += b"\x00\x00"
    guard = (guard + bytes(max(0, guard_pad - len(guard))))[:guard_pad] if terminator else guard
    rev = mb[::-1]
    mg = bytes(g ^ rev[i % len(rev)] ^ 0x8A for i, g in enumerate(guard))
    return prefix + mb + mg + suffix


def gen_guardrail_files():
    out = []
    for key in (b"ab", b"secret-key", bytes(range(1, 40))):
        for opts in ((5,), (6, 7), (8,), (5, 6, 7, 8)):
            for prefix in (b"", b"\x90" * 7):
                out.append(guardrails_payload(key, opts, prefix=prefix, suffix=b"\xcc" * 3))
    out.append(guardrails_payload(b"kk", bad_checksum=True))
    out.append(guardrails_payload(b"kk", terminator=False))                  # unterminated guard settings at EOF
    blk = guardrails_payload(b"zz")[6144 - 6:6144 + 12]
    out.append(blk)                                                         # marker at offset 0: no room for a config
    out.append(b"\x00" * 100 + blk + b"\x01" * 40)
    out.append(guardrails_payload(b"zz")[:6144 + 9])                         # truncated inside the marker
    out += [b"", b"\x8a" * 30]
    return [{"file": {"bytes": list(x)}, "pos": 0, "fkind": "bytesio"} for x in out]


def gen_http_messages():
    msgs = [b"GET / HTTP/1.1\r\n\r\n", b"GET /a?x=1&y=%20z HTTP/1.1\r\nHost: h\r\nA: b: c\r\n\r\nbody\r\n\r\nmore\x00",
            b"HTTP/1.1 200 OK\r\nServer: x\r\n\r\n\x00\r\n\r\n", b"http/1.0 404 NotFound\r\n\r\n", b"HTTP/1.1 200\r\n\r\n",
            b"HTTP/1.1 abc OK\r\n\r\n", b"GET /\r\n\r\n", b"", b"\r\n\r\n", b"GET / HTTP/1.1", b"POST /s HTTP/1.1\r\nK: v",
            b"GET /\xff\xfe HTTP/1.1\r\n\r\n", b"GET //[::1 HTTP/1.1\r\n\r\n", b"GET http://[x/ HTTP/1.1\r\n\r\n",
            b"A B C D\r\n\r\n", b"  GET   /x   HTTP/1.1  \r\nX: 1\r\n\r\n", b"HTTP/1.1 200 OK\r\nNoColon\r\n\r\nB",
            b"HTTP/1.1 200 OK\r\nDup: 1\r\nDup: 2\r\n\r\n", b"GET / HTTP/1.1\r\n\r\n\r\n\r\n"]
    return [{"bytes": list(m)} for m in msgs]


def tlv_block(settings, terminator=True, trailing=b""):
    out = b""
    for idx, ty, val in settings:
        out += idx.to_bytes(2, "big") + ty.to_bytes(2, "big") + len(val).to_bytes(2, "big") + val
    return out + (b"\x00\x00" if terminator else b"") + trailing


def gen_config_blocks():
    blocks = [b"", b"\x00", b"\x00\x00", tlv_block([(1, 1, b"\x00\x08")]), tlv_block([(1, 1, b"\x00\x08"), (2, 1, b"\x01\xbb")], trailing=b"\xff" * 5),
              tlv_block([(1, 1, b"\x00\x08")], terminator=False), tlv_block([(1, 1, b"\x00\x08")], terminator=False) + b"\x00\x02\x00",
              tlv_block([(9, 3, b"A" * 128)], terminator=False), tlv_block([(9, 3, b"A" * 128)], terminator=False) + b"BCD\x00\x00\x00",
              tlv_block([(9, 3, b"A" * 127 + b"\x00")]), tlv_block([(36, 1, b"\x00\x01"), (36, 3, b"hash\x00")]),
              tlv_block([(9, 3, b"A" * 144), (0x0101, 1, b"\x00\x01"), (37, 2, b"\x00\x00\x00\x07")]),
              tlv_block([(9, 3, b"A" * 129), (2, 1, b"\x01\xbb")]), tlv_block([(9, 3, b"A" * 127), (2, 1, b"\x01\xbb")]),
              tlv_block([(9, 1, b"A" * 128), (0x0101, 1, b"\x00\x01")]), tlv_block([(10, 3, b"B" * 128), (0x0101, 1, b"\x00\x01")]),
              tlv_block([(36, 2, b"\x00\x00\x00\x01")]), tlv_block([(36, 0, b"")]), tlv_block([(36, 2, b"\x00\x00\x00\x07"), (36, 1, b"\x00\x02")]),
              tlv_block([(0xfff0, 7, b""), (16, 2, b"\x00\x00\x00\x01"), (7, 3, bytes(range(40)))]),
              tlv_block([(1, 1, b"\x00\x08")])[:-3], b"\x00\x01\x00\x01\xff\xff" + b"x" * 10, b"\x01"]
    return [{"bytes": list(b)} for b in blocks]
