"""Small-scope input generators for the concrete contract runner (JSON-able descriptions).
Not translated to SMT; used only by pyvc.rt_runner for replay search and bounded stand-ins."""


def _b(x):
    return {"bytes": list(x)}


def minimal_beacon_payload(key=0x2e):
    block = bytes.fromhex("0001000100020008") + bytes.fromhex("000200010002 0050".replace(" ", "")) + b"\x00" * 16
    return bytes(c ^ key for c in block)


def gen_http_responses():
    out = []
    payload = minimal_beacon_payload()
    uris = [b"/aaa9", b"/aab9", b"/aaa0\n", b"/pendants", b"/oOo0", b"/oO/o0", b"/x", b"", b"/aaa\xff9",
            b"/" + b"a" * 50]
    for body in (payload, b"nothing"):
        out.append({"record": "HttpResponse", "module": "dissect.cobaltstrike.c2",
                    "fields": {"status": {"int": 200}, "headers": {"py": "{}"}, "reason": _b(b"OK"), "body": _b(body),
                               "request": {"none": True}}})
        for u in uris:
            req = {"record": "HttpRequest", "module": "dissect.cobaltstrike.c2",
                   "fields": {"method": _b(b"GET"), "uri": _b(u), "params": {"py": "{}"}, "headers": {"py": "{}"},
                              "body": _b(b"")}}
            out.append({"record": "HttpResponse", "module": "dissect.cobaltstrike.c2",
                        "fields": {"status": {"int": 200}, "headers": {"py": "{}"}, "reason": _b(b"OK"),
                                   "body": _b(body), "request": req}})
    return out
