"""Small-scope input generators for the concrete contract runner (JSON-able descriptions).
Not translated to SMT; used only by pyvc.rt_runner for replay search and bounded stand-ins."""


def _b(x):
    return {"bytes": list(x)}


def minimal_beacon_payload(key=0x2e):
    block = bytes.fromhex("0001000100020008") + bytes.fromhex("000200010002 0050".replace(" ", "")) + b"\x00" * 16
    return bytes(c ^ key for c in block)


def gen_http_responses():
    out = []
    payload = minimal_beacon_payload()
    uris = [b"/aaa9", b"/aab9", b"/aaa0\n", b"/pendants", b"/oOo0", b"/oO/o0", b"/x", b"", b"/aaa\xff9",
            b"/" + b"a" * 50]
    for body in (payload, b"nothing"):
        out.append({"record": "HttpResponse", "module": "dissect.cobaltstrike.c2",
                    "fields": {"status": {"int": 200}, "headers": {"py": "{}"}, "reason": _b(b"OK"), "body": _b(body),
                               "request": {"none": True}}})
        for u in uris:
            req = {"record": "HttpRequest", "module": "dissect.cobaltstrike.c2",
                   "fields": {"method": _b(b"GET"), "uri": _b(u), "params": {"py": "{}"}, "headers": {"py": "{}"},
                              "body": _b(b"")}}
            out.append({"record": "HttpResponse", "module": "dissect.cobaltstrike.c2",
                        "fields": {"status": {"int": 200}, "headers": {"py": "{}"}, "reason": _b(b"OK"),
                                   "body": _b(body), "request": req}})
    return out


def _rec(cls, **fields):
    return {"record": cls, "module": "dissect.cobaltstrike.c2", "fields": fields}


def _optb(x):
    return {"none": True} if x is None else _b(x)


def gen_enc_packets():
    out = []
    for ct in (b"", b"\x01" * 16, bytes(range(32)), b"\x07" * 5):
        for sig in (b"", b"\x02" * 16, b"\x03" * 4):
            out.append(_rec("EncryptedPacket", ciphertext=_b(ct), signature=_b(sig)))
    return out


def gen_signed_packets():
    """packets with a correct, a wrong and a truncated signature for key K"""
    import hmac
    out = []
    for key in (b"k" * 16, b"z" * 16):
        for ct in (b"\x01" * 16, bytes(range(32)), b""):
            good = hmac.new(key, ct, "sha256").digest()[:16]
            for sig in (good, good[:-1] + bytes([good[-1] ^ 1]), good[:8], b""):
                out.append(_rec("EncryptedPacket", ciphertext=_b(ct), signature=_b(sig)))
    return out


def gen_server_c2data():
    return [_rec("ServerC2Data", output=_optb(o), metadata=_optb(None), id=_optb(None))
            for o in (None, b"", b"\x01" * 16, b"\x01" * 15, bytes(range(48)), b"abc")]


def gen_client_cases():
    """joint cases for ClientC2Data.iter_encrypted_packets: ghost list pkts and the stream built from it"""
    out = []
    lists = [[], [(b"", b"s" * 16)], [(b"\x01" * 16, b"s" * 16), (b"\x02" * 32, b"t" * 16)],
             [(b"\x05" * 16, b"u" * 16)] * 3, [(b"\x00\x00\x00\x14" + b"x" * 12, b"v" * 16), (b"", b"w" * 16)]]
    for pk in lists:
        stream = b"".join((len(c) + len(s)).to_bytes(4, "big") + c + s for c, s in pk)
        out.append({"self": _rec("ClientC2Data", output=_optb(stream), metadata=_optb(None), id=_optb(None)),
                    "pkts": {"list": [{"tuple": [_b(c), _b(s)]} for c, s in pk]}})
    return out


def _rsa(bits=1024):
    import os
    from Crypto.PublicKey import RSA
    here = os.path.dirname(os.path.abspath(globals().get("__file__", "/verif/contracts/spec/gens.py")))
    return RSA.import_key(open(os.path.join("/verif/contracts/spec", f"test_rsa_{bits}.pem"), "rb").read())


def _pkcs1_encrypt_deterministic(pub, msg, seed=1):
    """PKCS#1 v1.5 type 2 encryption with a deterministic non-zero padding string (test vectors)"""
    import random
    k = pub.size_in_bytes()
    rnd = random.Random(seed)
    ps = bytes(rnd.randrange(1, 256) for _ in range(k - len(msg) - 3))
    em = b"\x00\x02" + ps + b"\x00" + msg
    return pow(int.from_bytes(em, "big"), pub.e, pub.n).to_bytes(k, "big")


def gen_decrypt_metadata_cases():
    out = []
    for bits in (1024,):
        priv = _rsa(bits)
        pub = priv.publickey()
        k = pub.size_in_bytes()
        fixed = bytes.fromhex("0000beef") + (51 + 5).to_bytes(4, "big") + bytes(range(16)) + bytes(35)
        msgs = [fixed + b"hello", fixed[:59], b"abc", b"", bytes(59), fixed + b"he",
                bytes.fromhex("0000beef") + (51 + 40).to_bytes(4, "big") + bytes(51) + b"short"]
        blobs = [_pkcs1_encrypt_deterministic(pub, m) for m in msgs]
        blobs += [bytes(k), b"\x01" * (k - 1), b"\xff" * k, b""]
        for b_ in blobs:
            out.append({"encrypted_metadata": _b(b_), "private_key": {"rsa_key": bits}})
    return out
