from pyvc.lang import *


@contract("dissect.cobaltstrike.pcap:BeaconCapture.find_staged_beacon", props=["C20"])
def _(self: "any", response: "record[HttpResponse]"):
    """gate: a response whose request is known and is neither an x86 nor an x64 stager URI is never
    treated as a staged beacon (None is returned before the body is looked at)"""
    ensures(implies(response.request is not None
                    and not (cs8(response.request.uri.decode("ascii", errors="ignore")) == 92)
                    and not (cs8(response.request.uri.decode("ascii", errors="ignore")) == 93
                             and stager_x64_shape(response.request.uri.decode("ascii", errors="ignore"))),
                    result is None))
    # ghost call trace: BeaconConfig.from_bytes is reached only when the request is absent or a stager URI
    ghost(before="config = BeaconConfig.from_bytes(response.body)", do=[
        assert_(response.request is None
                or cs8(response.request.uri.decode("ascii", errors="ignore")) == 92
                or (cs8(response.request.uri.decode("ascii", errors="ignore")) == 93
                    and stager_x64_shape(response.request.uri.decode("ascii", errors="ignore"))))])
    returns("any")
    domain(self=lit(None), response=gen_http_responses())
