from pyvc.lang import *


@external("dissect.cobaltstrike.version:BeaconVersion.__init__", props=["C18"])
def _(self: "newobj:BeaconVersion", version: "str"):
    """ASSUMED (regular expression + strptime are outside reach): the object keeps the version text; that `tuple`
    and `date` agree with the text is a bounded component of C18."""
    initializes(version=version)
    returns("none")


@contract("dissect.cobaltstrike.version:BeaconVersion.from_pe_export_stamp", props=["C18"])
def _(cls: "class:dissect.cobaltstrike.version:BeaconVersion", pe_export_stamp: "int"):
    """the table entry for the export timestamp, "Unknown" when absent"""
    ensures(result.version == PE_EXPORT_STAMP_TO_VERSION.get(pe_export_stamp, "Unknown"))
    returns("obj:BeaconVersion")
    domain(pe_export_stamp=ints(0, 1, 0x579A6849, 0x674E0D17, 0x674E0D18, 0x5DE8F170, -1))


@contract("dissect.cobaltstrike.version:BeaconVersion.from_max_setting_enum", props=["C18"])
def _(cls: "class:dissect.cobaltstrike.version:BeaconVersion", enum: "int"):
    ensures(result.version == MAX_ENUM_TO_VERSION.get(enum, "Unknown"))
    returns("obj:BeaconVersion")
    domain(enum=ints(0, 19, 20, 21, 36, 78, 79, 1000))
