from pyvc.lang import *


@contract("dissect.cobaltstrike.c2:pad", props=["C05"])
def _(data: "bytes", block_size: "int"):
    requires(block_size >= 1)
    case_split(block_size=16)
    ensures(1 <= len(result) - len(data), len(result) - len(data) <= block_size)
    ensures(len(result) - len(data) == block_size - len(data) % block_size)
    ensures(implies(block_size == 16, len(result) % 16 == 0 and result == pad_A(data)))
    ensures(result[:len(data)] == data, forall(lambda i: result[i] == 65, len(data), len(result)))
    returns("bytes")
    domain(data=bytes_(alphabet=b"A\x00", maxlen=5) + [{"bytes": [7] * n} for n in range(14, 34)], block_size=ints(16, 1, 3))


@contract("dissect.cobaltstrike.c2:encrypt_data", props=["C05"])
def _(data: "bytes", aes_key: "opt[bytes]", iv: "bytes"):
    raises(ValueError, when=aes_key is None or not (len(aes_key) == 16 or len(aes_key) == 24 or len(aes_key) == 32)
           or len(iv) != 16)
    ensures(aes_key is not None and (len(aes_key) == 16 or len(aes_key) == 24 or len(aes_key) == 32) and len(iv) == 16)
    ensures(result == aes_enc(aes_key, iv, pad_A(data)))
    ensures(aes_calls == old(aes_calls) + 1)
    returns("bytes")
    domain(data=bytes_(alphabet=b"A\x00", maxlen=3) + [{"bytes": [7] * n} for n in (15, 16, 17, 32)],
           aes_key=[{"none": True}, {"bytes": list(range(16))}, {"bytes": [1] * 5}], iv=[{"bytes": [9] * 16}, {"bytes": [9] * 3}])


@contract("dissect.cobaltstrike.c2:decrypt_data", props=["C05"])
def _(data: "bytes", aes_key: "opt[bytes]", iv: "bytes"):
    raises(ValueError, when=aes_key is None or not (len(aes_key) == 16 or len(aes_key) == 24 or len(aes_key) == 32)
           or len(iv) != 16 or len(data) % 16 != 0)
    ensures(aes_key is not None and len(data) % 16 == 0)
    ensures(result == aes_dec(aes_key, iv, data))
    ensures(aes_calls == old(aes_calls) + 1)
    returns("bytes")
    domain(data=[{"bytes": [7] * n} for n in (0, 1, 15, 16, 17, 32)],
           aes_key=[{"none": True}, {"bytes": list(range(16))}, {"bytes": [1] * 5}], iv=[{"bytes": [9] * 16}, {"bytes": [9] * 3}])


@lemma(props=["C05"])
def encrypt_decrypt_roundtrip(p: "bytes", k: "bytes", iv: "bytes"):
    """decrypt_data(encrypt_data(p, k, iv), k, iv) == p followed by 1..16 bytes of 'A'"""
    ensures(len(pad_A(p)) % 16 == 0)
    ensures(aes_dec(k, iv, aes_enc(k, iv, pad_A(p))) == pad_A(p))
    ensures(1 <= len(pad_A(p)) - len(p), len(pad_A(p)) - len(p) <= 16, pad_A(p)[:len(p)] == p)
    ensures(forall(lambda i: pad_A(p)[i] == 65, len(p), len(pad_A(p))))


@contract("dissect.cobaltstrike.c2:EncryptedPacket.dumps", props=["C05"])
def _(self: "record[EncryptedPacket]"):
    raises(OverflowError, when=len(self.ciphertext) + len(self.signature) >= 4294967296)
    ensures(len(self.ciphertext) + len(self.signature) < 4294967296)
    ensures(result == frame(self.ciphertext, self.signature))
    returns("bytes")
    domain(self=gen_enc_packets())



@contract("dissect.cobaltstrike.c2:EncryptedPacket.raise_for_signature", props=["C05"])
def _(self: "record[EncryptedPacket]", hmac_key: "bytes"):
    raises(ValueError, when=hmac_sha256(hmac_key, self.ciphertext)[:16] != self.signature)
    ensures(hmac_sha256(hmac_key, self.ciphertext)[:16] == self.signature)
    returns("none")
    domain(self=gen_signed_packets(), hmac_key=[{"bytes": list(b"k" * 16)}, {"bytes": list(b"z" * 16)}])



@contract("dissect.cobaltstrike.c2:encrypt_packet", props=["C05"])
def _(plaintext: "bytes", aes_key: "opt[bytes]", hmac_key: "bytes", iv: "bytes"):
    raises(ValueError, when=aes_key is None or not (len(aes_key) == 16 or len(aes_key) == 24 or len(aes_key) == 32)
           or len(iv) != 16)
    ensures(result.ciphertext == aes_enc(aes_key, iv, pad_A(plaintext)))
    ensures(result.signature == hmac_sha256(hmac_key, result.ciphertext)[:16], len(result.signature) == 16)
    ensures(aes_calls == old(aes_calls) + 1)
    returns("record[EncryptedPacket]")
    domain(plaintext=bytes_(alphabet=b"A\x00", maxlen=3) + [{"bytes": [7] * n} for n in (15, 16, 17)], aes_key=[{"none": True}, {"bytes": list(range(16))}], hmac_key=[{"bytes": list(b"k" * 16)}, {"bytes": list(b"z" * 16)}], iv=[{"bytes": [9] * 16}])



@contract("dissect.cobaltstrike.c2:decrypt_packet", props=["C05"])
def _(packet: "record[EncryptedPacket]", aes_key: "opt[bytes]", hmac_key: "opt[bytes]", iv: "bytes", verify: "bool"):
    """verification precedes decryption: a packet whose signature is not HMAC-SHA256(hmac_key, ciphertext)[:16]
    (or a missing HMAC key) is rejected with ValueError before any AES call (ghost counter aes_calls)"""
    raises(ValueError, ensures=implies(
        verify and (hmac_key is None or len(hmac_key) == 0
                    or hmac_sha256(hmac_key, packet.ciphertext)[:16] != packet.signature),
        aes_calls == old(aes_calls)))
    ensures(implies(verify, hmac_key is not None and len(hmac_key) > 0
                    and hmac_sha256(hmac_key, packet.ciphertext)[:16] == packet.signature))
    ensures(result == aes_dec(aes_key, iv, packet.ciphertext))
    ensures(aes_calls == old(aes_calls) + 1)
    returns("bytes")
    domain(packet=gen_signed_packets(), aes_key=[{"none": True}, {"bytes": list(range(16))}], hmac_key=[{"none": True}, {"bytes": []}] + [{"bytes": list(b"k" * 16)}, {"bytes": list(b"z" * 16)}], iv=[{"bytes": [9] * 16}], verify=bools())



@contract("dissect.cobaltstrike.c2:ServerC2Data.iter_encrypted_packets", mode="all", props=["C05"])
def _(self: "record[ServerC2Data]"):
    """task data: one packet, the trailing 16 bytes are the signature"""
    yields("record[EncryptedPacket]")
    terminates()
    ensures(implies(self.output is None or len(self.output) == 0, len(yielded) == 0))
    ensures(implies(self.output is not None and len(self.output) >= 16,
                    len(yielded) == 1 and yielded[0].ciphertext == self.output[:len(self.output) - 16]
                    and yielded[0].signature == self.output[len(self.output) - 16:]))
    domain(self=gen_server_c2data())



@contract("dissect.cobaltstrike.c2:ClientC2Data.iter_encrypted_packets", mode="all", props=["C05"])
def _(self: "record[ClientC2Data]"):
    """callback data: a stream that is the concatenation of the frames of ANY list of packets (ghost
    parameter pkts, 16-byte signatures) is split back into exactly those packets, in order"""
    logical(pkts="list[tuple[bytes,bytes]]")
    requires(self.output is not None, self.output == concat_frames(pkts, 0))
    requires(forall(lambda j: len(pkts[j][1]) == 16 and len(pkts[j][0]) + 16 < 4294967296, 0, len(pkts)))
    yields("record[EncryptedPacket]")
    terminates()
    ensures(len(yielded) == len(pkts))
    ensures(forall(lambda j: yielded[j].ciphertext == pkts[j][0] and yielded[j].signature == pkts[j][1], 0, len(pkts)))
    loop(0, index="k", invariant=[
        k <= len(pkts), len(yielded) == k, data == concat_frames(pkts, k),
        forall(lambda j: yielded[j].ciphertext == pkts[j][0] and yielded[j].signature == pkts[j][1], 0, k)],
        decreases=len(data))
    domain(cases=gen_client_cases())
