from pyvc.lang import *


@lemma(props=["C18", "C09", "C08", "C01"])
def first_mz_found(F: "bytes", lo: "int", x: "int", hi: "int", m: "int"):
    requires(lo <= x, x < hi, valid_mz(F, x, m), forall(lambda o: not valid_mz(F, o, m), lo, x))
    ensures(first_mz(F, lo, hi, m) == x)
    decreases(x - lo)
    if lo < x:
        first_mz_found(F, lo + 1, x, hi, m)


@lemma(props=["C18", "C09", "C08", "C01"])
def first_mz_none(F: "bytes", lo: "int", hi: "int", m: "int"):
    requires(forall(lambda o: not valid_mz(F, o, m), lo, hi))
    ensures(first_mz(F, lo, hi, m) == -1)
    decreases(hi - lo)
    if lo < hi:
        first_mz_none(F, lo + 1, hi, m)


@lemma(props=["C18", "C09", "C08", "C01"])
def first_mz_props(F: "bytes", lo: "int", hi: "int", m: "int"):
    """what callers may use: the result is -1 or a valid offset in range below which nothing is valid"""
    ensures(first_mz(F, lo, hi, m) == -1 or (lo <= first_mz(F, lo, hi, m) and first_mz(F, lo, hi, m) < hi
                                             and valid_mz(F, first_mz(F, lo, hi, m), m)))
    ensures(forall(lambda o: implies(first_mz(F, lo, hi, m) == -1 or o < first_mz(F, lo, hi, m), not valid_mz(F, o, m)), lo, hi))
    decreases(hi - lo)
    if lo < hi:
        first_mz_props(F, lo + 1, hi, m)


@contract("dissect.cobaltstrike.pe:find_mz_offset", props=["C18", "C09", "C08", "C01"])
def _(fh: "file", start_offset: "opt[int]", maxrange: "int"):
    """the LEAST offset in [start, start + maxrange) with a valid DOS/COFF header pair, else None"""
    requires(implies(start_offset is not None, start_offset >= 0), maxrange >= 0)
    position_independent(fh, when=start_offset is not None)
    modifies(fh)
    ghost(entry=True, do=[let("F", file_content(fh)),
                          let("s", old(file_pos(fh)) if start_offset is None else start_offset)])
    ensures(implies(result is None, first_mz(F, s, s + maxrange, maxrange) == -1))
    ensures(implies(result is not None, result == first_mz(F, s, s + maxrange, maxrange) and result >= s))
    returns("opt[int]")
    loop(0, index="k", invariant=[start_offset == s, forall(lambda o: not valid_mz(F, o, maxrange), s, s + k)])
    ghost(before="return start_offset + offset", do=[first_mz_found(F, s, s + k, s + maxrange, maxrange)])
    ghost(before="return None", do=[first_mz_none(F, s, s + maxrange, maxrange)])
    domain(fh=gen_pe_files(), start_offset=ints(None, 0, 1), maxrange=ints(0, 1, 70, 1024))


@contract("dissect.cobaltstrike.pe:find_architecture", props=["C18", "C08", "C01"])
def _(fh: "file", start_offset: "opt[int]", maxrange: "int"):
    """the architecture of the image at the least valid offset ("x64" for Machine 0x8664, "x86" for 0x14c), else None"""
    requires(implies(start_offset is not None, start_offset >= 0), maxrange >= 0)
    position_independent(fh, when=start_offset is not None)
    modifies(fh)
    ghost(entry=True, do=[let("F", file_content(fh)),
                          let("s", old(file_pos(fh)) if start_offset is None else start_offset)])
    ensures(implies(result is None, first_mz(F, s, s + maxrange, maxrange) == -1))
    ensures(implies(result is not None, first_mz(F, s, s + maxrange, maxrange) >= s and result == (
        "x64" if machine_at(F, first_mz(F, s, s + maxrange, maxrange)) == 34404 else "x86")))
    returns("opt[str]")
    loop(0, index="k", invariant=[start_offset == s, forall(lambda o: not valid_mz(F, o, maxrange), s, s + k)])
    ghost(before='return "x64"', do=[first_mz_found(F, s, s + k, s + maxrange, maxrange)])
    ghost(before='return "x86"', do=[first_mz_found(F, s, s + k, s + maxrange, maxrange)])
    ghost(before="return None", do=[first_mz_none(F, s, s + maxrange, maxrange)])
    domain(fh=gen_pe_files(), start_offset=ints(None, 0, 1), maxrange=ints(0, 1, 70, 1024))
