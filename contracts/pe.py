from pyvc.lang import *


@lemma(props=["C18", "C09", "C08", "C01"])
def first_mz_found(F: "bytes", lo: "int", x: "int", hi: "int", m: "int"):
    requires(lo <= x, x < hi, valid_mz(F, x, m), forall(lambda o: not valid_mz(F, o, m), lo, x))
    ensures(first_mz(F, lo, hi, m) == x)
    decreases(x - lo)
    if lo < x:
        first_mz_found(F, lo + 1, x, hi, m)


@lemma(props=["C18", "C09", "C08", "C01"])
def first_mz_none(F: "bytes", lo: "int", hi: "int", m: "int"):
    requires(forall(lambda o: not valid_mz(F, o, m), lo, hi))
    ensures(first_mz(F, lo, hi, m) == -1)
    decreases(hi - lo)
    if lo < hi:
        first_mz_none(F, lo + 1, hi, m)


@lemma(props=["C18", "C09", "C08", "C01"])
def first_mz_props(F: "bytes", lo: "int", hi: "int", m: "int"):
    """what callers may use: the result is -1 or a valid offset in range below which nothing is valid"""
    ensures(first_mz(F, lo, hi, m) == -1 or (lo <= first_mz(F, lo, hi, m) and first_mz(F, lo, hi, m) < hi
                                             and valid_mz(F, first_mz(F, lo, hi, m), m)))
    ensures(forall(lambda o: implies(first_mz(F, lo, hi, m) == -1 or o < first_mz(F, lo, hi, m), not valid_mz(F, o, m)), lo, hi))
    decreases(hi - lo)
    if lo < hi:
        first_mz_props(F, lo + 1, hi, m)


@contract("dissect.cobaltstrike.pe:find_mz_offset", props=["C18", "C09", "C08", "C01"])
def _(fh: "file", start_offset: "opt[int]", maxrange: "int"):
    """the LEAST offset in [start, start + maxrange) with a valid DOS/COFF header pair, else None"""
    requires(implies(start_offset is not None, start_offset >= 0), maxrange >= 0)
    position_independent(fh, when=start_offset is not None)
    modifies(fh)
    ghost(entry=True, do=[let("F", file_content(fh)),
                          let("s", old(file_pos(fh)) if start_offset is None else start_offset)])
    ensures(implies(result is None, first_mz(F, s, s + maxrange, maxrange) == -1))
    ensures(implies(result is not None, result == first_mz(F, s, s + maxrange, maxrange) and result >= s))
    returns("opt[int]")
    loop(0, index="k", invariant=[start_offset == s, forall(lambda o: not valid_mz(F, o, maxrange), s, s + k)])
    ghost(before="return start_offset + offset", do=[first_mz_found(F, s, s + k, s + maxrange, maxrange)])
    ghost(before="return None", do=[first_mz_none(F, s, s + maxrange, maxrange)])
    domain(fh=gen_pe_files(), start_offset=ints(None, 0, 1), maxrange=ints(0, 1, 70, 1024))


@contract("dissect.cobaltstrike.pe:find_architecture", props=["C18", "C08", "C01"])
def _(fh: "file", start_offset: "opt[int]", maxrange: "int"):
    """the architecture of the image at the least valid offset ("x64" for Machine 0x8664, "x86" for 0x14c), else None"""
    requires(implies(start_offset is not None, start_offset >= 0), maxrange >= 0)
    position_independent(fh, when=start_offset is not None)
    modifies(fh)
    ghost(entry=True, do=[let("F", file_content(fh)),
                          let("s", old(file_pos(fh)) if start_offset is None else start_offset)])
    ensures(implies(result is None, first_mz(F, s, s + maxrange, maxrange) == -1))
    ensures(implies(result is not None, first_mz(F, s, s + maxrange, maxrange) >= s and result == (
        "x64" if machine_at(F, first_mz(F, s, s + maxrange, maxrange)) == 34404 else "x86")))
    returns("opt[str]")
    loop(0, index="k", invariant=[start_offset == s, forall(lambda o: not valid_mz(F, o, maxrange), s, s + k)])
    ghost(before='return "x64"', do=[first_mz_found(F, s, s + k, s + maxrange, maxrange)])
    ghost(before='return "x86"', do=[first_mz_found(F, s, s + k, s + maxrange, maxrange)])
    ghost(before="return None", do=[first_mz_none(F, s, s + maxrange, maxrange)])
    domain(fh=gen_pe_files(), start_offset=ints(None, 0, 1), maxrange=ints(0, 1, 70, 1024))


@lemma(props=["C18", "C08"])
def first_sec_found(F: "bytes", base: "int", k: "int", x: "int", n: "int", rva: "int"):
    requires(k <= x, x < n, sec_hit(F, base, x, rva), forall(lambda j: not sec_hit(F, base, j, rva), k, x))
    ensures(first_sec(F, base, k, n, rva) == x)
    decreases(x - k)
    if k < x:
        first_sec_found(F, base, k + 1, x, n, rva)


@lemma(props=["C18", "C08"])
def first_sec_none(F: "bytes", base: "int", k: "int", n: "int", rva: "int"):
    requires(forall(lambda j: not sec_hit(F, base, j, rva), k, n))
    ensures(first_sec(F, base, k, n, rva) == -1)
    decreases(n - k)
    if k < n:
        first_sec_none(F, base, k + 1, n, rva)


@contract("dissect.cobaltstrike.pe:find_compile_stamps", props=["C18", "C08", "C01"])
def _(fh: "file", start_offset: "opt[int]", maxrange: "int"):
    """(compile stamp, export stamp) of the image at the least valid offset: TimeDateStamp of the COFF header and of
    the export directory found through the first section containing its RVA (x86 and x64 optional headers); None
    where there is no image / the headers are truncated; never raises"""
    requires(implies(start_offset is not None, start_offset >= 0), maxrange >= 0)
    position_independent(fh, when=start_offset is not None)
    modifies(fh)
    ghost(entry=True, do=[let("F", file_content(fh)),
                          let("s", old(file_pos(fh)) if start_offset is None else start_offset),
                          let("o", first_mz(F, s, s + maxrange, maxrange))])
    ensures(implies(o == -1, result[0] is None and result[1] is None))
    ensures(implies(o != -1, result[0] == pe_compile_stamp(F, o)))
    ensures(implies(o != -1 and pe_export_stamp(F, o) == -1, result[1] is None))
    ensures(implies(o != -1 and pe_export_stamp(F, o) != -1, result[1] == pe_export_stamp(F, o)))
    returns("tuple[opt[int],opt[int]]")
    ghost(after="mz_offset = find_mz_offset(fh, start_offset=start_offset, maxrange=maxrange)",
          do=[first_mz_props(F, s, s + maxrange, maxrange)])
    ghost(after="image = pestruct.IMAGE_FILE_HEADER(fh)", do=[
        let("coff", o + s32le(F, o + 60) + 4), assert_(file_pos(fh) == coff + 20),
        assert_(image.Machine == u16le(F, coff)), assert_(image.NumberOfSections == u16le(F, coff + 2))])
    ghost(before="sections = [pestruct.IMAGE_SECTION_HEADER(fh) for _ in range(image.NumberOfSections)]",
          do=[let("secbase", file_pos(fh)), let("rva", export_dd.VirtualAddress), let("nsec", image.NumberOfSections),
              assert_(secbase == coff + 20 + (240 if u16le(F, coff) == 34404 else 224)),
              assert_(rva == u32le(F, coff + 20 + (112 if u16le(F, coff) == 34404 else 96)))])
    loop(0, index="k", invariant=[ds is None, forall(lambda j: not sec_hit(F, secbase, j, rva), 0, k)],
         locals={"ds": "any"})
    ghost(after="offset = export_dd.VirtualAddress - ds.VirtualAddress + ds.PointerToRawData + mz_offset", do=[
        let("jj", first_sec(F, secbase, 0, nsec, rva)), assert_(jj >= 0),
        assert_(offset == rva - u32le(F, secbase + 40 * jj + 12) + u32le(F, secbase + 40 * jj + 20) + o)])
    ghost(loop_head=0, do=[assert_(section.VirtualAddress == u32le(F, secbase + 40 * k + 12)),
                           assert_(section.VirtualSize == u32le(F, secbase + 40 * k + 8)),
                           assert_(section.PointerToRawData == u32le(F, secbase + 40 * k + 20))])
    ghost(after="ds = section", do=[first_sec_found(F, secbase, 0, k, nsec, rva)])
    ghost(loop_exit=0, do=[when(ds is None, [first_sec_none(F, secbase, 0, nsec, rva)])])
    ghost(after="compile_stamp = image.TimeDateStamp", do=[assert_(compile_stamp == pe_compile_stamp(F, o))])
    ghost(after="export_stamp = export_dir.TimeDateStamp", do=[assert_(export_stamp == pe_export_stamp(F, o))])
    domain(fh=gen_pe_files(), start_offset=ints(None, 0, 1), maxrange=ints(0, 1, 70, 1024))


@contract("dissect.cobaltstrike.pe:find_magic_pe", props=["C18", "C08"])
def _(fh: "file", start_offset: "opt[int]", maxrange: "int"):
    """the four bytes at e_lfanew of the image at the least valid offset, trailing NULs removed; None without an image"""
    requires(implies(start_offset is not None, start_offset >= 0), maxrange >= 0)
    position_independent(fh, when=start_offset is not None)
    modifies(fh)
    ghost(entry=True, do=[let("F", file_content(fh)),
                          let("s", old(file_pos(fh)) if start_offset is None else start_offset),
                          let("o", first_mz(F, s, s + maxrange, maxrange))])
    ensures(implies(o == -1, result is None))
    ensures(implies(o != -1, result == F[o + s32le(F, o + 60):o + s32le(F, o + 60) + 4].rstrip(b"\x00")))
    returns("opt[bytes]")
    ghost(after="mz_offset = find_mz_offset(fh, start_offset=start_offset, maxrange=maxrange)",
          do=[first_mz_props(F, s, s + maxrange, maxrange)])
    domain(fh=gen_pe_files(), start_offset=ints(None, 0, 1), maxrange=ints(0, 70, 1024))


@contract("dissect.cobaltstrike.pe:find_magic_mz", props=["C18", "C08"])
def _(fh: "file", start_offset: "opt[int]", maxrange: "int"):
    """the bytes of the image at the least valid offset that precede the first x86 DOS stub signature (e8 00 00 00 00
    5b) - or, if there is none, the first x64 one (55 48 89 e5 48 81) - within its first 256 bytes; else None"""
    requires(implies(start_offset is not None, start_offset >= 0), maxrange >= 0)
    position_independent(fh, when=start_offset is not None)
    modifies(fh)
    ghost(entry=True, do=[let("F", file_content(fh)),
                          let("s", old(file_pos(fh)) if start_offset is None else start_offset),
                          let("o", first_mz(F, s, s + maxrange, maxrange))])
    ensures(implies(o == -1, result is None))
    ensures(implies(o != -1 and F[o:o + 256].find(b"\xe8\x00\x00\x00\x00\x5b") >= 0,
                    result == F[o:o + 256][:F[o:o + 256].find(b"\xe8\x00\x00\x00\x00\x5b")]))
    ensures(implies(o != -1 and F[o:o + 256].find(b"\xe8\x00\x00\x00\x00\x5b") == -1
                    and F[o:o + 256].find(b"\x55\x48\x89\xe5\x48\x81") >= 0,
                    result == F[o:o + 256][:F[o:o + 256].find(b"\x55\x48\x89\xe5\x48\x81")]))
    ensures(implies(o != -1 and F[o:o + 256].find(b"\xe8\x00\x00\x00\x00\x5b") == -1
                    and F[o:o + 256].find(b"\x55\x48\x89\xe5\x48\x81") == -1, result is None))
    returns("opt[bytes]")
    ghost(after="mz_offset = find_mz_offset(fh, start_offset=start_offset, maxrange=maxrange)",
          do=[first_mz_props(F, s, s + maxrange, maxrange)])
    domain(fh=gen_pe_files(), start_offset=ints(None, 0, 1), maxrange=ints(0, 70, 1024))


@contract("dissect.cobaltstrike.pe:find_stage_prepend_append", props=["C18", "C08"])
def _(fh: "file", start_offset: "opt[int]", maxrange: "int"):
    """prepend = the bytes in front of the image (None if it starts the file); append = up to 1024 bytes that follow
    SizeOfHeaders + the raw sizes of all sections, trailing NULs removed (None if there are none / headers truncated)"""
    requires(implies(start_offset is not None, start_offset >= 0), maxrange >= 0)
    position_independent(fh, when=start_offset is not None)
    modifies(fh)
    ghost(entry=True, do=[let("F", file_content(fh)),
                          let("s", old(file_pos(fh)) if start_offset is None else start_offset),
                          let("o", first_mz(F, s, s + maxrange, maxrange))])
    ensures(implies(o == -1, result[0] is None and result[1] is None))
    ensures(implies(o == 0, result[0] is None), implies(o > 0, result[0] == F[:o]))
    ensures(implies(o != -1 and (pe_total_size(F, o) == -1 or o + pe_total_size(F, o) >= len(F)), result[1] is None))
    ensures(implies(o != -1 and pe_total_size(F, o) != -1 and o + pe_total_size(F, o) < len(F),
                    result[1] == F[o + pe_total_size(F, o):o + pe_total_size(F, o) + 1024].rstrip(b"\x00")))
    returns("tuple[opt[bytes],opt[bytes]]")
    ghost(after="mz_offset = find_mz_offset(fh, start_offset=start_offset, maxrange=maxrange)",
          do=[first_mz_props(F, s, s + maxrange, maxrange)])
    ghost(before="sections = [pestruct.IMAGE_SECTION_HEADER(fh) for _ in range(image.NumberOfSections)]",
          do=[let("secbase", file_pos(fh)), let("size0", size)])
    loop(0, index="k", invariant=[size == size0 + raw_sum(F, secbase, k), size >= 0, size0 >= 0])
    ghost(after="append = fh.read(1024) or None", do=[
        assert_(size == pe_total_size(F, o)),
        when(append is not None, [assert_(append == F[o + size:o + size + 1024])])])
    domain(fh=gen_pe_files(), start_offset=ints(None, 0, 1), maxrange=ints(0, 70, 1024))


@lemma(props=["C18"])
def valid_mz_shift(P: "bytes", img: "bytes", x: "int", m: "int"):
    """bytes prepended to an image shift every header check by their length: the artefacts reported for a stage are
    those of the image, irrespective of what is prepended (as long as the image stays the first valid candidate)"""
    requires(0 <= x)
    ensures(valid_mz(P + img, len(P) + x, m) == valid_mz(img, x, m))
    let("S", P + img)
    assert_(len(S) == len(P) + len(img))
    assert_(forall(lambda i: S[len(P) + i] == img[i], 0, len(img)))
