from pyvc.lang import *


@contract("dissect.cobaltstrike.utils:netbios_encode", props=["C20", "C04"])
def _(data: "bytes", offset: "int"):
    pure()
    raises(ValueError, when=exists(lambda i: not (0 <= nb_byte(data, offset, i) < 256), 0, 2 * len(data)))
    ensures(nb_enc_post(data, offset, result))
    ensures(forall(lambda i: 0 <= nb_byte(data, offset, i) < 256, 0, 2 * len(data)))
    returns("bytes")
    local(barray="ilist")
    loop(0, index="k", invariant=[
        len(barray) == 2 * k,
        forall(lambda i: barray[i] == nb_byte(data, offset, i), 0, 2 * k)])
    domain(data=bytes_(alphabet=b"\x00\x5a\xff", maxlen=3), offset=ints(0, 0x41, 0x61, 240, 241, -1))


@contract("dissect.cobaltstrike.utils:netbios_decode", props=["C20", "C04"])
def _(data: "bytes", offset: "int"):
    pure()
    raises(IndexError, when=len(data) % 2 == 1)
    raises(ValueError, when=len(data) % 2 == 0 and exists(
        lambda j: not (0 <= (data[2 * j] - offset) * 16 + (data[2 * j + 1] - offset) < 256), 0, len(data) // 2))
    ensures(nb_dec_post(data, offset, result))
    returns("bytes")
    local(barray="ilist")
    loop(0, index="k", invariant=[
        len(barray) == k, 2 * k <= len(data),
        forall(lambda j: barray[j] == (data[2 * j] - offset) * 16 + (data[2 * j + 1] - offset), 0, k)])
    domain(data=bytes_(alphabet=b"\x41\x45\x4f\x61\x70", maxlen=4), offset=ints(0x41, 0x61, 0))


@lemma(props=["C20", "C04"])
def nb_roundtrip(d: "bytes", o: "int", e: "bytes", r: "bytes"):
    """decode(encode(d, o), o) == d for every byte string and offset for which encode returns."""
    requires(nb_enc_post(d, o, e), nb_dec_post(e, o, r))
    ensures(r == d)


@lemma(props=["C20"])
def seqsum_nonneg(s: "ilist"):
    """A sum of non-negative numbers is zero exactly when every summand is zero."""
    requires(forall(lambda i: s[i] >= 0, 0, len(s)))
    ensures(seqsum(s) >= 0)
    ensures(implies(seqsum(s) == 0, forall(lambda i: s[i] == 0, 0, len(s))))
    ensures(implies(forall(lambda i: s[i] == 0, 0, len(s)), seqsum(s) == 0))
    decreases(len(s))
    if len(s) > 0:
        seqsum_nonneg(s[:-1])


@contract("dissect.cobaltstrike.utils:xor", props=["C20", "C04", "C01", "C09", "C15", "C17"])
def _(data: "bytes", key: "bytes"):
    pure()
    ensures(xor_post(data, key, result))
    returns("bytes")
    ghost(entry=True, do=[seqsum_nonneg(key)])
    domain(data=bytes_(alphabet=b"\x00\x01\xfe", maxlen=5), key=bytes_(alphabet=b"\x00\x03\x80", maxlen=3))


@contract("dissect.cobaltstrike.utils:unpack", props=["C20", "C15", "C02", "C03", "C05", "C09", "C17", "C18"])
def _(data: "bytes", size: "opt[int]", byteorder: "lit:'little'|'big'", signed: "lit:False|True"):
    """unpack(data, size, byteorder, signed) is int.from_bytes of the first `size` bytes.
    The sixteen partial bindings (u8 ... p64be) are read from the module source; each binding's
    width and byte order are ground obligations (pyvc/ground.py)."""
    ensures(result == int.from_bytes(data if size is None else data[:size], byteorder, signed=signed))
    returns("int")
    domain(data=bytes_(alphabet=b"\x00\x01\x80\xff", maxlen=4), size=ints(None, 0, 1, 2, 3, 4), byteorder=lit("little", "big"), signed=lit(False, True))


@contract("dissect.cobaltstrike.utils:pack", props=["C20", "C04", "C05"])
def _(n: "int", size: "opt[int]", byteorder: "lit:'little'|'big'", signed: "lit:False|True"):
    requires(implies(size is not None, size >= 0))
    raises(OverflowError, when=not fits_bytes(n, byte_width(n) if size is None else size, signed=signed))
    ensures(fits_bytes(n, byte_width(n) if size is None else size, signed=signed))
    ensures(result == int.to_bytes(n, byte_width(n) if size is None else size, byteorder, signed=signed))
    returns("bytes")
    domain(n=ints(0, 1, 127, 128, 255, 256, 65535, 65536, -1, -128, -129, 2 ** 32 - 1, 2 ** 32), size=ints(None, 0, 1, 2, 4), byteorder=lit("little", "big"), signed=lit(False, True))


@lemma(props=["C20"])
def pack_unpack_le(n: "int", w: "int"):
    """unpack(pack(n, w), w) == n for every representable n (little endian, unsigned; the other three
    byte-order / signedness combinations are the lemmas below)"""
    requires(w >= 0, fits_bytes(n, w))
    ensures(int.from_bytes(int.to_bytes(n, w, "little")[:w], "little") == n)


@lemma(props=["C20"])
def pack_unpack_be(n: "int", w: "int"):
    requires(w >= 0, fits_bytes(n, w))
    ensures(int.from_bytes(int.to_bytes(n, w, "big")[:w], "big") == n)


@lemma(props=["C20"])
def pack_unpack_le_signed(n: "int", w: "int"):
    requires(w >= 0, fits_bytes(n, w, signed=True))
    ensures(int.from_bytes(int.to_bytes(n, w, "little", signed=True)[:w], "little", signed=True) == n)


@lemma(props=["C20"])
def pack_unpack_be_signed(n: "int", w: "int"):
    requires(w >= 0, fits_bytes(n, w, signed=True))
    ensures(int.from_bytes(int.to_bytes(n, w, "big", signed=True)[:w], "big", signed=True) == n)


@lemma(props=["C20"])
def unpack_pack(b: "bytes"):
    """pack(unpack(b), len(b)) == b"""
    ensures(int.to_bytes(int.from_bytes(b, "little"), len(b), "little") == b)
    ensures(int.to_bytes(int.from_bytes(b, "big"), len(b), "big") == b)
    ensures(int.to_bytes(int.from_bytes(b, "little", signed=True), len(b), "little", signed=True) == b)
    ensures(int.to_bytes(int.from_bytes(b, "big", signed=True), len(b), "big", signed=True) == b)


@lemma(props=["C20"])
def sum_remove(s: "str", c: "int"):
    """summing after removing a character equals summing while skipping it"""
    ensures(seqsum(remove_char(s, c)) == sum_excl(s, c))
    decreases(len(s))
    if len(s) > 0:
        sum_remove(s[:-1], c)
        seqsum_snoc(remove_char(s[:-1], c), ord(s[-1]))


@lemma(props=["C20"])
def seqsum_snoc(s: "ilist", x: "int"):
    ensures(seqsum(s + [x]) == seqsum(s) + x)


@contract("dissect.cobaltstrike.utils:checksum8", props=["C20"])
def _(text: "str"):
    ensures(result == cs8(text))
    returns("int")
    ghost(after='text = text.replace("/", "")', do=[sum_remove(old(text), 47)])
    domain(text=str_(alphabet="/aA0\n", maxlen=6))


@contract("dissect.cobaltstrike.utils:is_stager_x86", props=["C20"])
def _(uri: "str"):
    ensures(result == (cs8(uri) == 92))
    returns("bool")
    domain(uri=str_(alphabet="/aA0\n", maxlen=6))


@contract("dissect.cobaltstrike.utils:is_stager_x64", props=["C20"])
def _(uri: "str"):
    """x64 stager: checksum8 93 and exactly a slash plus four alphanumerics"""
    ensures(result == (cs8(uri) == 93 and stager_x64_shape(uri)))
    returns("bool")
    domain(uri=str_(alphabet="/aA0\n", maxlen=6))


@contract("dissect.cobaltstrike.utils:random_stager_uri", props=["C20"])
def _(x64: "bool", length: "int"):
    """partial correctness (termination of the rejection sampler is probabilistic, DESIGN.md C20 OUT)"""
    raises(ValueError, when=(x64 and length != 4) or length < 3)
    ensures(not ((x64 and length != 4) or length < 3))
    ensures(len(result) == length + 1)
    ensures(implies(x64, cs8(result) == 93 and stager_x64_shape(result)))
    ensures(implies(not x64, cs8(result) == 92))
    returns("str")
    loop(0, invariant=[])
    domain(x64=bools(), length=ints(-1, 0, 2, 3, 4, 5, 7))


@lemma(props=["C20", "C04"])
def xor_involutive(d: "bytes", k: "bytes", r: "bytes", r2: "bytes"):
    """XOR with a repeating key is length-preserving and self-inverse"""
    requires(xor_post(d, k, r), xor_post(r, k, r2))
    ensures(len(r) == len(d), r2 == d)
