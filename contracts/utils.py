from pyvc.lang import *


@contract("dissect.cobaltstrike.utils:netbios_encode", props=["C20", "C04"])
def _(data: "bytes", offset: "int"):
    raises(ValueError, when=exists(lambda i: not (0 <= nb_byte(data, offset, i) < 256), 0, 2 * len(data)))
    ensures(nb_enc_post(data, offset, result))
    ensures(forall(lambda i: 0 <= nb_byte(data, offset, i) < 256, 0, 2 * len(data)))
    returns("bytes")
    local(barray="ilist")
    loop(0, index="k", invariant=[
        len(barray) == 2 * k,
        forall(lambda i: barray[i] == nb_byte(data, offset, i), 0, 2 * k)])


@contract("dissect.cobaltstrike.utils:netbios_decode", props=["C20", "C04"])
def _(data: "bytes", offset: "int"):
    requires(len(data) % 2 == 0)
    raises(ValueError, when=exists(lambda j: not (0 <= (data[2 * j] - offset) * 16 + (data[2 * j + 1] - offset) < 256),
                                   0, len(data) // 2))
    ensures(nb_dec_post(data, offset, result))
    returns("bytes")
    local(barray="ilist")
    loop(0, index="k", invariant=[
        len(barray) == k,
        forall(lambda j: barray[j] == (data[2 * j] - offset) * 16 + (data[2 * j + 1] - offset), 0, k)])


@lemma(props=["C20", "C04"])
def nb_roundtrip(d: "bytes", o: "int", e: "bytes", r: "bytes"):
    """decode(encode(d, o), o) == d for every byte string and offset for which encode returns."""
    requires(nb_enc_post(d, o, e), nb_dec_post(e, o, r))
    ensures(r == d)


@lemma(props=["C20"])
def seqsum_nonneg(s: "ilist"):
    """A sum of non-negative numbers is zero exactly when every summand is zero."""
    requires(forall(lambda i: s[i] >= 0, 0, len(s)))
    ensures(seqsum(s) >= 0)
    ensures(implies(seqsum(s) == 0, forall(lambda i: s[i] == 0, 0, len(s))))
    ensures(implies(forall(lambda i: s[i] == 0, 0, len(s)), seqsum(s) == 0))
    decreases(len(s))
    if len(s) > 0:
        seqsum_nonneg(s[:-1])


@contract("dissect.cobaltstrike.utils:xor", props=["C20", "C04", "C01", "C09", "C15", "C17"])
def _(data: "bytes", key: "bytes"):
    ensures(xor_post(data, key, result))
    returns("bytes")
    ghost(entry=True, do=[seqsum_nonneg(key)])
