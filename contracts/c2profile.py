from pyvc.lang import *


@contract("dissect.cobaltstrike.c2profile:StringIterator.__init__", props=["C12", "C11", "C13"])
def _(self: "newobj:StringIterator", string: "str"):
    """the buffer is the list of the characters of the string, each reduced to its low byte; the position starts at 0"""
    initializes(buffer=[chr(ord(c) & 255) for c in string], index=0)
    returns("none")


@contract("dissect.cobaltstrike.c2profile:StringIterator.has_next", props=["C12", "C11", "C13"])
def _(self: "obj:StringIterator", count: "int"):
    ensures(result == (self.index + count <= len(self.buffer)))
    returns("bool")


@contract("dissect.cobaltstrike.c2profile:StringIterator.next", props=["C12", "C11", "C13"])
def _(self: "obj:StringIterator", count: "int"):
    """the next `count` characters (fewer at the end), the position moves by count"""
    requires(count >= 0, self.index >= 0)
    modifies(self.index)
    ensures(result == old(self.buffer[self.index:self.index + count]), self.index == old(self.index) + count)
    returns("clist")


@contract("dissect.cobaltstrike.c2profile:StringIterator.__iter__", props=["C12", "C11", "C13"])
def _(self: "obj:StringIterator"):
    modifies(self.index)
    ensures(self.index == 0, result is self)
    returns("any")


@contract("dissect.cobaltstrike.c2profile:StringIterator.__next__", props=["C12", "C11", "C13"])
def _(self: "obj:StringIterator"):
    """the character at the position, which moves on by one; StopIteration exactly at the end"""
    requires(self.index >= 0)
    modifies(self.index)
    raises(StopIteration, when=self.index >= len(self.buffer))
    ensures(old(self.index) < len(self.buffer))
    ensures(result == old(self.buffer[self.index]), self.index == old(self.index) + 1)
    returns("str")


@contract("dissect.cobaltstrike.c2profile:string_token_to_bytes", props=["C12", "C11", "C13"])
def _(token: "record[Token]"):
    """a STRING token decodes to exactly the bytes its body denotes under the documented escape table (spec lit_dec),
    for literals of any length and any mix of escapes; ValueError only for a truncated or non-hexadecimal \\x / \\u"""
    requires(token.type == "STRING")
    raises(ValueError)
    ghost(entry=True, do=[let("S", [chr(ord(c) & 255) for c in token.value[1:-1]])])
    ensures(list(result) == lit_dec(S, 0))
    returns("bytes")
    local(buffer="ilist")
    loop(0, invariant=[
        it.buffer == S, 0 <= it.index, it.index <= len(S),
        lit_dec(S, 0) == buffer + lit_dec(S, it.index)],
        decreases=len(S) - it.index)
