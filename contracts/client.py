from pyvc.lang import *


@contract("dissect.cobaltstrike.client:HttpBeaconClient.run", name="beacon-id", props=["C19"],
          slice=("self.beacon_id = beacon_id", "if self.beacon_id >"))
def _(self: "obj:HttpBeaconClient", beacon_id: "opt[int]"):
    """SLICE of run(): the two assignments and the range check that normalise the beacon id.  For every requested id
    (any integer, or None = 31 random bits): either ValueError, or the id presented is even, in [0, 2**31) and congruent to
    the requested id rounded down to an even number modulo 2**32."""
    modifies(self.beacon_id)
    raises(ValueError, when=beacon_id is not None and (beacon_id - beacon_id % 2) % 4294967296 > 2147483647)
    ensures(self.beacon_id % 2 == 0, 0 <= self.beacon_id, self.beacon_id < 2147483648)
    ensures(implies(beacon_id is not None, self.beacon_id == (beacon_id - beacon_id % 2) % 4294967296))
    returns("none")


@contract("dissect.cobaltstrike.client:HttpBeaconClient.run", name="session-keys", props=["C19"],
          slice=("random.seed(", "self.hmac_key ="))
def _(self: "obj:HttpBeaconClient"):
    """SLICE of run(): the session keys are a function of the beacon id alone - aes_rand is the first 128-bit draw of
    the generator seeded with id ^ 0xACCE55ED, and aes_key ++ hmac_key is its SHA-256 digest (16 + 16 bytes)."""
    requires(is_int(self.beacon_id), 0 <= as_int(self.beacon_id), as_int(self.beacon_id) < 2147483648)
    modifies(self.aes_rand, self.aes_key, self.hmac_key)
    ensures(self.aes_rand == int.to_bytes(seeded_bits(as_int(self.beacon_id) ^ 0xACCE55ED, 128, 0), 16, "big"))
    ensures(len(self.aes_rand) == 16)
    ensures(self.aes_key == sha256(self.aes_rand)[:16], self.hmac_key == sha256(self.aes_rand)[16:])
    ensures(len(self.aes_key) == 16, len(self.hmac_key) == 16, self.aes_key + self.hmac_key == sha256(self.aes_rand))
    returns("none")
