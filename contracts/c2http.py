from pyvc.lang import *


@contract("dissect.cobaltstrike.c2:parse_raw_http", props=["C16", "C08", "C07"])
def _(data: "bytes"):
    """request or response parts exactly as on the wire: the body is everything after the first CR LF CR LF byte for
    byte; headers are the 'Key: value' lines of the head in order (dict of the pairs); the start line must split
    into exactly three whitespace-separated parts, else ValueError (also for a non-integer status / invalid URI).
    The percent-decoded query parameters (urllib.parse.parse_qsl) are covered by the bounded round trip of C16."""
    raises(ValueError)
    ghost(entry=True, do=[let("FL", first_line(data)), let("P", ws_split(first_line(data).rstrip()))])
    ensures(len(P) == 3)
    ensures(result.body == http_body(data))
    ensures(dlog(result.headers) == header_pairs(split_on(header_block(data), b"\r\n"), len(split_on(header_block(data), b"\r\n"))))
    ensures(implies(FL.upper().startswith(b"HTTP/"), is_response(result) and result.reason == P[2]
                    and result.status == int(P[1].decode())))
    ensures(implies(not FL.upper().startswith(b"HTTP/"), is_request(result) and result.method == P[0]
                    and result.uri == url_path(P[1].decode("ascii", errors="ignore").encode())))
    returns("any")
    loop(0, index="k", invariant=[dlog(headers) == header_pairs(iter_seq, k)])
    domain(data=gen_http_messages())
