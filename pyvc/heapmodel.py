"""Heap cells: mutable lists, dicts, objects, files; records; class construction."""
import ast
import z3

from . import smt
from .smt import IS, VS, Val, I, B, ISq, VSq
from .values import (VInt, VBool, VSeq, VNone, VTuple, VList, VRef, VAny, VConst, VRecord, VOpt, Unsupported, fresh,
                     parse_type, box, unbox, wt, wt_seq, sym_value, is_bytes_fact)
from .engine import _ids, lit_seq

from .values import RECORDS, OBJECTS


def register_record(name, fields, module=None):
    RECORDS[name] = (dict(fields), module)


def register_object(name, fields, module=None):
    OBJECTS[name] = (dict(fields), module)


def sym_record(eng, st, cls, name=None):
    fields, _ = RECORDS[cls]
    vals, facts = {}, []
    for f, ty in fields.items():
        ty = parse_type(ty)
        if isinstance(ty, tuple) and ty[0] == "opt" and isinstance(ty[1], tuple) and ty[1][0] == "record":
            v, fs = sym_record(eng, st, ty[1][1], f"{name or cls}_{f}")
            vals[f] = VOpt(fresh(f"{name or cls}_{f}_isnone", B), v)
            facts += fs
        elif isinstance(ty, tuple) and ty[0] == "opt" and ty[1] != "any":
            v, fs = sym_value(f"{name or cls}_{f}", ty[1])
            vals[f] = VOpt(fresh(f"{name or cls}_{f}_isnone", B), v)
            facts += fs
        elif isinstance(ty, tuple) and ty[0] == "opt":
            t = fresh(f"{name or cls}_{f}", Val)
            vals[f] = VAny(t)
        elif isinstance(ty, tuple) and ty[0] == "record":
            v, fs = sym_record(eng, st, ty[1], f"{name or cls}_{f}")
            vals[f] = v
            facts += fs
        elif ty == "dict":
            # a dictionary with byte-string keys and values (HTTP headers / parameters)
            vals[f] = sym_dict(eng, st)
        else:
            v, fs = sym_value(f"{name or cls}_{f}", ty)
            vals[f] = v
            facts += fs
    return VRecord(cls, vals), facts


def sym_object(eng, st, name, cls, fkind="bytesio"):
    fields, module = OBJECTS[cls]
    ident = f"obj!{name}!{next(_ids)}"
    cell = {"__kind__": "obj", "__class__": cls, "__module__": module}
    for f, ty in fields.items():
        cell[f] = sym_field(eng, st, f"{name}_{f}", "file:" + fkind if ty == "file" else ty)
    st.heap[ident] = cell
    return VRef(ident, cls)


def sym_field(eng, st, name, ty):
    ty = parse_type(ty)
    if ty == "file":
        return eng.new_file(st, name, "bytesio")
    if isinstance(ty, str) and ty.startswith("file:"):
        return eng.new_file(st, name, ty.split(":")[1])
    if isinstance(ty, str) and ty.startswith("obj:"):
        return sym_object(eng, st, name, ty[4:])
    if isinstance(ty, tuple) and ty[0] == "mlist":
        v, facts = sym_value(name, ("list", ty[1]) if ty[1] != "int" else "ilist")
        ident = f"cell!{name}!{next(_ids)}"
        st.heap[ident] = v
        st.assume(*facts)
        return VRef(ident, "list")
    if isinstance(ty, tuple) and ty[0] == "record":
        v, facts = sym_record(eng, st, ty[1], name)
        st.assume(*facts)
        return v
    if isinstance(ty, tuple) and ty[0] == "opt":
        t = fresh(name, Val)
        w = wt(t, ty[1])
        st.assume(z3.Or(Val.is_VN(t), z3.And(*w) if w else z3.BoolVal(True)))
        return VAny(t)
    v, facts = sym_value(name, ty)
    st.assume(*facts)
    return v


def havoc_cell(eng, st, ident, hint_name=None, ls=None):
    cell = st.heap.get(ident)
    if cell is None:
        return
    if isinstance(cell, VSeq):
        t = fresh("h", ISq)
        if cell.kind in ("bytes", "bytearray"):
            st.assume(is_bytes_fact(t))
        st.heap[ident] = VSeq(t, cell.kind)
    elif isinstance(cell, VList):
        t = fresh("h", VSq)
        st.assume(*wt_seq(t, cell.et))
        st.heap[ident] = VList(t, cell.et, cell.kind)
    elif isinstance(cell, dict):
        k = cell.get("__kind__")
        if k == "file":
            nc = dict(cell)
            p = fresh("pos", I)
            st.assume(p >= 0)
            nc["pos"] = VInt(p)
            st.heap[ident] = nc
        elif k == "emptylist":
            ty = None
            nm = cell.get("name") or hint_name
            if ls is not None and nm in ls.locals:
                ty = ls.locals[nm]
            elif eng.fr and nm in eng.fr.contract.locals:
                ty = eng.fr.contract.locals[nm]
            if ty is None:
                raise Unsupported(f"list {nm!r} is empty before the loop and mutated in it: declare local({nm}=...)")
            ty = parse_type(ty)
            if ty == "ilist":
                st.heap[ident] = VSeq(fresh("h", ISq), "ilist")
            else:
                t = fresh("h", VSq)
                et = ty[1] if isinstance(ty, tuple) else "any"
                st.assume(*wt_seq(t, et))
                st.heap[ident] = VList(t, et)
        elif k == "dict":
            nc = dict(cell)
            nc["keys"] = fresh("dkeys", VSq)
            nc["map"] = fresh("dmap", z3.ArraySort(Val, Val))
            nc["log"] = fresh("dlog", VSq)
            st.heap[ident] = nc
        elif k == "obj":
            pass


def havoc_object_fields(eng, st, ident, stmt, ls):
    """Fields of an object assigned inside a loop body are havoced at the loop head."""
    cell = st.heap[ident]
    assigned = set()
    for node in ast.walk(stmt):
        if isinstance(node, ast.Attribute) and isinstance(node.ctx, ast.Store):
            assigned.add(node.attr)
    # fields modified through methods under contract called in the loop body: obj.m(...), next(obj)
    names = {n for n, v in st.env.items() if isinstance(v, VRef) and v.ident == ident}
    cls, mod = cell.get("__class__"), cell.get("__module__")
    for node in ast.walk(stmt):
        meth = None
        if isinstance(node, ast.Call) and isinstance(node.func, ast.Attribute) and isinstance(node.func.value, ast.Name) \
                and node.func.value.id in names:
            meth = node.func.attr
        elif isinstance(node, ast.Call) and isinstance(node.func, ast.Name) and node.func.id == "next" and node.args \
                and isinstance(node.args[0], ast.Name) and node.args[0].id in names:
            meth = "__next__"
        elif isinstance(node, ast.For) and isinstance(node.iter, ast.Name) and node.iter.id in names:
            for mname in ("__iter__", "__next__"):
                c = eng.cdb.get(f"{mod}:{cls}.{mname}")
                if c is not None:
                    for m in c.modifies:
                        if isinstance(m, ast.Attribute):
                            assigned.add(m.attr)
        if meth is not None:
            c = eng.cdb.get(f"{mod}:{cls}.{meth}")
            if c is None:
                continue
            for m in c.modifies:
                if isinstance(m, ast.Attribute) and isinstance(m.value, ast.Name) and c.params and m.value.id == c.params[0][0]:
                    assigned.add(m.attr)
    nc = dict(cell)
    for f in assigned:
        if f in nc and not f.startswith("__"):
            nc[f] = eng.fresh_like(st, f, nc[f])
    st.heap[ident] = nc


def havoc_target(eng, st, cs, mnode):
    """modifies(x) / modifies(x.field): havoc what the callee may change (evaluated in callee env `cs`)."""
    if isinstance(mnode, ast.Name) or isinstance(mnode, ast.Attribute):
        cs.heap = st.heap
        v = eng.ev1(mnode, cs)
        if isinstance(v, VRef):
            havoc_cell(eng, st, v.ident)
            cell = st.heap.get(v.ident)
            if isinstance(cell, dict) and cell.get("__kind__") == "obj":
                raise Unsupported("modifies(object): name the fields")
            return
        if isinstance(mnode, ast.Attribute):
            ov = eng.ev1(mnode.value, cs)
            if isinstance(ov, VRef):
                cell = dict(st.heap[ov.ident])
                cell[mnode.attr] = eng.fresh_like(st, mnode.attr, cell[mnode.attr])
                st.heap[ov.ident] = cell
                return
        raise Unsupported(f"modifies target {ast.unparse(mnode)} is not a reference")
    raise Unsupported(f"modifies target {ast.unparse(mnode)}")


def set_field(eng, st, ov, attr, v, node):
    if isinstance(ov, VRef):
        cell = st.heap.get(ov.ident)
        if isinstance(cell, dict) and cell.get("__kind__") == "obj":
            nc = dict(cell)
            nc[attr] = v
            st.heap[ov.ident] = nc
            return
    if isinstance(ov, VRecord):
        raise Unsupported("assignment to a field of an immutable record")
    raise Unsupported(f"attribute assignment on {ov!r}")


def set_item(eng, st, bv, iv, v, node):
    if isinstance(bv, VRef):
        cell = st.heap.get(bv.ident)
        if isinstance(cell, dict) and cell.get("__kind__") == "dict":
            dict_set(eng, st, bv, cell, iv, v)
            return [st]
        if isinstance(cell, VSeq):
            i = eng.as_int(st, iv, node)
            L = IS.len(cell.t)
            j = eng.norm_index(i, L)
            eng.implicit_error(st, z3.And(0 <= j, j < L), "IndexError", node, "index")
            st.heap[bv.ident] = VSeq(IS.upd(cell.t, j, eng.as_int(st, v, node)), cell.kind)
            return [st]
        if isinstance(cell, VList):
            i = eng.as_int(st, iv, node)
            L = VS.len(cell.t)
            j = eng.norm_index(i, L)
            eng.implicit_error(st, z3.And(0 <= j, j < L), "IndexError", node, "index")
            st.heap[bv.ident] = VList(VS.upd(cell.t, j, box(eng.deref(st, v))), cell.et, cell.kind)
            return [st]
    raise Unsupported(f"item assignment on {bv!r}")


# --------------------------------------------------------------------------- dicts
# insertion-ordered association model: keys (VSq of boxed keys, distinct, insertion order) + Array key->value

def new_dict(eng, st, log=None):
    """dict cell: insertion-ordered distinct keys + key->value map, plus the full insertion log (every
    d[k] = v in order); the dict's content is a function of the log (Python: dict(pairs))."""
    ident = f"dict!{next(_ids)}"
    st.heap[ident] = {"__kind__": "dict", "keys": VS.empty if log is None else fresh("dkeys", VSq),
                      "map": z3.K(Val, Val.VN) if log is None else fresh("dmap", z3.ArraySort(Val, Val)),
                      "log": VS.empty if log is None else log}
    return VRef(ident, "dict")


def sym_dict(eng, st, et=("tuple", "bytes", "bytes")):
    from .values import wt_seq
    log = fresh("dlog", VSq)
    ref = new_dict(eng, st, log=log)
    cell = st.heap[ref.ident]
    cell["vt"] = et[2]
    st.assume(*wt_seq(log, et))
    # the keys are byte strings and every stored value is a byte string
    k = fresh("dk", I)
    kk = VS.at(cell["keys"], k)
    from .values import Binder
    with Binder():
        body = z3.And(*(wt(kk, et[1]) + wt(z3.Select(cell["map"], kk), et[2])))
    st.assume(z3.ForAll([k], z3.Implies(z3.And(0 <= k, k < VS.len(cell["keys"])), body), patterns=[kk]))
    return ref


def dict_has_term(cell, kt):
    j = fresh("j", I)
    return z3.Exists([j], z3.And(0 <= j, j < VS.len(cell["keys"]), VS.at(cell["keys"], j) == kt),
                     patterns=[VS.at(cell["keys"], j)])


def dict_set(eng, st, ref, cell, key, v):
    kt = box(eng.deref(st, key))
    vt = box(eng.deref(st, v))
    has = dict_has_term(cell, kt)
    nc = dict(cell)
    newkeys = fresh("dkeys", VSq)
    st.assume(newkeys == z3.If(has, cell["keys"], VS.cat(cell["keys"], VS.unit(kt))))
    nc["keys"] = newkeys
    nc["map"] = z3.Store(cell["map"], kt, vt)
    from .values import mk_vsq
    nc["log"] = VS.cat(cell.get("log", VS.empty), VS.unit(Val.VT(mk_vsq([kt, vt]))))
    nc.pop("static", None)
    st.heap[ref.ident] = nc


def dict_method(eng, st, ref, cell, name, args, kwargs, node):
    if name == "get" and cell.get("static") is not None:
        from .engine import ite_val
        key = eng.deref(st, args[0])
        res = eng.deref(st, args[1]) if len(args) > 1 else VNone()
        for k0, v0 in reversed(cell["static"]):
            res = ite_val(eng.eq_vals(st, key, k0), v0, res)
        return [(st, res)]
    if name == "get":
        kt = box(eng.deref(st, args[0]))
        has = dict_has_term(cell, kt)
        dflt = box(eng.deref(st, args[1])) if len(args) > 1 else Val.VN
        return [(st, VAny(z3.If(has, z3.Select(cell["map"], kt), dflt)))]
    if name == "items":
        return [(st, VConst(("dictitems", ref), "dictitems"))]
    raise Unsupported(f"dict method {name}")


def iteration_space(eng, st, itv, stmt):
    if isinstance(itv, VConst) and itv.what == "dictitems":
        ref = itv.py[1]
        cell = st.heap[ref.ident]
        keys, mp = cell["keys"], cell["map"]
        return VS.len(keys), (lambda k: VTuple([VAny(VS.at(keys, k)), VAny(z3.Select(mp, VS.at(keys, k)))]))
    raise Unsupported(f"iteration over {itv!r}")


def construct(eng, st, target, args, kwargs, node):
    modname, cname = target.split(":")
    if cname in RECORDS:
        fields, _ = RECORDS[cname]
        names = list(fields)
        vals = {}
        for n, v in zip(names, args):
            vals[n] = v
        vals.update(kwargs)
        m = eng.repo.module(modname)
        for n in names:
            if n not in vals:
                dflt = record_default(eng, m, cname, n)
                if dflt is None:
                    raise Unsupported(f"{cname}(): missing field {n}")
                vals[n] = dflt
        return [(st, VRecord(cname, {n: vals[n] for n in names}))]
    from .calls import contract_call
    c = eng.cdb.get(f"{target}.__init__")
    if c is not None:
        # object construction through the constructor's contract: allocate, then call __init__
        ident = f"obj!{cname}!{next(_ids)}"
        fields, module = OBJECTS.get(cname, ({}, modname))
        st.heap[ident] = {"__kind__": "obj", "__class__": cname, "__module__": modname, "__fresh__": True}
        ref = VRef(ident, cname)
        outs = []
        from .calls import bind_params
        module_, fdef_ = eng.repo.func(f"{target}.__init__")
        # declared fields the constructor's contract does not fix are arbitrary values of their declared type, constrained
        # only by the constructor's ensures clauses
        cell0 = st.heap[ident]
        for fld, fty in fields.items():
            if fld not in c.initializes and fld not in cell0:
                cell0[fld] = sym_field(eng, st, f"{cname}_{fld}", fty)
        for s, _ in contract_call(eng, st, f"{target}.__init__", [ref] + args, kwargs, node):
            if c.initializes:
                bound = bind_params(eng, c, fdef_, module_, [ref] + list(args), kwargs)
                cs = s.fork()
                cs.env = dict(bound)
                cs.heap = s.heap
                cell = dict(s.heap[ident])
                n0 = len(cs.pc)
                for fld, expr in c.initializes.items():
                    cell[fld] = eng.named(s, eng.ev1(expr, cs), fld)
                for fact in cs.pc[n0:]:
                    s.assume(fact)          # facts that define the initial field values (e.g. a comprehension's elements)
                cell.pop("__fresh__", None)
                s.heap[ident] = cell
            outs.append((s, ref))
        return outs
    raise Unsupported(f"construction of {target}")


def record_default(eng, module, cname, field):
    cls = module.classes.get(cname) if module else None
    while cls is not None:
        for sub in cls.body:
            if isinstance(sub, ast.AnnAssign) and isinstance(sub.target, ast.Name) and sub.target.id == field \
                    and sub.value is not None:
                try:
                    return eng.const_value(ast.literal_eval(sub.value))
                except Exception:
                    if isinstance(sub.value, ast.Name):
                        return eng.getattr_(None, VConst(f"{module.modname}:{cname}", "class"), sub.value.id, sub)
                    return None
        base = cls.bases[0] if cls.bases else None
        cls = module.classes.get(base.id) if isinstance(base, ast.Name) else None
    return None


def sym_cstruct(eng, st, name, ty):
    """symbolic cstruct instance "cstruct:<module>:<instance>:<Struct>": every field at its full width"""
    from . import cstructmodel as cm
    _, modname, inst, sname = ty.split(":")
    module = eng.repo.module(modname)
    defs = cm.module_cdefs(eng, module, inst)
    fields = {}
    for (f, fty, fc) in defs.structs[sname]:
        base = defs.enums[fty][0] if fty in defs.enums else fty
        if fty == "char" and fc is not None:
            v, facts = sym_value(f"{name}_{f}", "bytes")
            st.assume(*facts)
            n = cm.fixed_count(defs, fc)
            if n is not None:
                st.assume(IS.len(v.t) == n)
            fields[f] = v
        elif base in cm.PRIMS and fc is None:
            size, signed = cm.PRIMS[base]
            t = fresh(f"{name}_{f}", I)
            st.assume(t >= (-(256 ** size // 2) if signed else 0), t < (256 ** size // 2 if signed else 256 ** size))
            fields[f] = cm.enum_value(fty, inst, module, t) if fty in defs.enums else VInt(t)
        else:
            raise Unsupported(f"symbolic cstruct field {f}: {fty}[{fc}]")
    ident = f"cstruct!{sname}!{name}!{next(_ids)}"
    st.heap[ident] = dict({"__kind__": "obj", "__class__": f"cstruct:{sname}", "__module__": modname,
                           "__cdefs__": (modname, inst)}, **fields)
    return VRef(ident, f"cstruct:{sname}")
