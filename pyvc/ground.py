"""Ground obligations: finite facts about literals / tables / axioms, each discharged exhaustively."""
from . import smt


def obligations_for(prop, repo, cdb):
    out = []
    if prop in ("C20", "C04", "C09", "C01", "C17", "C15"):
        def bx():
            res = smt.prove_bx_axioms()
            bad = [n for n, r, _ in res if r != "unsat"]
            return not bad, {"backend": "z3-5.1 bit-vector", "facts": [n for n, _, _ in res], "failed": bad}
        out.append(("ground:bx-axioms-hold-in-BV8", bx))
    return out
