"""Ground obligations: finite facts about literals / tables / axioms, each discharged exhaustively."""
from . import smt


def obligations_for(prop, repo, cdb):
    out = []
    if prop in ("C20", "C04", "C09", "C01", "C17", "C15"):
        def bx():
            res = smt.prove_bx_axioms()
            bad = [n for n, r, _ in res if r != "unsat"]
            return not bad, {"backend": "z3-5.1 bit-vector", "facts": [n for n, _, _ in res], "failed": bad}
        out.append(("ground:bx-axioms-hold-in-BV8", bx))
    return out


def _partials(repo):
    import ast, re
    m = repo.module("dissect.cobaltstrike.utils")
    out = {}
    for name, node in m.assigns.items():
        if isinstance(node, ast.Call) and ast.unparse(node.func) in ("partial", "functools.partial"):
            out[name] = (ast.unparse(node.args[0]), {k.arg: ast.literal_eval(k.value) for k in node.keywords})
    return out


def _partial_obligation(repo, name):
    import re

    def run():
        parts = _partials(repo)
        mm = re.match(r"^(u|p)(8|16|32|64)(be)?$", name)
        if name not in parts:
            return False, {"missing": name}
        base, kw = parts[name]
        if mm:
            want_base = "unpack" if mm.group(1) == "u" else "pack"
            want = {"size": int(mm.group(2)) // 8}
            if mm.group(3):
                want["byteorder"] = "big"
        else:
            want_base = name.split("_")[0]
            want = {"byteorder": "big"}
        ok = base == want_base and kw == want
        return ok, {"binding": [base, kw], "expected": [want_base, want], "backend": "ground (AST of utils.py)"}
    return run


_old_obligations_for = obligations_for


def obligations_for(prop, repo, cdb):
    out = _old_obligations_for(prop, repo, cdb)
    if prop == "C20":
        for name in ["unpack_be", "pack_be", "u8", "p8", "u16", "p16", "u16be", "p16be", "u32", "p32", "u32be", "p32be",
                     "u64", "p64", "u64be", "p64be"]:
            out.append((f"ground:partial-binding:{name}", _partial_obligation(repo, name)))
        def derived():
            res = smt.IS.prove_derived() + smt.VS.prove_derived()
            bad = [n for n, r, _ in res if r != "unsat"]
            return not bad, {"backend": "z3-5.1", "facts": [n for n, _, _ in res], "failed": bad}
        out.append(("ground:prelude-derived-axioms-follow-from-base", derived))
    return out


def _version_tables(repo):
    import ast
    m = repo.module("dissect.cobaltstrike.version")
    return {n: ast.literal_eval(m.assigns[n]) for n in ("MAX_ENUM_TO_VERSION", "PE_EXPORT_STAMP_TO_VERSION")}


_MONTHS = {m: i + 1 for i, m in enumerate("Jan Feb Mar Apr May Jun Jul Aug Sep Oct Nov Dec".split())}


def parse_version_text(text):
    """independent reading of "Cobalt Strike <major>.<minor>[.<patch>] (<Mon> <dd>, <yyyy>)" """
    import re
    mm = re.fullmatch(r"Cobalt Strike (\d+)\.(\d+)(?:\.(\d+))? \((\w{3}) (\d{2}), (\d{4})\)", text)
    if not mm:
        return None
    ver = (int(mm.group(1)), int(mm.group(2)), int(mm.group(3) or 0))
    return ver, (int(mm.group(6)), _MONTHS[mm.group(4)], int(mm.group(5)))


def _monotone(repo, table):
    def run():
        t = _version_tables(repo)[table]
        keys = sorted(t)
        bad = []
        for k in keys:
            if parse_version_text(t[k]) is None:
                bad.append(("unparsable", k, t[k]))
        for a, b in zip(keys, keys[1:]):
            pa, pb = parse_version_text(t[a]), parse_version_text(t[b])
            if pa and pb and not (pa[0] <= pb[0] and pa[1] <= pb[1]):
                bad.append(("not monotone", a, t[a], b, t[b]))
        return not bad, {"backend": "ground (literal table, all adjacent key pairs => all pairs by transitivity)",
                         "entries": len(keys), "failed": bad[:5]}
    return run


_old2 = obligations_for


def obligations_for(prop, repo, cdb):
    out = _old2(prop, repo, cdb)
    if prop == "C18":
        out.append(("ground:table-monotone:MAX_ENUM_TO_VERSION", _monotone(repo, "MAX_ENUM_TO_VERSION")))
        out.append(("ground:table-monotone:PE_EXPORT_STAMP_TO_VERSION", _monotone(repo, "PE_EXPORT_STAMP_TO_VERSION")))
    return out
