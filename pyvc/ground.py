"""Ground obligations: finite facts about literals / tables / axioms, each discharged exhaustively."""
from . import smt


def obligations_for(prop, repo, cdb):
    out = []
    if prop in ("C20", "C04", "C09", "C01", "C17", "C15"):
        def bx():
            res = smt.prove_bx_axioms()
            bad = [n for n, r, _ in res if r != "unsat"]
            return not bad, {"backend": "z3-5.1 bit-vector", "facts": [n for n, _, _ in res], "failed": bad}
        out.append(("ground:bx-axioms-hold-in-BV8", bx))
    return out


def _partials(repo):
    import ast, re
    m = repo.module("dissect.cobaltstrike.utils")
    out = {}
    for name, node in m.assigns.items():
        if isinstance(node, ast.Call) and ast.unparse(node.func) in ("partial", "functools.partial"):
            out[name] = (ast.unparse(node.args[0]), {k.arg: ast.literal_eval(k.value) for k in node.keywords})
    return out


def _partial_obligation(repo, name):
    import re

    def run():
        parts = _partials(repo)
        mm = re.match(r"^(u|p)(8|16|32|64)(be)?$", name)
        if name not in parts:
            return False, {"missing": name}
        base, kw = parts[name]
        if mm:
            want_base = "unpack" if mm.group(1) == "u" else "pack"
            want = {"size": int(mm.group(2)) // 8}
            if mm.group(3):
                want["byteorder"] = "big"
        else:
            want_base = name.split("_")[0]
            want = {"byteorder": "big"}
        ok = base == want_base and kw == want
        return ok, {"binding": [base, kw], "expected": [want_base, want], "backend": "ground (AST of utils.py)"}
    return run


_old_obligations_for = obligations_for


def obligations_for(prop, repo, cdb):
    out = _old_obligations_for(prop, repo, cdb)
    if prop == "C20":
        for name in ["unpack_be", "pack_be", "u8", "p8", "u16", "p16", "u16be", "p16be", "u32", "p32", "u32be", "p32be",
                     "u64", "p64", "u64be", "p64be"]:
            out.append((f"ground:partial-binding:{name}", _partial_obligation(repo, name)))
        def derived():
            res = smt.IS.prove_derived() + smt.VS.prove_derived()
            bad = [n for n, r, _ in res if r != "unsat"]
            return not bad, {"backend": "z3-5.1", "facts": [n for n, _, _ in res], "failed": bad}
        out.append(("ground:prelude-derived-axioms-follow-from-base", derived))
    return out


def _version_tables(repo):
    import ast
    m = repo.module("dissect.cobaltstrike.version")
    return {n: ast.literal_eval(m.assigns[n]) for n in ("MAX_ENUM_TO_VERSION", "PE_EXPORT_STAMP_TO_VERSION")}


_MONTHS = {m: i + 1 for i, m in enumerate("Jan Feb Mar Apr May Jun Jul Aug Sep Oct Nov Dec".split())}


def parse_version_text(text):
    """independent reading of "Cobalt Strike <major>.<minor>[.<patch>] (<Mon> <dd>, <yyyy>)" """
    import re
    mm = re.fullmatch(r"Cobalt Strike (\d+)\.(\d+)(?:\.(\d+))? \((\w{3}) (\d{2}), (\d{4})\)", text)
    if not mm:
        return None
    ver = (int(mm.group(1)), int(mm.group(2)), int(mm.group(3) or 0))
    return ver, (int(mm.group(6)), _MONTHS[mm.group(4)], int(mm.group(5)))


def _monotone(repo, table):
    def run():
        t = _version_tables(repo)[table]
        keys = sorted(t)
        bad = []
        for k in keys:
            if parse_version_text(t[k]) is None:
                bad.append(("unparsable", k, t[k]))
        for a, b in zip(keys, keys[1:]):
            pa, pb = parse_version_text(t[a]), parse_version_text(t[b])
            if pa and pb and not (pa[0] <= pb[0] and pa[1] <= pb[1]):
                bad.append(("not monotone", a, t[a], b, t[b]))
        return not bad, {"backend": "ground (literal table, all adjacent key pairs => all pairs by transitivity)",
                         "entries": len(keys), "failed": bad[:5]}
    return run


_old2 = obligations_for


def obligations_for(prop, repo, cdb):
    out = _old2(prop, repo, cdb)
    if prop == "C18":
        out.append(("ground:table-monotone:MAX_ENUM_TO_VERSION", _monotone(repo, "MAX_ENUM_TO_VERSION")))
        out.append(("ground:table-monotone:PE_EXPORT_STAMP_TO_VERSION", _monotone(repo, "PE_EXPORT_STAMP_TO_VERSION")))
    return out


# --------------------------------------------------------------------------- profile grammar invariants (C10, C11, C13)
# The grammar is finite: these facts are computed exhaustively from the compiled rule list of c2profile.lark (read with
# lark's own loader on every run) and from the class bodies of c2profile.py / the BeaconGate tables of beacon.py.

def _grammar(repo):
    import os
    from lark import Lark
    return Lark.open(os.path.join(repo.root, "dissect", "cobaltstrike", "c2profile.lark"), parser="lalr", maybe_placeholders=False)


def _keyword_seq(P, r):
    """terminal sequence of an expansion with anonymous keyword terminals replaced by their text"""
    terms = {t.name: t for t in P.terminals}
    out = []
    for s in r.expansion:
        if s.is_term and type(terms[s.name].pattern).__name__ == "PatternStr":
            out.append(terms[s.name].pattern.value)
        else:
            out.append("<" + s.name + ">")
    return tuple(out)


def _alias_unique(repo):
    def run():
        P = _grammar(repo)
        seen, bad = {}, []
        for r in P.rules:
            if r.alias is None:
                continue
            # ignore the optional / starred sub-rule when comparing: keyword terminals identify the statement
            kws = tuple(x for x in _keyword_seq(P, r) if not x.startswith("<__"))
            key = (str(r.origin.name), r.alias)
            if key in seen and seen[key] != kws and [k for k in kws if not k.startswith("<")] != [k for k in seen[key] if not k.startswith("<")]:
                bad.append({"rule": key[0], "alias": r.alias, "expansions": [list(seen[key]), list(kws)]})
            seen.setdefault(key, kws)
        return not bad, {"backend": "ground (compiled rule list of c2profile.lark)", "rules": len(P.rules), "failed": bad[:5]}
    return run


def _class_attrs(repo, cls):
    import ast
    m = repo.module("dissect.cobaltstrike.c2profile")
    node = m.classes[cls]
    out = {}
    for st in node.body:
        if isinstance(st, ast.Assign) and isinstance(st.targets[0], ast.Name) and isinstance(st.value, ast.Attribute):
            out[st.targets[0].id] = st.value.attr
    return out


def _builder_matches(repo, cls, rule):
    def run():
        P = _grammar(repo)
        attrs = _class_attrs(repo, cls)
        arity = {}
        for r in P.rules:
            if str(r.origin.name) == rule and r.alias:
                arity[r.alias] = sum(1 for s in r.expansion if not s.is_term and s.name == "string")
        want = {"_enable": 0, "set_option": 1, "_pair": 2, "_header": 2, "_parameter": 2}
        bad = []
        for a, kind in attrs.items():
            if a not in arity:
                bad.append({"builder_attribute": a, "problem": f"no expansion of `{rule}` has this alias"})
            elif want.get(kind) != arity[a]:
                bad.append({"builder_attribute": a, "kind": kind, "grammar_arity": arity[a]})
        for a in arity:
            if a not in attrs:
                bad.append({"alias": a, "problem": f"class {cls} has no builder attribute for this statement"})
        return not bad, {"backend": "ground (class body vs rule list)", "attributes": len(attrs), "aliases": len(arity), "failed": bad[:6]}
    return run


def _beacon_gate_names(repo):
    def run():
        import ast
        P = _grammar(repo)
        aliases, keywords = set(), {}
        terms = {t.name: t for t in P.terminals}
        for r in P.rules:
            if str(r.origin.name) == "beacon_gate_options":
                aliases.add(r.alias)
                keywords[r.alias] = terms[r.expansion[0].name].pattern.value
        m = repo.module("dissect.cobaltstrike.beacon")
        src = open(m.path).read() if hasattr(m, "path") else ""
        names = set()
        # every name the configuration decoder can print: string literals of beacon_gate_options_string and the flag fields
        fdef = m.funcs.get("beacon_gate_options_string")
        for n in ast.walk(fdef):
            if isinstance(n, ast.Constant) and isinstance(n.value, str) and n.value and n.value[0].isupper() and n.value.isalnum():
                names.add(n.value)
        bad = [{"name": n, "problem": "no beacon_gate statement with alias " + n.lower()} for n in sorted(names) if n.lower() not in aliases]
        bad += [{"alias": a, "keyword": k, "problem": "alias is not the lower-cased keyword"} for a, k in keywords.items() if k.lower() != a]
        return not bad, {"backend": "ground (names printed by beacon_gate_options_string vs grammar aliases)", "names": len(names),
                         "failed": bad[:6]}
    return run


def keyword_table(repo):
    """[[rule, alias, [keywords...]]] for every aliased expansion of the grammar (sorted, duplicates removed)"""
    P = _grammar(repo)
    rows = set()
    for r in P.rules:
        if r.alias is None:
            continue
        kws = tuple(k for k in _keyword_seq(P, r) if not k.startswith("<"))
        rows.add((str(r.origin.name), str(r.alias), kws))
    return [[a, b, list(c)] for a, b, c in sorted(rows)]


def _keywords_kept(repo):
    """every statement form recorded in contracts/spec/malleable_keywords.json is still written under the same keyword(s)
    (a grammar may gain statements; it may not respell or drop one: parser and printer share the grammar file, so a respelt
    keyword round-trips through both and only an independent record notices)"""
    def run():
        import json, os
        rec = json.load(open(os.path.join(os.path.dirname(os.path.dirname(os.path.abspath(__file__))), "contracts", "spec",
                                          "malleable_keywords.json")))
        cur = {(a, b, tuple(c)) for a, b, c in keyword_table(repo)}
        missing = [r for r in rec if (r[0], r[1], tuple(r[2])) not in cur]
        return not missing, {"backend": "ground (recorded keyword table vs compiled rule list of c2profile.lark)", "recorded": len(rec),
                             "current": len(cur), "failed": missing[:5]}
    return run


_old3 = obligations_for


def obligations_for(prop, repo, cdb):
    out = _old3(prop, repo, cdb)
    if prop in ("C10", "C13", "C11"):
        out.append(("ground:grammar-alias-identifies-statement", _alias_unique(repo)))
        out.append(("ground:statements-keep-their-keywords", _keywords_kept(repo)))
    if prop in ("C11", "C13"):
        out.append(("ground:builder-matches-grammar:BeaconGateBlock", _builder_matches(repo, "BeaconGateBlock", "beacon_gate_options")))
        out.append(("ground:builder-matches-grammar:ExecuteOptionsBlock", _builder_matches(repo, "ExecuteOptionsBlock", "execute_options")))
        out.append(("ground:beacon-gate-names-have-statements", _beacon_gate_names(repo)))
    return out
