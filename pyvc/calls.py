"""Call evaluation: spec helpers, builtin models, method models, calls through contracts."""
import ast
import z3

from . import smt
from .smt import IS, VS, Val, I, B, ISq, VSq
from .values import (VInt, VBool, VSeq, VNone, VTuple, VList, VRef, VAny, VConst, VRecord, VOpt, Unsupported, fresh,
                     parse_type, box, unbox, wt, sym_value, is_bytes_fact, is_chars_fact, mk_vsq)
from .engine import lit_seq, ite_val, exc_isa, _ids

LOGGER_NAMES = {"logger", "logging", "log"}


def is_logger_call(e):
    return (isinstance(e, ast.Call) and isinstance(e.func, ast.Attribute) and isinstance(e.func.value, ast.Name)
            and e.func.value.id in LOGGER_NAMES) or \
           (isinstance(e, ast.Call) and isinstance(e.func, ast.Attribute) and isinstance(e.func.value, ast.Attribute)
            and e.func.value.attr == "logger")


def eval_call(eng, e, st):
    # ---- spec helpers that need unevaluated arguments
    if isinstance(e.func, ast.Name):
        fn = e.func.id
        if fn in ("forall", "exists") and fn not in st.env:
            kw = {k.arg: k.value for k in e.keywords}
            lam = e.args[0]
            lo = hi = None
            if len(e.args) >= 3:
                lo = eng.as_int(st, eng.ev1(e.args[1], st))
                hi = eng.as_int(st, eng.ev1(e.args[2], st))
            elif len(e.args) == 2:
                lo = z3.IntVal(0)
                hi = eng.as_int(st, eng.ev1(e.args[1], st))
            return [(st, VBool(eng.quantifier(st, lam, lo, hi, exists=(fn == "exists"), trigger=kw.get("trigger"))))]
        if fn == "old" and fn not in st.env:
            init = eng.fr.init_state
            s0 = init.fork()
            for k, v in st.env.items():   # logical (bound) variables stay visible
                if k not in s0.env:
                    s0.env[k] = v
            s0.env.update({k: v for k, v in st.env.items() if k.startswith("$")})
            return [(st, eng.ev1(e.args[0], s0))]
        if fn == "implies" and fn not in st.env:
            a = eng.truth(st, eng.ev1(e.args[0], st))
            if z3.is_false(a):
                return [(st, VBool(True))]
            b = eng.truth(st, eng.ev1(e.args[1], st))
            return [(st, VBool(z3.Implies(a, b)))]
        if fn == "iff" and fn not in st.env:
            a = eng.truth(st, eng.ev1(e.args[0], st))
            b = eng.truth(st, eng.ev1(e.args[1], st))
            return [(st, VBool(a == b))]
        if fn == "ite" and fn not in st.env:
            c = eng.truth(st, eng.ev1(e.args[0], st))
            if z3.is_true(c):
                return [(st, eng.ev1(e.args[1], st))]
            if z3.is_false(c):
                return [(st, eng.ev1(e.args[2], st))]
            return [(st, ite_val(c, eng.ev1(e.args[1], st), eng.ev1(e.args[2], st)))]
        if fn == "bxor" and fn not in st.env:
            a = eng.as_int(st, eng.ev1(e.args[0], st))
            b = eng.as_int(st, eng.ev1(e.args[1], st))
            return [(st, VInt(smt.bx_const(a, b)))]
        if fn == "occ" and fn not in st.env:
            F = eng.as_iseq(st, eng.ev1(e.args[0], st))
            N = eng.as_iseq(st, eng.ev1(e.args[1], st))
            o = eng.as_int(st, eng.ev1(e.args[2], st))
            return [(st, VBool(smt.occ(F.t, N.t, o)))]
        if fn in ("aes_enc", "aes_dec", "hmac_sha256", "sha256") and fn not in st.env:
            vals = [eng.as_iseq(st, eng.ev1(a, st)).t for a in e.args]
            f = {"aes_enc": smt.aes_enc, "aes_dec": smt.aes_dec, "hmac_sha256": smt.hmac256, "sha256": smt.sha256}[fn]
            return [(st, VSeq(f(*vals), "bytes"))]
        if fn in ("rsa_ok", "rsa_pt", "rsa_k", "keypair") and fn not in st.env:
            from .values import box as _box
            vals = [eng.deref(st, eng.ev1(a, st)) for a in e.args]
            if fn == "rsa_k":
                return [(st, VInt(smt.rsa_k(_box(vals[0]))))]
            if fn == "keypair":
                return [(st, VBool(smt.keypair(_box(vals[0]), _box(vals[1]))))]
            ct = eng.as_iseq(st, vals[1]).t
            if fn == "rsa_ok":
                return [(st, VBool(smt.rsa_ok(_box(vals[0]), ct)))]
            return [(st, VSeq(smt.rsa_pt(_box(vals[0]), ct), "bytes"))]
        if fn in ("ws_split", "url_path", "url_query", "qsl", "url_ok") and fn not in st.env:
            a_ = eng.as_iseq(st, eng.ev1(e.args[0], st)).t
            if fn == "ws_split":
                return [(st, VList(z3.Function("ws_split", ISq, VSq)(a_), "bytes", "list"))]
            if fn == "qsl":
                return [(st, VList(z3.Function("qsl", ISq, VSq)(a_), ("tuple", "bytes", "bytes"), "list"))]
            if fn == "url_ok":
                return [(st, VBool(z3.Function("url_ok", ISq, B)(a_)))]
            return [(st, VSeq(z3.Function(fn, ISq, ISq)(a_), "bytes"))]
        if fn == "is_record" and fn not in st.env:
            v_ = eng.deref(st, eng.ev1(e.args[0], st))
            return [(st, VBool(isinstance(v_, VRecord) and v_.cls == ast.literal_eval(e.args[1])))]
        if fn in ("is_response", "is_request") and fn not in st.env:
            v_ = eng.deref(st, eng.ev1(e.args[0], st))
            want = "HttpResponse" if fn == "is_response" else "HttpRequest"
            return [(st, VBool(isinstance(v_, VRecord) and v_.cls == want))]
        if fn in ("is_int", "is_true", "is_bytes", "is_str", "as_int", "as_bytes", "as_str") and fn not in st.env:
            v_ = eng.deref(st, eng.ev1(e.args[0], st))
            t_ = box(v_)
            if fn == "is_int":
                return [(st, VBool(z3.And(Val.is_VI(t_))))]
            if fn == "is_true":
                return [(st, VBool(z3.And(Val.is_VB(t_), Val.bval(t_))))]
            if fn == "is_bytes":
                return [(st, VBool(Val.is_VBy(t_)))]
            if fn == "is_str":
                return [(st, VBool(Val.is_VStr(t_)))]
            if fn == "as_int":
                return [(st, VInt(Val.ival(t_)))]
            if fn == "as_bytes":
                return [(st, VSeq(Val.byval(t_), "bytes"))]
            return [(st, VSeq(Val.strval(t_), "str"))]
        if fn in ("b64e", "b64d", "b64ue", "b64ud") and fn not in st.env:
            a_ = eng.as_iseq(st, eng.ev1(e.args[0], st)).t
            return [(st, VSeq(getattr(smt, fn)(a_), "bytes"))]
        if fn in ("b64_ok", "b64u_ok") and fn not in st.env:
            a_ = eng.as_iseq(st, eng.ev1(e.args[0], st)).t
            return [(st, VBool(getattr(smt, fn)(a_)))]
        if fn == "seeded_bits" and fn not in st.env:
            a_ = [eng.as_int(st, eng.ev1(x, st)) for x in e.args]
            return [(st, VInt(smt.seeded_bits(*a_)))]
        if fn in ("int16", "int16_ok") and fn not in st.env:
            a_ = eng.as_iseq(st, eng.ev1(e.args[0], st)).t
            return [(st, VInt(smt.int16(a_)) if fn == "int16" else VBool(smt.int16_ok(a_)))]
        if fn == "rng" and fn not in st.env:
            return [(st, VInt(smt.rng(eng.as_int(st, eng.ev1(e.args[0], st)))))]
        if fn == "fill" and fn not in st.env:
            return [(st, VSeq(smt.fill(eng.as_int(st, eng.ev1(e.args[0], st)), eng.as_int(st, eng.ev1(e.args[1], st))), "bytes"))]
        if fn == "hex_of" and fn not in st.env:
            a_ = eng.as_iseq(st, eng.ev1(e.args[0], st)).t
            return [(st, VSeq(smt_fn("hex_of", ISq, ISq)(a_), "str"))]
        if fn == "same_enum" and fn not in st.env:
            a_ = eng.deref(st, eng.ev1(e.args[0], st))
            b_ = eng.deref(st, eng.ev1(e.args[1], st))
            return [(st, VBool(eng.eq_vals(st, a_, b_)))]
        if fn == "enum_tag" and fn not in st.env:
            from .verify import enum_tag as _et
            return [(st, VInt(_et(ast.literal_eval(e.args[0]))))]
        if fn == "snapshots" and fn not in st.env:
            return [(st, eng.ev1(e.args[0], st))]
        if fn == "dlog" and fn not in st.env:
            d_ = eng.ev1(e.args[0], st)
            cell = st.heap.get(getattr(d_, "ident", None))
            if not (isinstance(cell, dict) and cell.get("__kind__") == "dict"):
                raise Unsupported("dlog() of a non-dict")
            return [(st, VList(cell["log"], ("tuple", "bytes", "bytes"), "list"))]
        if fn == "same" and fn not in st.env:
            from .values import box as _bx

            def raw(node):
                # list[index]: the raw boxed element term (no unbox / re-box round trip)
                if isinstance(node, ast.Subscript) and not isinstance(node.slice, ast.Slice):
                    base = eng.deref(st, eng.ev1(node.value, st))
                    if isinstance(base, VList):
                        return VS.at(base.t, eng.as_int(st, eng.ev1(node.slice, st)))
                return _bx(eng.deref(st, eng.ev1(node, st)))
            return [(st, VBool(raw(e.args[0]) == raw(e.args[1])))]
        if fn == "xview" and fn not in st.env:
            E_ = eng.as_iseq(st, eng.ev1(e.args[0], st)).t
            o_ = eng.as_int(st, eng.ev1(e.args[1], st))
            return [(st, VSeq(smt.xview(E_, o_), "bytes"))]
        if fn == "fits_bytes" and fn not in st.env:
            n = eng.as_int(st, eng.ev1(e.args[0], st))
            w = eng.as_int(st, eng.ev1(e.args[1], st))
            signed = False
            for k in e.keywords:
                if k.arg == "signed":
                    signed = static_bool(eng.ev1(k.value, st))
            return [(st, VBool((smt.fits_signed if signed else smt.fits_bytes)(n, w)))]
        if fn == "sub" and fn not in st.env:
            v = eng.deref(st, eng.ev1(e.args[0], st))
            a = eng.as_int(st, eng.ev1(e.args[1], st))
            b = eng.as_int(st, eng.ev1(e.args[2], st))
            if isinstance(v, VSeq):
                return [(st, VSeq(IS.sl(v.t, a, b), v.kind))]
            if isinstance(v, VList):
                return [(st, VList(VS.sl(v.t, a, b), v.et, v.kind))]
            raise Unsupported("sub() of " + repr(v))
        if fn in ("file_content", "file_pos"):
            v = eng.ev1(e.args[0], st)
            cell = st.heap.get(getattr(v, "ident", None))
            if not (isinstance(cell, dict) and cell.get("__kind__") == "file"):
                raise Unsupported(f"{fn}() of a non-file")
            return [(st, cell[fn[5:]])]
        if fn == "cast" and fn not in st.env:
            return eng.ev(e.args[1], st)
    if is_logger_call(e):
        return [(st, VNone())]
    if isinstance(e.func, ast.Attribute) and e.func.attr == "join" and len(e.args) == 1 \
            and isinstance(e.args[0], ast.GeneratorExp):
        return join_genexp(eng, e, st)

    # ---- evaluate callee and arguments
    out = []
    if any(isinstance(a, ast.Starred) for a in e.args):
        raise Unsupported("*args call")
    for s0, fv in eng.ev(e.func, st):
        kwnames = [k.arg for k in e.keywords]
        if any(k is None for k in kwnames):
            # **expr: only `**x._asdict()` of records is supported, resolved below
            starkw = [k.value for k in e.keywords if k.arg is None]
            named = [k for k in e.keywords if k.arg is not None]
            for s1, vals in eng.evs(list(e.args) + [k.value for k in named], s0):
                args = vals[:len(e.args)]
                kwargs = dict(zip([k.arg for k in named], vals[len(e.args):]))
                for sk in starkw:
                    if isinstance(sk, ast.Call) and isinstance(sk.func, ast.Attribute) and sk.func.attr == "_asdict":
                        for s2, rec in eng.ev(sk.func.value, s1):
                            if not isinstance(rec, VRecord):
                                raise Unsupported("**_asdict() of non-record")
                            kw2 = dict(kwargs)
                            kw2.update(rec.fields)
                            out += apply_callable(eng, s2, fv, args, kw2, e)
                    else:
                        raise Unsupported("**kwargs call")
            continue
        for s1, vals in eng.evs(list(e.args) + [k.value for k in e.keywords], s0):
            args = vals[:len(e.args)]
            kwargs = dict(zip(kwnames, vals[len(e.args):]))
            out += apply_callable(eng, s1, fv, args, kwargs, e)
    return out


def cstruct_call(eng, st, fv, args, kwargs, node):
    from . import cstructmodel as cm
    from .extmodel import ext_call as ext
    modname, inst, name = fv.py
    module = eng.repo.module(modname)
    defs = cm.module_cdefs(eng, module, inst)
    eng.fr.assumed_used.add(f"dissect.cstruct read/dump model derived from the definitions loaded into {modname}.{inst}")
    arg = eng.deref(st, args[0]) if args else None
    if fv.what == "cenumtype" and isinstance(arg, (VInt, VBool)):
        return [(st, cm.enum_value(name, inst, module, eng.as_int(st, arg)))]
    if fv.what == "cenumtype" and isinstance(arg, VRecord) and arg.cls == "cenum":
        return [(st, cm.enum_value(name, inst, module, arg.fields["value"].t))]
    if arg is None:
        if fv.what != "ctype":
            raise Unsupported("cstruct type called without data")
        return [(st, cm.new_struct(eng, st, defs, inst, module, name, kwargs))]
    # parse from bytes or from a file object
    if isinstance(arg, VSeq):
        [(st, fref)] = ext(eng, st, "io.BytesIO", [arg], {}, node)
    elif isinstance(args[0], VRef) and isinstance(st.heap.get(args[0].ident), dict) and st.heap[args[0].ident].get("__kind__") == "file":
        fref = args[0]
    else:
        raise Unsupported(f"cstruct parse from {arg!r}")
    if fv.what == "ctype":
        return [(st, cm.read_struct(eng, st, fref, defs, inst, module, name, node))]
    ty = name
    return [(st, cm.read_value(eng, st, fref, defs, inst, module, ty, None, {}, node))]


def join_genexp(eng, e, st):
    """sep.join(random.choice(chars) for _ in range(n)) with sep == "": a string of n characters drawn from chars."""
    ge = e.args[0]
    if len(ge.generators) != 1 or ge.generators[0].ifs:
        raise Unsupported("join over a general generator expression")
    elt = ge.elt
    if not (isinstance(elt, ast.Call) and ast.unparse(elt.func) == "random.choice" and len(elt.args) == 1):
        raise Unsupported("join over a general generator expression")
    out = []
    for s0, sep in eng.ev(e.func.value, st):
        if not (isinstance(sep, VSeq) and sep.py == ""):
            raise Unsupported("join with a non-empty separator")
        for s1, (chars, rng) in eng.evs([elt.args[0], ge.generators[0].iter], s0):
            chars = eng.deref(s1, chars)
            if not (isinstance(rng, VConst) and rng.what == "range" and isinstance(chars, VSeq)):
                raise Unsupported("join over a general generator expression")
            _, lo, hi, step = rng.py
            n = z3.If(hi > lo, hi - lo, z3.IntVal(0))
            r = fresh("joined", ISq)
            i = fresh("i", I)
            j = fresh("j", I)
            s1.assume(IS.len(r) == n,
                      z3.ForAll([i], z3.Implies(z3.And(0 <= i, i < n),
                                                z3.Exists([j], z3.And(0 <= j, j < IS.len(chars.t), IS.at(chars.t, j) == IS.at(r, i)))),
                                patterns=[IS.at(r, i)]), is_chars_fact(r))
            eng.fr.assumed_used.add("random.choice(xs) returns an element of xs")
            out.append((s1, VSeq(r, "str")))
    return out


def apply_callable(eng, st, fv, args, kwargs, node):
    if not isinstance(fv, VConst):
        raise Unsupported(f"call of {fv!r}")
    w = fv.what
    if w == "builtin":
        return builtin_call(eng, st, fv.py, args, kwargs, node)
    if w == "boundmethod":
        recv, name = fv.py
        return method_call(eng, st, recv, name, args, kwargs, node)
    if w == "spec":
        return [(st, eng.specs.apply(eng, st, fv.py, args))]
    if w == "lemma":
        return lemma_call(eng, st, fv.py, args, kwargs, node)
    if w == "partial":
        base, kwnodes, module = fv.py
        kw2 = {}
        for k, vnode in kwnodes.items():
            kw2[k] = eng.const_value(ast.literal_eval(vnode))
        kw2.update(kwargs)
        return apply_callable(eng, st, VConst(base, "func"), args, kw2, node)
    if w == "func":
        c0 = eng.cdb.get(fv.py, None)
        if eng.spec_mode and c0 is not None and c0.pure:
            return [(st, pure_app(eng, st, c0, args, kwargs))]
        return contract_call(eng, st, fv.py, args, kwargs, node)
    if w == "class":
        return class_call(eng, st, fv.py, args, kwargs, node)
    if w in ("ctype", "cenumtype", "cprim"):
        return cstruct_call(eng, st, fv, args, kwargs, node)
    if w == "ext":
        return ext_call(eng, st, fv.py, args, kwargs, node)
    if w == "lambda":
        lam, cenv = fv.py
        s2 = st.fork()
        saved = dict(s2.env)
        s2.env = dict(cenv)
        for a, v in zip(lam.args.args, args):
            s2.env[a.arg] = v
        res = []
        for s3, v in eng.ev(lam.body, s2):
            s3.env = dict(saved)
            res.append((s3, v))
        return res
    raise Unsupported(f"call of {fv!r}")


# --------------------------------------------------------------------------- builtins

def builtin_call(eng, st, name, args, kwargs, node):
    d = lambda v: eng.deref(st, v)
    if name == "len":
        v = d(args[0])
        if isinstance(v, VSeq):
            return [(st, VInt(IS.len(v.t)))]
        if isinstance(v, VList):
            return [(st, VInt(VS.len(v.t)))]
        if isinstance(v, VTuple):
            return [(st, VInt(len(v.items)))]
        if isinstance(v, VRef):
            cell = st.heap.get(v.ident)
            if isinstance(cell, dict) and cell.get("__kind__") == "emptylist":
                return [(st, VInt(0))]
            if isinstance(cell, dict) and cell.get("__kind__") == "dict":
                return [(st, VInt(VS.len(cell["keys"])))]
            if isinstance(cell, dict) and str(cell.get("__class__", "")).startswith("cstruct:"):
                from . import cstructmodel as cm
                modname, inst = cell["__cdefs__"]
                defs = cm.module_cdefs(eng, eng.repo.module(modname), inst)
                return [(st, VInt(cm.struct_size(eng, st, defs, cell["__class__"].split(":", 1)[1], cell)))]
        if isinstance(v, VOpt):
            if not eng.spec_mode:
                eng.implicit_error(st, z3.Not(v.isnone), "TypeError", node, "len-of-None")
            return builtin_call(eng, st, "len", [v.value], kwargs, node)
        if isinstance(v, VAny):
            t = v.t
            if not eng.spec_mode:
                eng.implicit_error(st, z3.Or(Val.is_VBy(t), Val.is_VStr(t), Val.is_VIL(t), Val.is_VT(t), Val.is_VL(t)),
                                   "TypeError", node, "len")
            return [(st, VInt(z3.If(Val.is_VBy(t), IS.len(Val.byval(t)),
                                    z3.If(Val.is_VStr(t), IS.len(Val.strval(t)),
                                          z3.If(Val.is_VIL(t), IS.len(Val.ilval(t)),
                                                z3.If(Val.is_VT(t), VS.len(Val.tval(t)), VS.len(Val.lval(t))))))))]
        raise Unsupported(f"len of {v!r}")
    if name in ("bytes", "bytearray"):
        if not args:
            return [(st, lit_seq(b"", name))]
        v = d(args[0])
        if isinstance(v, VSeq) and v.kind in ("bytes", "bytearray"):
            return [(st, VSeq(v.t, name, py=v.py))]
        if isinstance(v, VSeq) and v.kind in ("ilist", "ituple"):
            # bytes(list of ints): ValueError unless every element is in range(256)
            j = fresh("j", I)
            ok = z3.ForAll([j], z3.Implies(z3.And(0 <= j, j < IS.len(v.t)),
                                           z3.And(0 <= IS.at(v.t, j), IS.at(v.t, j) < 256)), patterns=[IS.at(v.t, j)])
            if not eng.spec_mode:
                eng.implicit_error(st, ok, "ValueError", node, "bytes-range")
            return [(st, VSeq(v.t, name))]
        if isinstance(v, VRef):
            cell = st.heap.get(v.ident)
            if isinstance(cell, dict) and cell.get("__kind__") == "emptylist":
                return [(st, lit_seq(b"", name))]
        if isinstance(v, VTuple) and all(isinstance(x, VInt) for x in v.items):
            sq = eng.as_iseq(st, v)
            for x in v.items:
                if not eng.spec_mode:
                    eng.implicit_error(st, z3.And(0 <= x.t, x.t < 256), "ValueError", node, "bytes-range")
            return [(st, VSeq(sq.t, name))]
        if isinstance(v, VInt):
            r = fresh("zeros", ISq)
            j = fresh("j", I)
            st.assume(IS.len(r) == v.t, z3.ForAll([j], z3.Implies(z3.And(0 <= j, j < v.t), IS.at(r, j) == 0),
                                                  patterns=[IS.at(r, j)]))
            return [(st, VSeq(r, name))]
        raise Unsupported(f"{name}({v!r})")
    if name == "range":
        vals = [eng.as_int(st, a, node) for a in args]
        if len(vals) == 1:
            lo, hi, step = z3.IntVal(0), vals[0], z3.IntVal(1)
        elif len(vals) == 2:
            lo, hi, step = vals[0], vals[1], z3.IntVal(1)
        else:
            lo, hi, step = vals
        return [(st, VConst(("range", lo, hi, step), "range"))]
    if name == "isinstance":
        return [(st, VBool(isinstance_(eng, st, d(args[0]), args[1])))]
    if name == "int":
        v = d(args[0])
        if isinstance(v, (VInt, VBool)):
            return [(st, VInt(eng.as_int(st, v)))]
        if isinstance(v, VSeq) and v.kind == "str" and len(args) == 2:
            base_ = eng.as_int(st, args[1], node)
            if not (z3.is_int_value(base_) and base_.as_long() == 16):
                raise Unsupported("int(str, base) with base != 16")
            r = smt.int16(v.t)
            if not eng.spec_mode:
                eng.implicit_error(st, smt.int16_ok(v.t), "ValueError", node, "int-base-16")
            eng.fr.assumed_used.add("int(s, 16): uninterpreted value int16(s), ValueError unless int16_ok(s); for two hex digits it is "
                                    "16 * digit + digit (assumed, cross-checked in bounded/C12.py)") if eng.fr else None
            return [(st, VInt(r))]
        if isinstance(v, VSeq) and v.kind == "str":
            # int(str): ValueError unless an optional sign/whitespace-wrapped digit string; modelled as
            # uninterpreted value with a may-raise
            r = smt_fn("int_of_str", ISq, I)(v.t)
            ok = smt_fn("is_int_literal", ISq, B)(v.t)
            if not eng.spec_mode:
                eng.implicit_error(st, ok, "ValueError", node, "int-of-str")
            return [(st, VInt(r))]
        raise Unsupported(f"int({v!r})")
    if name == "bool":
        return [(st, VBool(eng.truth(st, args[0])))]
    if name == "next" and len(args) == 1 and isinstance(args[0], VRef) and isinstance(st.heap.get(args[0].ident), dict) \
            and st.heap[args[0].ident].get("__kind__") == "obj":
        # next(it) on an object of a class under contract: it.__next__()
        return obj_method(eng, st, args[0], st.heap[args[0].ident], "__next__", [], {}, node)
    if name == "ord":
        v = d(args[0])
        if isinstance(v, VSeq):
            if not eng.spec_mode:
                eng.implicit_error(st, IS.len(v.t) == 1, "TypeError", node, "ord")
            return [(st, VInt(IS.at(v.t, 0)))]
    if name == "chr":
        v = eng.as_int(st, args[0], node)
        if not eng.spec_mode:
            eng.implicit_error(st, z3.And(0 <= v, v < 0x110000), "ValueError", node, "chr")
        return [(st, VSeq(IS.unit(v), "str"))]
    if name in ("min", "max"):
        vals = args
        if len(args) == 1 and isinstance(d(args[0]), VTuple):
            vals = d(args[0]).items
        if len(vals) >= 2 and all(isinstance(d(v), (VInt, VBool)) for v in vals):
            ts = [eng.as_int(st, v) for v in vals]
            r = ts[0]
            for t in ts[1:]:
                r = z3.If(t < r, t, r) if name == "min" else z3.If(t > r, t, r)
            return [(st, VInt(r))]
        if len(args) == 1 and isinstance(d(args[0]), VSeq):
            s = d(args[0])
            if not eng.spec_mode:
                eng.implicit_error(st, IS.len(s.t) > 0, "ValueError", node, f"{name}-empty")
            r = fresh(name, I)
            j = fresh("j", I)
            k = fresh("k", I)
            cmp = (lambda a, b: a >= b) if name == "max" else (lambda a, b: a <= b)
            st.assume(z3.ForAll([j], z3.Implies(z3.And(0 <= j, j < IS.len(s.t)), cmp(r, IS.at(s.t, j))),
                                patterns=[IS.at(s.t, j)]),
                      z3.Exists([k], z3.And(0 <= k, k < IS.len(s.t), IS.at(s.t, k) == r)))
            return [(st, VInt(r))]
        raise Unsupported(f"{name} of {args!r}")
    if name == "sum":
        v = d(args[0])
        if isinstance(v, VSeq):
            return [(st, eng.specs.apply(eng, st, "seqsum", [v]))]
        raise Unsupported("sum of " + repr(v))
    if name in ("list", "tuple"):
        if not args:
            return [(st, eng.new_list(st, []) if name == "list" else VTuple([]))]
        v = d(args[0])
        if isinstance(v, VSeq):
            if name == "tuple":
                return [(st, VSeq(v.t, "ituple"))]
            ident = f"list!{next(_ids)}"
            st.heap[ident] = VSeq(v.t, "ilist")
            return [(st, VRef(ident, "list"))]
        if isinstance(v, VList):
            if name == "tuple":
                return [(st, VList(v.t, v.et, "tuple"))]
            ident = f"list!{next(_ids)}"
            st.heap[ident] = VList(v.t, v.et, "list")
            return [(st, VRef(ident, "list"))]
        if isinstance(v, VTuple):
            return [(st, v if name == "tuple" else eng.new_list(st, v.items))]
        raise Unsupported(f"{name}({v!r})")
    if name == "map":
        f = d(args[0])
        v = d(args[1])
        if isinstance(f, VConst) and f.what == "builtin" and f.py == "ord" and isinstance(v, VSeq) and v.kind == "str":
            return [(st, VSeq(v.t, "ilist"))]
        raise Unsupported("map other than map(ord, str)")
    if name == "dict":
        from .heapmodel import new_dict
        if not args:
            return [(st, new_dict(eng, st))]
        v = d(args[0])
        if isinstance(v, VList):
            return [(st, new_dict(eng, st, log=v.t))]
        raise Unsupported("dict() of " + repr(v))
    if name == "abs":
        t = eng.as_int(st, args[0], node)
        return [(st, VInt(z3.If(t < 0, -t, t)))]
    if name == "callable":
        v = d(args[0])
        if isinstance(v, VConst):
            return [(st, VBool(True))]
        if isinstance(v, VAny):
            return [(st, VBool(Val.is_VO(v.t)))]
        return [(st, VBool(False))]
    if name == "int.from_bytes":
        v = eng.as_iseq(st, args[0], node)
        bo = byteorder(kwargs.get("byteorder", args[1] if len(args) > 1 else None))
        signed = static_bool(kwargs.get("signed"))
        r = smt.FROM_BYTES[(bo, signed)](v.t)
        if not signed:
            unfold_int_of_bytes(st, v.t, r, bo)
        return [(st, VInt(r))]
    if name == "int.to_bytes":
        n = eng.as_int(st, args[0], node)
        return int_to_bytes(eng, st, n, args[1:], kwargs, node)
    if name in EXC_NAMES:
        return [(st, VConst((name, args), "exception"))]
    if name == "repr" or name == "str":
        v = d(args[0])
        if name == "str" and isinstance(v, VSeq) and v.kind == "str":
            return [(st, v)]
        if name == "str" and isinstance(v, (VInt, VBool)):
            return [(st, VSeq(smt_fn("str_of_int", I, ISq)(eng.as_int(st, v)), "str"))]
        raise Unsupported(f"{name}({v!r})")
    if name == "print":
        return [(st, VNone())]
    if name == "getattr":
        raise Unsupported("getattr")
    raise Unsupported(f"builtin {name}")


EXC_NAMES = {"ValueError", "IndexError", "KeyError", "TypeError", "EOFError", "OSError", "AssertionError",
             "StopIteration", "Exception", "OverflowError", "UnicodeDecodeError", "AttributeError",
             "NotImplementedError", "KeyboardInterrupt"}

_fn_cache = {}


def smt_fn(name, *sorts):
    if name not in _fn_cache:
        _fn_cache[name] = z3.Function(name, *sorts)
    return _fn_cache[name]


def byteorder(v):
    if v is None:
        raise Unsupported("byteorder missing")
    if isinstance(v, VSeq) and v.py in ("little", "big"):
        return v.py
    raise Unsupported(f"symbolic byteorder {v!r}")


def unfold_int_of_bytes(st, s, r, bo):
    """Instance facts for int.from_bytes on a byte string: value laws for the fixed widths 0..8 and range."""
    L = IS.len(s)
    at = lambda k: IS.at(s, z3.IntVal(k))
    facts = [r >= 0]
    for w in (0, 1, 2, 3, 4, 8):
        if bo == "little":
            val = sum((at(k) * (256 ** k) for k in range(w)), z3.IntVal(0))
        else:
            val = sum((at(k) * (256 ** (w - 1 - k)) for k in range(w)), z3.IntVal(0))
        facts.append(z3.Implies(L == w, r == val))
    st.assume(*facts)


def static_bool(v):
    if v is None:
        return False
    if isinstance(v, VBool) and z3.is_true(v.t):
        return True
    if isinstance(v, VBool) and z3.is_false(v.t):
        return False
    raise Unsupported("symbolic signed=")


def int_to_bytes(eng, st, n, rest, kwargs, node):
    size = kwargs.get("length", rest[0] if rest else None)
    bo = byteorder(kwargs.get("byteorder", rest[1] if len(rest) > 1 else None))
    signed = static_bool(kwargs.get("signed"))
    if size is None:
        raise Unsupported("to_bytes without length")
    size_t = eng.as_int(st, size, node)
    r = smt.TO_BYTES[(bo, signed)](n, size_t)
    fits = (smt.fits_signed if signed else smt.fits_bytes)(n, size_t)
    if not eng.spec_mode:
        eng.implicit_error(st, size_t >= 0, "ValueError", node, "to_bytes-length")
        eng.implicit_error(st, fits, "OverflowError", node, "to_bytes-overflow")
    st.assume(z3.Implies(size_t >= 0, IS.len(r) == size_t), is_bytes_fact(r))
    if not signed and z3.is_int_value(size_t) and size_t.as_long() in (1, 2, 4, 8):
        w = size_t.as_long()
        st.assume(fits == z3.And(0 <= n, n < 256 ** w))
        for k in range(w):
            p = k if bo == "little" else w - 1 - k
            st.assume(z3.Implies(fits, IS.at(r, z3.IntVal(k)) == (n / (256 ** p)) % 256))
    return [(st, VSeq(r, "bytes"))]


def isinstance_(eng, st, v, clsval):
    names = []

    def cname(c):
        if isinstance(c, VConst) and c.what == "builtin":
            return c.py
        if isinstance(c, VConst) and c.what == "class":
            return c.py.split(":")[1]
        if isinstance(c, VConst) and c.what in ("ext", "opaque"):
            return c.py.split(":")[-1].split(".")[-1]
        raise Unsupported(f"isinstance class {c!r}")
    if isinstance(clsval, VTuple):
        names = [cname(c) for c in clsval.items]
    else:
        names = [cname(clsval)]
    alts = []
    for n in names:
        if isinstance(v, VAny):
            t = v.t
            m = {"int": z3.Or(Val.is_VI(t), Val.is_VB(t)), "bool": Val.is_VB(t), "bytes": Val.is_VBy(t),
                 "str": Val.is_VStr(t), "list": z3.Or(Val.is_VL(t), Val.is_VIL(t)), "tuple": Val.is_VT(t)}
            if n not in m:
                raise Unsupported(f"isinstance(any, {n})")
            alts.append(m[n])
        elif isinstance(v, VInt):
            alts.append(z3.BoolVal(n == "int"))
        elif isinstance(v, VBool):
            alts.append(z3.BoolVal(n in ("int", "bool")))
        elif isinstance(v, VSeq):
            k = {"bytes": "bytes", "bytearray": "bytearray", "str": "str", "ilist": "list", "ituple": "tuple"}[v.kind]
            alts.append(z3.BoolVal(n == k))
        elif isinstance(v, VNone):
            alts.append(z3.BoolVal(False))
        elif isinstance(v, VTuple):
            alts.append(z3.BoolVal(n == "tuple"))
        elif isinstance(v, VList):
            alts.append(z3.BoolVal(n == v.kind))
        elif isinstance(v, VRecord):
            alts.append(z3.BoolVal(n == v.cls or n in RECORD_BASES.get(v.cls, ())))
        elif isinstance(v, VRef):
            cell = st.heap.get(v.ident)
            if isinstance(cell, dict) and cell.get("__kind__") == "obj":
                alts.append(z3.BoolVal(n == cell.get("__class__")))
            elif isinstance(cell, dict) and cell.get("__kind__") == "file":
                alts.append(z3.BoolVal(False))
            else:
                alts.append(z3.BoolVal(n == "list"))
        else:
            raise Unsupported(f"isinstance({v!r}, {n})")
    return z3.Or(*alts) if len(alts) > 1 else alts[0]


RECORD_BASES = {"ClientC2Data": ("C2Data",), "ServerC2Data": ("C2Data",)}


# --------------------------------------------------------------------------- methods

def method_call(eng, st, recv, name, args, kwargs, node):
    r = eng.deref(st, recv)
    if isinstance(r, VConst) and r.what == "aescipher":
        _k, key, iv = r.py
        data = eng.as_iseq(st, args[0], node)
        eng.implicit_error(st, IS.len(data.t) % 16 == 0, "ValueError", node, "AES-CBC-unaligned-data")
        f = smt.aes_enc if name == "encrypt" else smt.aes_dec if name == "decrypt" else None
        if f is None:
            raise Unsupported(f"AES method {name}")
        if "aes_calls" in st.env:
            st.env["aes_calls"] = VInt(st.env["aes_calls"].t + 1)
        return [(st, VSeq(f(key.t, iv.t, data.t), "bytes"))]
    if isinstance(r, VConst) and r.what == "pkcs1cipher":
        key = r.py[1]
        if name == "decrypt":
            ct = eng.as_iseq(st, args[0], node)
            sentinel = eng.deref(st, args[1])
            if not isinstance(sentinel, VNone):
                raise Unsupported("PKCS1 decrypt with a non-None sentinel")
            eng.implicit_error(st, IS.len(ct.t) == smt.rsa_k(key), "ValueError", node, "rsa-ciphertext-length")
            inrange = smt_fn("rsa_inrange", Val, ISq, B)(key, ct.t)     # ciphertext integer below the modulus
            st.assume(z3.Implies(smt.rsa_ok(key, ct.t), inrange))
            eng.implicit_error(st, inrange, "ValueError", node, "rsa-ciphertext-too-large")
            pt = eng.named(st, VSeq(smt.rsa_pt(key, ct.t), "bytes"), "rsa_pt")
            st.assume(is_bytes_fact(pt.t), IS.len(pt.t) <= smt.rsa_k(key) - 11)
            return [(st, VOpt(z3.Not(smt.rsa_ok(key, ct.t)), pt))]
        if name == "encrypt":
            msg = eng.as_iseq(st, args[0], node)
            eng.implicit_error(st, IS.len(msg.t) <= smt.rsa_k(key) - 11, "ValueError", node, "rsa-plaintext-too-long")
            rr = fresh("rsa_ct", ISq)
            pv = fresh("priv", Val)
            st.assume(IS.len(rr) == smt.rsa_k(key), is_bytes_fact(rr),
                      z3.ForAll([pv], z3.Implies(smt.keypair(key, pv), z3.And(smt.rsa_ok(pv, rr), smt.rsa_pt(pv, rr) == msg.t,
                                                                              smt.rsa_k(pv) == smt.rsa_k(key))),
                                patterns=[smt.keypair(key, pv)]))
            return [(st, VSeq(rr, "bytes"))]
        raise Unsupported(f"PKCS1 method {name}")
    if isinstance(r, VConst) and r.what == "pydict" and name == "get":
        # literal table lookup with a symbolic key: if-then-else chain over the literal's entries
        table = r.py
        key = eng.deref(st, args[0])
        dflt = eng.deref(st, args[1]) if len(args) > 1 else VNone()
        res = dflt
        for k0, v0 in reversed(list(table.items())):
            hit = eng.eq_vals(st, key, eng.const_value(k0))
            res = ite_val(hit, eng.const_value(v0), res)
        return [(st, res)]
    if isinstance(r, VConst) and r.what == "counter" and name == "most_common":
        src = r.py[1]
        if args:
            raise Unsupported("most_common(n)")
        L = fresh("most_common", VSq)
        j, k2 = fresh("j", I), fresh("k", I)
        key = lambda idx: Val.ival(VS.at(Val.tval(VS.at(L, idx)), z3.IntVal(0)))
        from .values import wt_seq
        st.assume(*wt_seq(L, ("tuple", "int", "int")))
        st.assume(z3.ForAll([j], z3.Implies(z3.And(0 <= j, j < VS.len(L)),
                                            z3.Exists([k2], z3.And(0 <= k2, k2 < IS.len(src.t), IS.at(src.t, k2) == key(j)))),
                            patterns=[VS.at(L, j)]),
                  z3.ForAll([k2], z3.Implies(z3.And(0 <= k2, k2 < IS.len(src.t)),
                                             z3.Exists([j], z3.And(0 <= j, j < VS.len(L), key(j) == IS.at(src.t, k2)))),
                            patterns=[IS.at(src.t, k2)]))
        eng.fr.assumed_used.add("collections.Counter(xs).most_common(): pairs (value, count) whose values are exactly the distinct elements of xs (order unspecified)")
        return [(st, VList(L, ("tuple", "int", "int"), "list"))]
    if isinstance(r, VConst) and r.what == "hashobj":
        if r.py[0] == "hmac":
            dg = smt.hmac256(r.py[1].t, r.py[2].t)
        else:
            dg = smt.sha256(r.py[1].t)
        if name == "digest":
            return [(st, VSeq(dg, "bytes"))]
        if name == "hexdigest":
            return [(st, VSeq(smt_fn("hex_of", ISq, ISq)(dg), "str"))]
        raise Unsupported(f"hash method {name}")
    if isinstance(r, VOpt):
        eng.implicit_error(st, z3.Not(r.isnone), "AttributeError", node, "method-of-None")
        return method_call(eng, st, r.value, name, args, kwargs, node)
    if isinstance(recv, VRef):
        cell = st.heap.get(recv.ident)
        if isinstance(cell, dict):
            k = cell.get("__kind__")
            if k == "file":
                return file_method(eng, st, recv, cell, name, args, kwargs, node)
            if k == "emptylist" or isinstance(cell, (VSeq, VList)):
                return list_method(eng, st, recv, name, args, kwargs, node)
            if k == "dict":
                from .heapmodel import dict_method
                return dict_method(eng, st, recv, cell, name, args, kwargs, node)
            if k == "obj" and str(cell.get("__class__", "")).startswith("cstruct:"):
                from . import cstructmodel as cm
                modname, inst = cell["__cdefs__"]
                defs = cm.module_cdefs(eng, eng.repo.module(modname), inst)
                sname = cell["__class__"].split(":", 1)[1]
                if name == "dumps":
                    return [(st, cm.dumps_struct(eng, st, defs, sname, cell, node))]
                raise Unsupported(f"cstruct method {name}")
            if k == "obj":
                return obj_method(eng, st, recv, cell, name, args, kwargs, node)
        if isinstance(cell, (VSeq, VList)):
            return list_method(eng, st, recv, name, args, kwargs, node)
    if isinstance(r, VSeq):
        return seq_method(eng, st, r, name, args, kwargs, node)
    if isinstance(r, VInt):
        if name == "to_bytes":
            return int_to_bytes(eng, st, r.t, args, kwargs, node)
        if name == "bit_length":
            bl = smt_fn("bit_length", I, I)(r.t)
            st.assume(bl >= 0, z3.Implies(r.t == 0, bl == 0))
            return [(st, VInt(bl))]
    if isinstance(r, VRecord):
        if name == "_replace":
            f = dict(r.fields)
            f.update(kwargs)
            return [(st, VRecord(r.cls, f))]
        if name == "_asdict":
            raise Unsupported("_asdict outside **")
        return contract_call(eng, st, f"{record_module(r.cls)}:{r.cls}.{name}",
                             [r] + args, kwargs, node)
    if isinstance(r, VAny):
        raise Unsupported(f"method {name} on dynamically typed value")
    raise Unsupported(f"method {name} on {r!r}")


RECORD_MODULE = {}


def record_module(cls):
    from .values import RECORDS
    return RECORDS[cls][1] if cls in RECORDS else "dissect.cobaltstrike.c2"


def file_method(eng, st, ref, cell, name, args, kwargs, node):
    content = cell["content"].t
    pos = cell["pos"].t
    L = IS.len(content)
    fk = cell["fkind"]
    if cell.get("pos_undefined"):
        absolute = name == "seek" and (len(args) < 2 and "whence" not in kwargs or
                                       (len(args) > 1 and z3.is_int_value(eng.as_int(st, args[1])) and eng.as_int(st, args[1]).as_long() == 0))
        if absolute:
            cell = dict(cell)
            cell.pop("pos_undefined")
            st.heap[ref.ident] = cell
        else:
            eng.oblige(st, False, "uses-initial-position", f"{name}@L{getattr(node, 'lineno', 0)}")
    if name == "tell":
        return [(st, VInt(pos))]
    if name == "read":
        n = None
        if args:
            a = eng.deref(st, args[0])
            n = None if isinstance(a, VNone) else eng.as_int(st, a, node)
        start = z3.If(pos <= L, pos, L)
        if n is None:
            end = L
        else:
            e1 = z3.If(pos + n <= L, pos + n, L)
            end = z3.If(n < 0, L, z3.If(e1 < start, start, e1))
        data = IS.sl(content, start, end)
        newcell = dict(cell)
        newcell["pos"] = eng.named(st, VInt(pos + (end - start)), "pos")
        st.heap[ref.ident] = newcell
        res = VSeq(data, "bytes")
        return [(st, res)]
    if name == "seek":
        off = eng.as_int(st, args[0], node)
        whence = eng.as_int(st, args[1], node) if len(args) > 1 else eng.as_int(st, kwargs["whence"], node) \
            if "whence" in kwargs else z3.IntVal(0)
        if not z3.is_int_value(whence):
            raise Unsupported("symbolic whence")
        w = whence.as_long()
        neg_exc = "ValueError" if fk == "bytesio" else "OSError"
        if w == 0:
            eng.implicit_error(st, off >= 0, neg_exc, node, "negative-seek")
            newpos = off
        elif w == 1:
            tgt = pos + off
            if fk == "bytesio":
                newpos = z3.If(tgt < 0, z3.IntVal(0), tgt)
            else:
                eng.implicit_error(st, tgt >= 0, "OSError", node, "negative-seek")
                newpos = tgt
        elif w == 2:
            tgt = L + off
            if fk == "bytesio":
                newpos = z3.If(tgt < 0, z3.IntVal(0), tgt)
            else:
                eng.implicit_error(st, tgt >= 0, "OSError", node, "negative-seek")
                newpos = tgt
        else:
            raise Unsupported("whence")
        newcell = dict(cell)
        newcell["pos"] = eng.named(st, VInt(newpos), "pos")
        st.heap[ref.ident] = newcell
        return [(st, newcell["pos"])]
    if name == "peek":
        rest = IS.sl(content, z3.If(pos <= L, pos, L), L)
        r = fresh("peek", ISq)
        n = fresh("peekn", I)
        # peek returns a prefix of the remaining bytes: at least one byte (or all requested... ) unless at EOF
        st.assume(0 <= n, n <= IS.len(rest), z3.Implies(IS.len(rest) > 0, n >= 1), r == IS.sl(rest, 0, n),
                  is_bytes_fact(r))
        if cell.get("peek_full"):
            st.assume(n == IS.len(rest))
        return [(st, VSeq(r, "bytes"))]
    if name == "getvalue":
        return [(st, cell["content"])]
    raise Unsupported(f"file method {name}")


def list_method(eng, st, ref, name, args, kwargs, node):
    cell = st.heap[ref.ident]
    if ref.ident in getattr(st, "frozen", ()):  # pragma: no cover
        raise Unsupported("mutation of frozen list")

    def as_cell_for(v):
        """decide representation on first append"""
        nonlocal cell
        if isinstance(cell, dict):   # emptylist
            et = eng.fr.contract.locals.get(cell.get("name")) if eng.fr else None
            if isinstance(v, VInt):
                cell = VSeq(IS.empty, "ilist")
            else:
                cell = VList(VS.empty, "any")
        return cell
    if name == "append":
        v = eng.deref(st, args[0])
        c = as_cell_for(v)
        if isinstance(c, VSeq):
            st.heap[ref.ident] = VSeq(IS.cat(c.t, IS.unit(eng.as_int(st, v, node))), c.kind)
        else:
            st.heap[ref.ident] = VList(VS.cat(c.t, VS.unit(box(v))), c.et, c.kind)
        return [(st, VNone())]
    if name == "insert":
        idx = eng.as_int(st, args[0], node)
        v = eng.deref(st, args[1])
        c = as_cell_for(v)
        th = IS if isinstance(c, VSeq) else VS
        L = th.len(c.t)
        k = eng.clamp(idx, L)
        el = th.unit(eng.as_int(st, v, node) if isinstance(c, VSeq) else box(v))
        t = th.cat(th.cat(th.sl(c.t, z3.IntVal(0), k), el), th.sl(c.t, k, L))
        st.heap[ref.ident] = VSeq(t, c.kind) if isinstance(c, VSeq) else VList(t, c.et, c.kind)
        return [(st, VNone())]
    if name == "extend":
        v = eng.deref(st, args[0])
        if isinstance(v, VRef) and isinstance(st.heap.get(v.ident), dict) and st.heap[v.ident].get("__kind__") == "emptylist":
            return [(st, VNone())]
        if isinstance(cell, dict):
            if isinstance(v, VSeq):
                st.heap[ref.ident] = VSeq(v.t, "ilist")
            elif isinstance(v, VList):
                st.heap[ref.ident] = VList(v.t, v.et, "list")
            elif isinstance(v, VTuple):
                for x in v.items:
                    list_method(eng, st, ref, "append", [x], {}, node)
            else:
                raise Unsupported("extend with " + repr(v))
            return [(st, VNone())]
        if isinstance(cell, VSeq) and isinstance(v, VSeq):
            st.heap[ref.ident] = VSeq(IS.cat(cell.t, v.t), cell.kind)
            return [(st, VNone())]
        if isinstance(cell, VList) and isinstance(v, VList):
            st.heap[ref.ident] = VList(VS.cat(cell.t, v.t), cell.et, cell.kind)
            return [(st, VNone())]
        if isinstance(v, VTuple):
            for x in v.items:
                list_method(eng, st, ref, "append", [x], {}, node)
            return [(st, VNone())]
        raise Unsupported("extend")
    if name == "pop":
        c = cell
        if isinstance(c, dict):
            eng.throw(st, "IndexError", node, "pop from empty list")
            return []
        th = IS if isinstance(c, VSeq) else VS
        L = th.len(c.t)
        if args:
            raise Unsupported("pop(i)")
        eng.implicit_error(st, L > 0, "IndexError", node, "pop-empty")
        last = th.at(c.t, L - 1)
        t = th.sl(c.t, z3.IntVal(0), L - 1)
        st.heap[ref.ident] = VSeq(t, c.kind) if isinstance(c, VSeq) else VList(t, c.et, c.kind)
        return [(st, VInt(last) if isinstance(c, VSeq) else unbox(last, c.et))]
    if name == "copy":
        return [(st, eng.copy_list(st, ref))]
    raise Unsupported(f"list method {name}")


def seq_method(eng, st, s, name, args, kwargs, node):
    d = lambda v: eng.deref(st, v)
    if name == "find":
        sub = eng.as_iseq(st, args[0], node)
        start = eng.as_int(st, args[1], node) if len(args) > 1 else z3.IntVal(0)
        if not eng.spec_mode:
            eng.oblige(st, z3.And(IS.len(sub.t) >= 1, start >= 0), "encoding-find-domain", f"L{node.lineno}")
        return [(st, VInt(smt.find_(s.t, sub.t, start)))]
    if name in ("upper", "lower"):
        f = smt.seq_upper if name == "upper" else smt.seq_lower
        py = getattr(s.py, name)() if s.py is not None else None
        if py is not None:
            return [(st, lit_seq(py, s.kind))]
        return [(st, VSeq(f(s.t), s.kind))]
    if name == "hex":
        return [(st, VSeq(smt_fn("hex_of", ISq, ISq)(s.t), "str"))]
    if name == "startswith":
        p = d(args[0])
        if isinstance(p, VList) and p.kind == "tuple":
            # a tuple of prefixes of symbolic length: some element is a prefix
            j = fresh("j", I)
            c_ = Val.byval(VS.at(p.t, j)) if s.kind in ("bytes", "bytearray") else Val.strval(VS.at(p.t, j))
            body = z3.And(0 <= j, j < VS.len(p.t), IS.len(c_) <= IS.len(s.t), IS.eq(IS.sl(s.t, z3.IntVal(0), IS.len(c_)), c_))
            return [(st, VBool(z3.Exists([j], body, patterns=[VS.at(p.t, j)])))]
        cands = p.items if isinstance(p, VTuple) else [p]
        alts = []
        for c in cands:
            c = eng.as_iseq(st, c, node)
            alts.append(z3.And(IS.len(c.t) <= IS.len(s.t), IS.eq(IS.sl(s.t, z3.IntVal(0), IS.len(c.t)), c.t)))
        if isinstance(p, VList):
            raise Unsupported("startswith(list)")
        return [(st, VBool(z3.Or(*alts) if alts else z3.BoolVal(False)))]
    if name == "partition":
        sep = eng.as_iseq(st, args[0], node)
        from .strmodel import partition
        return [(st, partition(eng, st, s, sep))]
    if name == "rstrip":
        from .strmodel import rstrip
        return [(st, rstrip(eng, st, s, [d(a) for a in args]))]
    if name == "split":
        from .strmodel import split
        return [(st, split(eng, st, s, [d(a) for a in args], node))]
    if name == "encode" and False:
        pass
    if name == "decode":
        from .strmodel import decode
        return decode(eng, st, s, [d(a) for a in args], {k: d(v) for k, v in kwargs.items()}, node)
    if name == "encode":
        from .strmodel import encode
        return encode(eng, st, s, [d(a) for a in args], kwargs, node)
    if name == "replace":
        from .strmodel import replace
        return [(st, replace(eng, st, s, d(args[0]), d(args[1]), node))]
    if name == "join":
        parts = d(args[0])
        if s.kind == "str" and s.py == "" and isinstance(parts, VSeq) and parts.kind in ("clist", "str"):
            # "".join(list of one-character strings / string): the same characters
            return [(st, VSeq(parts.t, "str"))]
        raise Unsupported("join")
    raise Unsupported(f"method {name} on {s.kind}")


def obj_method(eng, st, ref, cell, name, args, kwargs, node):
    cls = cell.get("__class__")
    mod = cell.get("__module__")
    return contract_call(eng, st, f"{mod}:{cls}.{name}", [ref] + args, kwargs, node)


# --------------------------------------------------------------------------- lemma / contract calls

def bind_params(eng, contract, fdef, module, args, kwargs):
    """Bind call arguments to the callee's parameters (defaults from the real definition)."""
    names = [p for p, _ in contract.params]
    bound = {}
    for n, v in zip(names, args):
        bound[n] = v
    if len(args) > len(names):
        raise Unsupported("too many positional args")
    for k, v in kwargs.items():
        if k not in names:
            raise Unsupported(f"unexpected keyword {k} for {contract.key}")
        bound[k] = v
    if fdef is not None:
        a = fdef.args
        pos = list(a.posonlyargs) + list(a.args)
        for arg, dflt in zip(pos[len(pos) - len(a.defaults):], a.defaults):
            if arg.arg not in bound:
                bound[arg.arg] = default_value(eng, dflt, module)
        for arg, dflt in zip(a.kwonlyargs, a.kw_defaults):
            if arg.arg not in bound and dflt is not None:
                bound[arg.arg] = default_value(eng, dflt, module)
    missing = [n for n in names if n not in bound]
    if missing:
        raise Unsupported(f"missing arguments {missing} for {contract.key}")
    return bound


def default_value(eng, node, module):
    try:
        return eng.const_value(ast.literal_eval(node))
    except Exception:
        pass
    if isinstance(node, ast.Attribute):
        src = ast.unparse(node)
        if src == "io.SEEK_SET":
            return VInt(0)
        if src == "AES.block_size":
            return VInt(16)
        if src == "BeaconKeys.DEFAULT_AES_IV":
            return lit_seq(b"abcdefghijklmnop", "bytes")
    if isinstance(node, ast.Name):
        v = eng.resolve_global(node.id, module)
        if v is not None:
            return v
    raise Unsupported(f"default value {ast.unparse(node)}")


def lemma_call(eng, st, name, args, kwargs, node):
    c = eng.cdb.lemmas[name]
    bound = bind_params(eng, c, None, None, args, kwargs)
    cs = st.fork()
    cs.env = dict(bound)
    for k, v in st.env.items():
        if k.startswith("$"):
            cs.env[k] = v
    for i, r in enumerate(c.requires):
        t = eng.truth(cs, eng.ev1(r, cs))
        eng.oblige(st, t, f"pre@{name}", i, info={"line": getattr(node, "lineno", 0)})
    fr = eng.fr
    if fr.contract.kind == "lemma" and fr.contract.name == name:
        # recursive use: the variant must decrease and stay non-negative
        if c.decreases is None:
            raise Unsupported(f"recursive lemma {name} without decreases")
        new = eng.as_int(cs, eng.ev1(c.decreases, cs))
        old = eng.as_int(fr.init_state, eng.ev1(c.decreases, fr.init_state))
        eng.oblige(st, z3.And(0 <= new, new < old), f"variant@{name}", "")
    for en in c.ensures:
        t = eng.truth(cs, eng.ev1(en, cs))
        st.assume(t)
    eng.fr.callees.add(f"lemma:{name}")
    return [(st, VNone())]


def contract_call(eng, st, target, args, kwargs, node):
    from .heapmodel import havoc_target
    fr = eng.fr
    mode = None
    c = eng.cdb.get(target, mode)
    if c is None:
        raise Unsupported(f"call to {target} which has no contract")
    module, fdef = eng.repo.func(target)
    if fdef is not None and any(isinstance(d, ast.Name) and d.id == "classmethod" for d in fdef.decorator_list):
        if len(args) + len(kwargs) < len(c.params):
            args = [VConst(f"{target.split(':')[0]}:{target.split(':')[1].rsplit('.', 1)[0]}", "class")] + list(args)
    bound = bind_params(eng, c, fdef, module, args, kwargs)
    views = coerce_file_views(eng, st, c, bound, node)
    fr.callees.add(c.key)
    if c.assumed:
        fr.assumed_used.add(c.key)
    short = target.split(":")[1]
    if "aes_calls" in st.env:
        bound = dict(bound, aes_calls=st.env["aes_calls"])
    # the callee's entry ghost bindings (let) are part of its contract vocabulary: evaluate them in the pre-state
    for g in c.ghosts:
        if g.where != "entry":
            continue
        for ge in g.stmts:
            if isinstance(ge, ast.Call) and isinstance(ge.func, ast.Name) and ge.func.id == "let":
                gs = st.fork()
                gs.env = dict(bound)
                saved0 = fr.init_state
                fr.init_state = _with_env(st, bound)
                try:
                    bound[ast.literal_eval(ge.args[0])] = eng.named(st, eng.ev1(ge.args[1], gs), ast.literal_eval(ge.args[0]))
                finally:
                    fr.init_state = saved0
    pre = st.fork()                 # pre-call snapshot for old()
    cs = st.fork()
    cs.env = dict(bound)
    for i, r in enumerate(c.requires):
        t = eng.truth(cs, eng.ev1(r, cs))
        eng.oblige(st, t, f"pre@{short}", i, info={"line": getattr(node, "lineno", 0)})
        cs.assume(t)
    outs = []
    # exceptional outcomes
    from .verify import mentions_aes
    touches_aes = mentions_aes(c)
    for (exc, when, ens) in c.raises:
        bad = st.fork()
        bs = bad.fork()
        bs.env = dict(bound)
        bs.env["aes_calls"] = st.env.get("aes_calls", VInt(0))
        if when is not None:
            bad.assume(eng.truth(bs, eng.ev1(when, bs)))
        for m in c.modifies:
            havoc_target(eng, bad, bs, m)
        if touches_aes and "aes_calls" in bad.env:
            na = fresh("aes_calls", I)
            bad.assume(na >= bad.env["aes_calls"].t)
            if ens is not None:
                bs2 = bad.fork()
                bs2.env = dict(bound)
                bs2.env["aes_calls"] = VInt(na)
                saved = eng.fr.init_state
                eng.fr.init_state = _with_env(st, dict(bound, aes_calls=st.env["aes_calls"]))
                try:
                    bad.assume(eng.truth(bs2, eng.ev1(ens, bs2)))
                finally:
                    eng.fr.init_state = saved
            bad.env["aes_calls"] = VInt(na)
        writeback_views(eng, bad, views)
        eng.throw(bad, exc, node, f"raised by {short}")
    # normal outcome
    ns = st
    cs2 = ns.fork()
    cs2.env = dict(bound)
    for m in c.modifies:
        havoc_target(eng, ns, cs2, m)
    cs2.heap = ns.heap
    if c.mode in ("all",):
        ety = parse_type(c.yields or "int")
        if ety == "int":
            res = VSeq(fresh("yielded", ISq), "ilist")
        else:
            res, facts = sym_value("yielded", ("list", ety))
            ns.assume(*facts)
        cs2.env["yielded"] = res
        cs2.env["result"] = res
    elif c.mode == "first":
        # a generator known through its first item only: an item sequence of unknown length whose emptiness and first
        # element are described by the contract (`found`, `first`); nothing is known about later items
        ety = parse_type(c.yields or "int")
        if ety == "int":
            res = VSeq(fresh("yielded", ISq), "ilist")
            n_, first_ = IS.len(res.t), VInt(IS.at(res.t, z3.IntVal(0)))
        else:
            res, facts = sym_value("yielded", ("list", ety))
            ns.assume(*facts)
            n_, first_ = VS.len(res.t), unbox(VS.at(res.t, z3.IntVal(0)), ety)
        cs2.env["found"] = VBool(n_ > 0)
        cs2.env["first"] = first_
        cs2.env["result"] = first_
    else:
        rty = parse_type(c.returns or "none")
        res, facts = make_result(eng, ns, rty)
        ns.assume(*facts)
        if c.pure:
            from .spec import to_term
            pv = pure_app(eng, ns, c, None, None, bound=bound)
            ns.assume(to_term(eng, ns, res, c.returns) == to_term(eng, ns, pv, c.returns))
        if c.result_alias and isinstance(res, VRef):
            cell = dict(ns.heap[res.ident])
            for fld, expr in c.result_alias.items():
                cell[fld] = eng.ev1(expr, cs2)
            ns.heap[res.ident] = cell
        cs2.env["result"] = res
    if mentions_aes(c) and "aes_calls" in ns.env:
        na = fresh("aes_calls", I)
        ns.assume(na >= ns.env["aes_calls"].t)
        ns.env["aes_calls"] = VInt(na)
        cs2.env["aes_calls"] = VInt(na)
    saved_init = fr.init_state
    fr.init_state = _with_env(pre, bound)
    try:
        for en in c.ensures:
            cs2.pc = ns.pc
            t = eng.truth(cs2, eng.ev1(en, cs2))
            ns.assume(t)
    finally:
        fr.init_state = saved_init
    writeback_views(eng, ns, views)
    outs.append((ns, res))
    return outs


def pure_app(eng, st, c, args, kwargs, bound=None):
    """f(args) for a contract marked pure(): the application of an uninterpreted function symbol; its defining axiom
    (requires and no raises-condition ==> ensures) is derived from the contract (spec.SpecDB.pure_axiom)."""
    from .spec import to_term, from_term
    if bound is None:
        module, fdef = eng.repo.func(c.target)
        bound = bind_params(eng, c, fdef, module, args, kwargs)
    decl = eng.specs.pure_decl(c)
    terms = [to_term(eng, st, bound[n], ty) for n, ty in c.params]
    return from_term(decl(*terms), c.returns)


def coerce_file_views(eng, st, c, bound, node):
    """A XorEncodedFile passed where a binary file is expected is used through the contract proved for it
    (C09): a read-only file whose content is the decoded payload and whose position is the logical one.
    Obligation: the object is well formed (nonce cached, nonce_offset + 8 <= len) and the logical position >= 0."""
    views = []
    for name, ty in c.params:
        v = bound.get(name)
        if (ty or "") != "file" or not isinstance(v, VRef):
            continue
        cell = st.heap.get(v.ident)
        if not (isinstance(cell, dict) and cell.get("__kind__") == "obj" and cell.get("__class__") == "XorEncodedFile"):
            continue
        fh = cell["fh"]
        fcell = st.heap[fh.ident]
        E, off = fcell["content"].t, eng.as_int(st, cell["nonce_offset"])
        nonce = eng.deref(st, cell["initial_nonce"]).t
        nl = IS.len(nonce)
        avail = z3.If(IS.len(E) - off > 0, IS.len(E) - off, 0)
        wf = z3.And(0 <= off, nl == z3.If(avail < 4, avail, 4),
                    *[z3.Implies(t < nl, IS.at(nonce, z3.IntVal(t)) == IS.at(E, off + t)) for t in range(4)])
        eng.oblige(st, wf, f"xorview-wellformed@{c.target.split(':')[1]}", "", info={"line": getattr(node, "lineno", 0)})
        lpos = fcell["pos"].t - (off + 8)
        indep = False
        for pname, when in c.pos_independent:
            if pname == name:
                cs0 = st.fork()
                cs0.env = dict(bound)
                cond = z3.BoolVal(True) if when is None else eng.truth(cs0, eng.ev1(when, cs0))
                indep = z3.is_true(cond)
        if indep:
            lp = fresh("lpos", I)
            st.assume(lp >= 0)
            lpos = lp
        else:
            eng.oblige(st, lpos >= 0, f"xorview-position@{c.target.split(':')[1]}", "")
        key = ("xview", E.get_id(), off.get_id())
        if key not in st.ghost:
            view = fresh("xview", ISq)
            st.assume(view == smt.xview(E, off), is_bytes_fact(view))
            st.ghost[key] = view
        view = st.ghost[key]
        ident = f"file!xview!{next(_ids)}"
        st.heap[ident] = {"__kind__": "file", "content": VSeq(view, "bytes"), "pos": VInt(lpos), "fkind": "bytesio",
                          "__view_of__": (v.ident, fh.ident, off)}
        bound[name] = VRef(ident, "file")
        views.append((ident, fh.ident, off))
        eng.fr.callees.add("dissect.cobaltstrike.xordecode:XorEncodedFile.read (file refinement, C09)")
    return views


def writeback_views(eng, st, views):
    for ident, fhident, off in views:
        vcell = st.heap[ident]
        nc = dict(st.heap[fhident])
        nc["pos"] = VInt(vcell["pos"].t + off + 8)
        st.heap[fhident] = nc


def _with_env(st, env):
    s = st.fork()
    s.env = dict(env)
    return s


def make_result(eng, st, rty):
    if isinstance(rty, tuple) and rty[0] == "opt":
        # optional result: a none-flag and a value of the base type
        v, facts = make_result(eng, st, rty[1])
        return VOpt(fresh("result_isnone", B), v), facts
    if isinstance(rty, tuple) and rty[0] == "tuple":
        items, facts = [], []
        for et in rty[1:]:
            v, f = make_result(eng, st, et)
            items.append(v)
            facts += f
        return VTuple(items), facts
    if isinstance(rty, tuple) and rty[0] == "record":
        from .heapmodel import sym_record
        return sym_record(eng, st, rty[1])
    if isinstance(rty, str) and rty.startswith("cstruct:"):
        from .heapmodel import sym_cstruct
        return sym_cstruct(eng, st, "result", rty), []
    if isinstance(rty, str) and rty.startswith("obj:"):
        from .heapmodel import sym_object
        return sym_object(eng, st, "result", rty[4:]), []
    return sym_value("result", rty)


def class_call(eng, st, target, args, kwargs, node):
    from .heapmodel import construct
    return construct(eng, st, target, args, kwargs, node)


def ext_call(eng, st, name, args, kwargs, node):
    from .extmodel import ext_call as f
    return f(eng, st, name, args, kwargs, node)
