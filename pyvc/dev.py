"""Developer driver: python3-vt -m pyvc.dev <contract-key-substring> [-v]"""
import sys, time, traceback
from .engine import Repo
from .contracts import ContractDB
from .spec import SpecDB
from .verify import Verifier
from .values import Unsupported
from . import solve

def main():
    pat = sys.argv[1] if len(sys.argv) > 1 else ""
    verbose = "-v" in sys.argv
    only = sys.argv[sys.argv.index("-o") + 1] if "-o" in sys.argv else None
    dump = "-d" in sys.argv
    tmo = float(sys.argv[sys.argv.index("-t") + 1]) if "-t" in sys.argv else None
    from . import registry; registry.load()
    cdb = ContractDB("/verif/contracts")
    specs = SpecDB("/verif/contracts/spec")
    import os; repo = Repo(os.environ.get("PYVC_REPO","/repo"))
    eng = Verifier(repo, cdb, specs)
    for c in cdb.all:
        if pat not in c.key or c.assumed:
            continue
        print("==", c.key, f"[{c.mode}]")
        try:
            t0 = time.time()
            fr = eng.verify(c)
        except Unsupported as ex:
            print("   OUT-OF-REACH:", ex)
            if verbose: traceback.print_exc()
            continue
        if getattr(fr, "partial_error", None): print("   PARTIAL (undecided):", fr.partial_error)
        if getattr(fr, "unused_anchors", None): print("   UNUSED ANCHORS:", fr.unused_anchors)
        print(f"   vcgen {time.time()-t0:.2f}s, {len(fr.order)} obligations, dropped {len(fr.dropped)}")
        eng.current_reveals = tuple(c.reveals)
        params = {n: (v, fr.init_state.heap) for n, v in fr.init_state.env.items() if not n.startswith("$")}
        for name in fr.order:
            if only and only not in name:
                continue
            ob = fr.obligations[name]
            verdicts = []
            for inst in ob.instances:
                r = solve.discharge(eng, inst, timeout_ms=int((tmo or c.timeout or 10) * 1000), fuel=c.fuel, params=params)
                verdicts.append(r)
            bad = [r for r in verdicts if r["verdict"] != "proved"]
            tot = sum(r["seconds"] for r in verdicts)
            print(f"   {'OK ' if not bad else 'FAIL'} {name}  [{len(verdicts)} inst, {tot:.2f}s]")
            if verbose:
                print("        times:", [(round(r["seconds"],2), r["backend"][:6]) for r in verdicts if r["seconds"] > 0.5])
            for r in bad[:2]:
                print("        ", r["verdict"], r.get("reason"), str(r.get("model"))[:300])
            if dump and bad:
                k = [i for i, r in enumerate(verdicts) if r["verdict"] != "proved"][0]
                inst = ob.instances[k]
                print("      --- instance", k, inst.info)
                for h in inst.hyps: print("      H:", str(h).replace("\n", "\n         "))
                print("      G:", inst.goal)
        for nm, hyps in fr.canaries:
            ok = solve.canary(eng, hyps, fuel=c.fuel)
            if not ok: print("   VACUOUS", nm)
main()
