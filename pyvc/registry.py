"""Per-property metadata used in the evidence (explanations, property-specific assumptions) and
registration of record / object layouts for the heap model."""
ASSUMPTIONS = {}
EXPLANATION = {}


def load():
    from . import layouts  # noqa: F401  (registers records and objects)
