"""Discharging obligations: one SMT query per (obligation, path) instance; verdict mapping (DESIGN.md 5)."""
import json
import os
import subprocess
import tempfile
import time
import z3

from . import smt
from .smt import IS, VS, Val
from .values import VInt, VBool, VSeq, VNone, VTuple, VList, VRef, VAny, VRecord, VOpt

_AXIOMS = None


def axioms():
    global _AXIOMS
    if _AXIOMS is None:
        _AXIOMS = smt.all_axioms()
    return _AXIOMS


def build_solver(eng, hyps, goal, timeout_ms, fuel, reveals=()):
    sv = smt.new_solver(timeout_ms)
    for a in axioms():
        sv.add(a)
    for r in reveals or getattr(eng, "current_reveals", ()):
        for a in smt.REVEALABLE.get(r, []):
            sv.add(a)
    formulas = list(hyps) + ([goal] if goal is not None else [])
    unf = eng.specs.unfold(eng, formulas, fuel=fuel)
    for a in eng.specs.relevant_definition_axioms(eng, formulas + unf):
        sv.add(a)
    for f in unf:
        sv.add(f)
    for h in hyps:
        sv.add(h)
    if goal is not None:
        sv.add(z3.Not(goal))
    return sv


def classify(res, reason):
    if res == z3.unsat:
        return "proved"
    if res == z3.sat:
        return "refuted"
    r = (reason or "").lower()
    if "incomplete" in r:
        return "notproved"
    if "timeout" in r or "canceled" in r or "resource" in r or "max" in r:
        return "timeout"
    return "unknown:" + r


def run_external(smt2_text, backend, timeout_s):
    """Second back ends on the SMT-LIB text: /usr/bin/z3 (4.8.12) or /usr/bin/cvc5 (1.0.3)."""
    with tempfile.NamedTemporaryFile("w", suffix=".smt2", delete=False, dir=os.environ.get("PYVC_TMP")) as f:
        f.write(smt2_text)
        path = f.name
    try:
        if backend == "z3-4.8":
            cmd = ["/usr/bin/z3", f"-T:{timeout_s}", "auto_config=false", "smt.mbqi=false", path]
        else:
            cmd = ["/usr/bin/cvc5", f"--tlimit={timeout_s * 1000}", "--lang=smt2", path]
        t0 = time.time()
        try:
            p = subprocess.run(cmd, capture_output=True, text=True, timeout=timeout_s + 5)
            out = (p.stdout or "").strip().splitlines()
            res = out[0] if out else "unknown"
        except subprocess.TimeoutExpired:
            res = "timeout"
        return res, time.time() - t0
    finally:
        os.unlink(path)


def discharge(eng, inst, timeout_ms=20000, fuel=1, second_backend=None, params=None, first_ms=None):
    """z3 5.1 (in process) first, with a short budget; on time-out the same query (SMT-LIB text) goes to
    /usr/bin/z3 4.8.12 and then cvc5.  Only `unsat` discharges; `unknown (incomplete quantifiers)` is
    the normal not-proved signal; time-outs on every back end are `timeout` (undecided)."""
    first_ms = first_ms or min(timeout_ms, int(os.environ.get("PYVC_FIRST_MS", "8000")))
    sv = build_solver(eng, inst.hyps, inst.goal, first_ms, fuel)
    t0 = time.time()
    res = sv.check()
    dt = time.time() - t0
    reason = sv.reason_unknown() if res == z3.unknown else ""
    verdict = classify(res, reason)
    out = {"verdict": verdict, "backend": "z3-5.1(py)", "seconds": round(dt, 4), "reason": reason, "tried": ["z3-5.1(py)"]}
    if verdict in ("refuted", "notproved") and params is not None:
        out["model"] = candidate_model(eng, inst, fuel, params, sv if verdict == "refuted" else None, out)
    need_other = verdict == "timeout" or verdict.startswith("unknown")
    if need_other or (second_backend and verdict == "proved"):
        txt = "(set-option :auto_config false)\n(set-option :smt.mbqi false)\n" + sv.to_smt2()
        backends = ["z3-4.8", "cvc5"] if need_other else [second_backend]
        for be in backends:
            r2, dt2 = run_external(txt if be != "cvc5" else cvc5_text(sv), be, max(2, min(20, timeout_ms // 1000)))
            out["tried"].append(be)
            out.setdefault("others", []).append({"backend": be, "result": r2, "seconds": round(dt2, 3)})
            out["seconds"] = round(out["seconds"] + dt2, 4)
            if need_other and r2 == "unsat":
                out["verdict"] = "proved"
                out["backend"] = be
                break
            if need_other and be == "z3-4.8":
                # second attempt of the in-process solver with the full budget and another seed
                sv2 = build_solver(eng, inst.hyps, inst.goal, timeout_ms, fuel)
                sv2.set("smt.random_seed", 7)
                t1 = time.time()
                res2 = sv2.check()
                dt3 = time.time() - t1
                out["tried"].append("z3-5.1(py,seed7)")
                out["seconds"] = round(out["seconds"] + dt3, 4)
                v2 = classify(res2, sv2.reason_unknown() if res2 == z3.unknown else "")
                if v2 == "proved":
                    out["verdict"] = "proved"
                    out["backend"] = "z3-5.1(py)"
                    break
                if v2 in ("refuted", "notproved"):
                    out["verdict"] = v2
                    out["reason"] = sv2.reason_unknown() if res2 == z3.unknown else ""
                    if params is not None:
                        out["model"] = candidate_model(eng, inst, fuel, params, sv2 if v2 == "refuted" else None, out)
                    break
    return out


def candidate_model(eng, inst, fuel, params, sat_solver, out):
    """The solver's candidate counter-model (z3 keeps one only with candidate_models=true, which in turn
    hides the reason for `unknown`, hence the separate run)."""
    try:
        if sat_solver is None:
            sat_solver = build_solver(eng, inst.hyps, inst.goal, 3000, fuel)
            sat_solver.set("candidate_models", True)
            sat_solver.check()
        return extract_model(sat_solver.model(), params)
    except Exception as ex:
        out["model_error"] = repr(ex)
        return None


def cvc5_text(sv):
    return "(set-logic ALL)\n" + sv.to_smt2()


def canary(eng, hyps, timeout_ms=3000, fuel=1):
    """The hypotheses of a proof context must not be refutable (else everything is provable from them)."""
    sv = build_solver(eng, hyps, None, timeout_ms, fuel)
    res = sv.check()
    return res != z3.unsat


def smt2_text(eng, inst, fuel=1):
    sv = build_solver(eng, inst.hyps, inst.goal, 1000, fuel)
    return sv.to_smt2()


# --------------------------------------------------------------------------- candidate models -> Python values

def _ival(m, t):
    v = m.eval(t, model_completion=True)
    try:
        return v.as_long()
    except Exception:
        return 0


def _iseq(m, t, cap=48):
    n = max(0, min(_ival(m, IS.len(t)), cap))
    return [_ival(m, IS.at(t, z3.IntVal(i))) for i in range(n)]


def concretize(m, v, heap=None):
    if isinstance(v, VInt):
        return {"int": _ival(m, v.t)}
    if isinstance(v, VBool):
        return {"bool": z3.is_true(m.eval(v.t, model_completion=True))}
    if isinstance(v, VSeq):
        xs = _iseq(m, v.t)
        if v.kind in ("bytes", "bytearray"):
            return {"bytes": [x % 256 for x in xs]}
        if v.kind == "str":
            return {"str": [x % 0x110000 for x in xs]}
        return {"ilist": xs}
    if isinstance(v, VNone):
        return {"none": True}
    if isinstance(v, VTuple):
        return {"tuple": [concretize(m, x, heap) for x in v.items]}
    if isinstance(v, VRecord):
        from .values import RECORDS
        return {"record": v.cls, "module": RECORDS[v.cls][1], "fields": {k: concretize(m, x, heap) for k, x in v.fields.items()}}
    if isinstance(v, VOpt):
        if z3.is_true(m.eval(v.isnone, model_completion=True)):
            return {"none": True}
        return concretize(m, v.value, heap)
    if isinstance(v, VList):
        n = max(0, min(_ival(m, VS.len(v.t)), 64))
        from .values import unbox
        out = []
        for i in range(n):
            try:
                out.append(concretize(m, unbox(VS.at(v.t, z3.IntVal(i)), v.et), heap))
            except Exception:
                out.append({"opaque": True})
        return {"list": out}
    if isinstance(v, VAny):
        return concretize_val(m, v.t)
    if isinstance(v, VRef) and heap is not None:
        cell = heap.get(v.ident)
        if isinstance(cell, dict) and cell.get("__kind__") == "file":
            return {"file": concretize(m, cell["content"]), "pos": _ival(m, cell["pos"].t), "fkind": cell["fkind"]}
        if isinstance(cell, dict) and cell.get("__kind__") == "obj":
            return {"object": cell.get("__class__"),
                    "fields": {k: concretize(m, x, heap) for k, x in cell.items() if not k.startswith("__")}}
        if isinstance(cell, (VSeq, VList)):
            return {"mlist": concretize(m, cell, heap)}
    return {"opaque": repr(v)[:60]}


def concretize_val(m, t, depth=0):
    tv = m.eval(t, model_completion=True)
    if depth > 3:
        return {"opaque": True}
    try:
        if z3.is_true(m.eval(Val.is_VI(t), model_completion=True)):
            return {"int": _ival(m, Val.ival(t))}
        if z3.is_true(m.eval(Val.is_VB(t), model_completion=True)):
            return {"bool": z3.is_true(m.eval(Val.bval(t), model_completion=True))}
        if z3.is_true(m.eval(Val.is_VBy(t), model_completion=True)):
            return {"bytes": [x % 256 for x in _iseq(m, Val.byval(t))]}
        if z3.is_true(m.eval(Val.is_VStr(t), model_completion=True)):
            return {"str": [x % 0x110000 for x in _iseq(m, Val.strval(t))]}
        if z3.is_true(m.eval(Val.is_VIL(t), model_completion=True)):
            return {"ilist": _iseq(m, Val.ilval(t))}
        if z3.is_true(m.eval(Val.is_VN(t), model_completion=True)):
            return {"none": True}
        for tag, acc, key in ((Val.is_VT, Val.tval, "tuple"), (Val.is_VL, Val.lval, "list")):
            if z3.is_true(m.eval(tag(t), model_completion=True)):
                sq = acc(t)
                n = max(0, min(_ival(m, VS.len(sq)), 16))
                return {key: [concretize_val(m, VS.at(sq, z3.IntVal(i)), depth + 1) for i in range(n)]}
    except Exception:
        pass
    return {"opaque": True}


def extract_model(m, params):
    """params: {name: (Value, heap)} -> JSON-able dict."""
    out = {}
    for name, (v, heap) in params.items():
        out[name] = concretize(m, v, heap)
    return out
