"""Run-time meaning of the contract vocabulary (executed under CPython for replay and bounded checks).

The same spec text that is translated to SMT is executed here, so a wrong spec is caught by running it.
"""


def spec(f):
    return f


def specfn(f):
    return f


def opaque(f):
    return f


def forall(pred, lo=None, hi=None, trigger=None):
    if hi is None and lo is not None:
        lo, hi = 0, lo
    import inspect
    n = len(inspect.signature(pred).parameters)
    if n == 1:
        return all(pred(i) for i in range(lo, hi))
    if n == 2:
        return all(pred(i, j) for i in range(lo, hi) for j in range(lo, hi))
    raise NotImplementedError


def exists(pred, lo=None, hi=None, trigger=None):
    if hi is None and lo is not None:
        lo, hi = 0, lo
    return any(pred(i) for i in range(lo, hi))


def implies(a, b):
    return (not a) or b


def iff(a, b):
    return bool(a) == bool(b)


def ite(c, a, b):
    return a if c else b


def bxor(a, b):
    return a ^ b


def sub(s, a, b):
    """raw slice: meaningful for 0 <= a <= b <= len(s) (no clamping in the SMT encoding)"""
    return s[a:b]


def file_content(f):
    if hasattr(f, "getvalue"):
        return f.getvalue()
    p = f.tell()
    f.seek(0)
    data = f.read()
    f.seek(p)
    return data


def file_pos(f):
    return f.tell()


def fits_bytes(n, w, signed=False):
    if signed:
        return -(256 ** w) // 2 <= n < (256 ** w) // 2 if w > 0 else n == 0
    return 0 <= n < 256 ** w


def aes_enc(key, iv, data):
    from Crypto.Cipher import AES
    return AES.new(key, AES.MODE_CBC, iv=iv).encrypt(data)


def aes_dec(key, iv, data):
    from Crypto.Cipher import AES
    return AES.new(key, AES.MODE_CBC, iv=iv).decrypt(data)


def hmac_sha256(key, msg):
    import hmac
    return hmac.new(key, msg, "sha256").digest()


def sha256(data):
    import hashlib
    return hashlib.sha256(data).digest()


def rsa_k(key):
    return key.size_in_bytes()


def rsa_ok(priv, ct):
    from Crypto.Cipher import PKCS1_v1_5
    if len(ct) != priv.size_in_bytes():
        return False
    try:
        return PKCS1_v1_5.new(priv).decrypt(ct, None) is not None
    except ValueError:      # "Ciphertext too large": not a valid ciphertext for this modulus
        return False


def rsa_pt(priv, ct):
    from Crypto.Cipher import PKCS1_v1_5
    if len(ct) != priv.size_in_bytes():
        return b""
    try:
        r = PKCS1_v1_5.new(priv).decrypt(ct, None)
    except ValueError:
        return b""
    return b"" if r is None else r


def keypair(pub, priv):
    return pub.n == priv.n


def xview(E, off):
    """decoded payload of the XorEncoded container at offset off (reference decoder)"""
    out = bytearray()
    n = max(len(E) - (off + 8), 0)
    for i in range(n):
        k = E[off + i] if i < 4 else E[off + 4 + i]
        out.append(E[off + 8 + i] ^ k)
    return bytes(out)


def same(a, b):
    """identical values (SMT: equality of the boxed terms)"""
    return a == b


def dlog(d):
    """insertion log of a dict built by in-order insertion: here the final (key, value) pairs in order"""
    return list(d.items())


def url_path(u):
    from urllib.parse import urlparse
    return urlparse(u).path


def url_query(u):
    from urllib.parse import urlparse
    return urlparse(u).query


def url_ok(u):
    from urllib.parse import urlparse
    try:
        urlparse(u)
        return True
    except ValueError:
        return False


def qsl(q):
    from urllib.parse import parse_qsl
    return parse_qsl(q)


def ws_split(s):
    return s.split()


def is_response(x):
    return type(x).__name__ == "HttpResponse"


def is_request(x):
    return type(x).__name__ == "HttpRequest"


def enum_tag(name):
    import zlib
    return zlib.crc32(name.encode()) & 0xFFFF


def snapshot(obj):
    """flat value of a cstruct instance: fields in declaration order, enum-typed fields as (enum tag, value)"""
    out = []
    for f in obj._type.fields if hasattr(obj, "_type") else type(obj).fields:
        v = getattr(obj, f.name if hasattr(f, "name") else f)
        if hasattr(v, "value") and hasattr(v, "name") and not isinstance(v, (bytes, str)):
            out.append(enum_tag(type(v).__name__))
            out.append(int(v.value))
        else:
            out.append(v)
    return tuple(out)


def snapshots(xs):
    return [snapshot(x) for x in xs]


def is_int(v):
    return isinstance(v, int) and not isinstance(v, bool)


def is_true(v):
    return v is True


def is_bytes(v):
    return isinstance(v, bytes)


def is_str(v):
    return isinstance(v, str)


def as_int(v):
    return v


def as_bytes(v):
    return v


def as_str(v):
    return v


def hex_of(b):
    return bytes(b).hex()
