"""./check <ID> [--tier quick|thorough] [--replay <file>]   (exit codes: DESIGN.md section 5)

0  every obligation of the property discharged, every bounded stand-in passed
1  violation: `VIOLATION property=<id> replay=<path>` (known findings print KNOWN-FINDING and do not fail)
2  undecided (time-outs on all back ends, construct out of reach, contract cannot bind)
3  checker crash / vacuity guard tripped
"""
import argparse
import hashlib
import json
import multiprocessing as mp
import os
import subprocess
import sys
import time
import traceback

ROOT = os.path.dirname(os.path.dirname(os.path.abspath(__file__)))
VENV_PY = "/venv/bin/python"


def sha(path):
    return hashlib.sha256(open(path, "rb").read()).hexdigest()[:16]


# ---------------------------------------------------------------- parallel discharge (fork: children inherit the VCs)
_JOBS = []
_ENG = None
REVEALS = {}
_RETRY = set()


def _work(k):
    from . import solve
    kind, payload = _JOBS[k]
    try:
        if kind == "inst":
            name, idx, inst, fuel, tmo, params, second = payload
            _ENG.current_reveals = REVEALS.get(name, ())
            if k in _RETRY:
                # second round for an instance no back end decided in the first one (machine load, unlucky seed): three times
                # the budget, the in-process solver gets the whole of it at once, few processes in parallel
                r = solve.discharge(_ENG, inst, timeout_ms=3 * tmo, fuel=fuel, params=params, second_backend=second, first_ms=3 * tmo)
                r["retried"] = True
            else:
                r = solve.discharge(_ENG, inst, timeout_ms=tmo, fuel=fuel, params=params, second_backend=second)
            r["info"] = {k2: v for k2, v in (inst.info or {}).items() if isinstance(v, (str, int))}
            return k, r
        if kind == "canary":
            name, hyps, fuel = payload
            _ENG.current_reveals = ()
            ok = solve.canary(_ENG, hyps, fuel=fuel)
            return k, {"verdict": "consistent" if ok else "VACUOUS"}
        if kind == "ground":
            name, fn = payload
            t0 = time.time()
            ok, detail = fn()
            return k, {"verdict": "proved" if ok else "notproved", "backend": detail.get("backend", "ground"),
                       "seconds": round(time.time() - t0, 4), "detail": detail}
    except Exception:
        return k, {"verdict": "crash", "detail": traceback.format_exc()[-2000:]}


def run_rt(job, timeout=600):
    env = dict(os.environ)
    p = subprocess.run([VENV_PY, os.path.join(ROOT, "pyvc", "rt_runner.py")], input=json.dumps(job), text=True,
                       capture_output=True, timeout=timeout, env=env)
    try:
        return json.loads(p.stdout)
    except Exception:
        return {"outcome": "error", "detail": (p.stdout or "")[-500:] + (p.stderr or "")[-1500:]}


def model_to_inputs(model, contract):
    if not model:
        return None, None
    # a candidate model is only replayed when every parameter can be rebuilt faithfully from it
    for _n, ty in contract.params:
        t = (ty or "any")
        if t == "any" or t.startswith(("obj:", "cstruct:", "newobj:")) or "any" in t:
            return None, None
    inputs, consts = {}, {}
    for name, _ty in contract.params:
        if (_ty or "").startswith("class:"):
            continue
        if name not in model:
            return None, None
        inputs[name] = model[name]
    for k, v in model.items():
        if k.startswith("const:"):
            consts[k[6:]] = max(1, v.get("int", 1))
    return inputs, consts


def main(argv=None):
    ap = argparse.ArgumentParser()
    ap.add_argument("prop")
    ap.add_argument("--tier", default=os.environ.get("VERIF_TIER", "quick"))
    ap.add_argument("--replay")
    ap.add_argument("--repo", default=os.environ.get("PYVC_REPO", "/repo"))
    ap.add_argument("--update-ledger", action="store_true")
    ap.add_argument("--no-evidence", action="store_true")
    ap.add_argument("--jobs", type=int, default=int(os.environ.get("PYVC_JOBS", "16")))
    args = ap.parse_args(argv)
    os.environ["PYVC_REPO"] = args.repo
    try:
        rc = run(args)
    except SystemExit:
        raise
    except Exception:
        traceback.print_exc()
        print(f"CHECKER-CRASH property={args.prop}")
        rc = 3
    sys.exit(rc)


def run(args):
    global _JOBS, _ENG
    t_start = time.time()
    prop = args.prop
    tier = args.tier if args.tier in ("quick", "thorough") else "quick"
    seed = int(os.environ.get("VERIF_SEED", "0") or 0)
    if args.replay:
        return do_replay(prop, args.replay, args.repo)

    from .engine import Repo
    from .contracts import ContractDB
    from .spec import SpecDB
    from .verify import Verifier
    from .values import Unsupported
    from . import solve, ground, registry

    registry.load()
    cdb = ContractDB(os.path.join(ROOT, "contracts"))
    specs = SpecDB(os.path.join(ROOT, "contracts", "spec"))
    repo = Repo(args.repo)
    eng = Verifier(repo, cdb, specs)
    _ENG = eng

    known = json.load(open(os.path.join(ROOT, "known_findings.json")))
    ledger = json.load(open(os.path.join(ROOT, "ledger.json"))) if os.path.exists(os.path.join(ROOT, "ledger.json")) else {}
    manifest = json.load(open(os.path.join(ROOT, "MANIFEST.json")))
    mcheck = next((c for c in manifest["checks"] if c["property_id"] == prop), None)
    level = mcheck["level_claimed"]["category"] if mcheck else "proof"

    sel = [c for c in cdb.all if prop in c.props and not c.assumed]
    externals = [c for c in cdb.all if c.assumed]
    frames, out_of_reach = [], []
    t0 = time.time()
    by_key = {c.key: c for c in cdb.all if not c.assumed}
    by_lemma = {"lemma:" + getattr(c, "name", ""): c for c in cdb.all if c.kind == "lemma"}
    work, seen_keys, closure_added = list(sel), {c.key for c in sel}, []
    while work:
        c = work.pop(0)
        try:
            fr = eng.verify(c)
            frames.append((c, fr))
            if getattr(fr, "partial_error", None):
                out_of_reach.append((c.key, fr.partial_error))
            elif getattr(fr, "unused_anchors", None):
                out_of_reach.append((c.key, "ghost anchor(s) not found in the function: " + "; ".join(fr.unused_anchors)))
            # modular verification trusts a callee's contract: every contract (and lemma) used at a call site of a function
            # verified here is verified here as well, whatever properties it is listed under - the chain from the property to
            # the code is closed within ONE check
            used = set()
            for k in getattr(fr, "callees", ()):
                if "(file refinement" in k:
                    # a decoded view passed where a file is expected: the view's own operations carry the file contract
                    used |= {kk for kk in by_key if kk.startswith("dissect.cobaltstrike.xordecode:XorEncodedFile.")}
                else:
                    used.add(k)
            for k in sorted(used):
                cc = by_key.get(k) or by_lemma.get(k)
                if cc is not None and cc.key not in seen_keys:
                    seen_keys.add(cc.key)
                    work.append(cc)
                    closure_added.append(cc.key)
        except Unsupported as ex:
            out_of_reach.append((c.key, str(ex)))
    t_vcgen = time.time() - t0

    tmo = 60000 if tier == "quick" else 180000
    second = None if tier == "quick" else "z3-4.8"
    _JOBS = []
    ob_index = {}          # name -> dict
    for c, fr in frames:
        params = None
        if fr.init_state is not None:
            params = {n: (v, fr.init_state.heap) for n, v in fr.init_state.env.items() if not n.startswith("$")}
            for gname, gv in fr.init_state.ghost.items():
                params["const:" + gname] = (gv, None)
        for name in fr.order:
            ob = fr.obligations[name]
            ob_index[name] = {"name": name, "fn": c.key, "kind": ob.kind, "results": [], "contract": c,
                              "n_instances": len(ob.instances)}
            REVEALS[name] = tuple(c.reveals)
            for i, inst in enumerate(ob.instances):
                _JOBS.append(("inst", (name, i, inst, c.fuel, int((c.timeout * 1000) if c.timeout else tmo), params, second)))
        for cname, hyps in fr.canaries:
            _JOBS.append(("canary", (cname, hyps, c.fuel)))
    for gname, fn in ground.obligations_for(prop, repo, cdb):
        ob_index[gname] = {"name": gname, "fn": "ground", "kind": "ground", "results": [], "contract": None, "n_instances": 1}
        _JOBS.append(("ground", (gname, fn)))

    results = [None] * len(_JOBS)
    if _JOBS:
        ctx = mp.get_context("fork")
        with ctx.Pool(min(args.jobs, max(1, len(_JOBS)))) as pool:
            for k, r in pool.imap_unordered(_work, range(len(_JOBS)), chunksize=1):
                results[k] = r
    again = [k for k, ((kind, _p), r) in enumerate(zip(_JOBS, results))
             if kind == "inst" and (r.get("verdict") == "timeout" or str(r.get("verdict", "")).startswith("unknown"))]
    if again:
        _RETRY.update(again)
        ctx = mp.get_context("fork")
        with ctx.Pool(min(4, len(again))) as pool:
            for k, r in pool.imap_unordered(_work, again, chunksize=1):
                r["first_round_seconds"] = results[k].get("seconds", 0)
                results[k] = r
    vacuous, crashes, canary_groups = [], [], {}
    for (kind, payload), r in zip(_JOBS, results):
        if r.get("verdict") == "crash":
            crashes.append((payload[0], r["detail"]))
            continue
        if kind in ("inst", "ground"):
            ob_index[payload[0]]["results"].append(r)
        elif kind == "canary":
            canary_groups.setdefault(payload[0], []).append(r["verdict"])

    # a proof context (pre-state, loop head of a declared case) is vacuous when NO path reaching it is consistent
    vacuous = sorted(n for n, vs in canary_groups.items() if all(v == "VACUOUS" for v in vs))
    # ---------------------------------------------------------------- verdict per obligation
    for ob in ob_index.values():
        vs = [r["verdict"] for r in ob["results"]]
        if all(v == "proved" for v in vs):
            ob["verdict"] = "discharged"
        elif any(v in ("refuted", "notproved") for v in vs):
            ob["verdict"] = "notproved"
        else:
            ob["verdict"] = "undecided"
        ob["seconds"] = round(sum(r.get("seconds", 0) for r in ob["results"]), 3)
        ob["max_instance_s"] = round(max([r.get("seconds", 0) for r in ob["results"]] or [0]), 3)
        ob["backends"] = sorted({r.get("backend", "?") for r in ob["results"]})

    n_obl = len(ob_index)
    n_dis = sum(1 for o in ob_index.values() if o["verdict"] == "discharged")
    solver_time = round(sum(o["seconds"] for o in ob_index.values()), 2)

    # ---------------------------------------------------------------- bounded stand-ins (real code, stated bound)
    bounded = []
    bscript = os.path.join(ROOT, "bounded", f"{prop}.py")
    bounded_violations = []
    if os.path.exists(bscript):
        env = dict(os.environ, VERIF_SEED=str(seed), VERIF_TIER=tier, PYVC_REPO=args.repo)
        p = subprocess.run([VENV_PY, bscript], capture_output=True, text=True, env=env, timeout=3600)
        try:
            bres = json.loads(p.stdout)
            bounded = bres["components"]
            for comp in bounded:
                for v in comp.get("violations", []):
                    bounded_violations.append((comp["name"], v))
        except Exception:
            crashes.append((f"bounded/{prop}.py", (p.stdout or "")[-800:] + (p.stderr or "")[-1500:]))

    # ---------------------------------------------------------------- failed obligations -> replay on the real code
    violations, undecided, known_lines = [], [], []
    for key, why in out_of_reach:
        undecided.append({"obligation": key, "reason": "out-of-reach: " + why})
    failed_by_fn = {}
    for ob in ob_index.values():
        if ob["verdict"] == "notproved":
            failed_by_fn.setdefault(ob["fn"], []).append(ob)
        elif ob["verdict"] == "undecided":
            undecided.append({"obligation": ob["name"], "reason": "no back end decided: " +
                              ";".join(sorted({r.get("reason") or r["verdict"] for r in ob["results"]}))[:200]})
    os.makedirs(os.path.join(ROOT, "replays"), exist_ok=True)
    open_findings = [k for k in known.get("findings", []) if k.get("status") == "open" and prop in k.get("properties", [])]
    replay_stats = {"models_replayed": 0, "searches": 0, "search_cases": 0}
    violations_pre = violations
    # functions that are out of reach / undecided still get the directed concrete search (bounded):
    # a failing input found on the real code is a violation whatever the state of the proof
    searched_extra = set()
    for key, why in list(out_of_reach) + [(o["fn"], "undecided") for o in ob_index.values() if o["verdict"] == "undecided"]:
        if key in failed_by_fn or key in searched_extra:
            continue
        searched_extra.add(key)
        c = next((x for x in sel if x.key == key and x.kind == "contract" and x.slice is None), None)
        if c is None:
            continue
        replay_stats["searches"] += 1
        rr = run_rt({"kind": "search", "contract_key": c.key, "mode": c.mode, "seed": seed,
                     "budget": 30000 if tier == "quick" else 400000, "repo_root": args.repo}, timeout=3000)
        replay_stats["search_cases"] += rr.get("tried", 0)
        if rr.get("outcome") == "error":
            crashes.append((f"replay search {c.key}", rr.get("detail", "")))
        if rr.get("outcome") == "violation":
            kf = match_known(open_findings, c.key, rr)
            if kf:
                known_lines.append(f"KNOWN-FINDING: property={prop} {kf['id']} {kf['what']}")
                continue
            rec = {"property": prop, "function": key, "failed_obligations": [f"{key}/(proof undecided: {why})"],
                   "how_found": "directed small-scope search with the executable contract (proof undecided)",
                   "witness": rr, "contract_key": c.key, "mode": c.mode}
            path = os.path.join("replays", f"{prop}-{safe(key)}-search.json")
            json.dump(rec, open(os.path.join(ROOT, path), "w"), indent=1, default=str)
            violations.append((path, False, [key]))
    for ob in failed_by_fn.pop("ground", []):
        rec = {"property": prop, "function": "ground", "failed_obligations": [ob["name"]],
               "how_found": "ground obligation over the literal source text (a finite fact, evaluated exhaustively)",
               "witness": ob["results"][0].get("detail")}
        path = os.path.join("replays", f"{prop}-{safe(ob['name'])}.json")
        json.dump(rec, open(os.path.join(ROOT, path), "w"), indent=1, default=str)
        violations.append((path, False, [ob["name"]]))
    for fnkey, obs in failed_by_fn.items():
        c = obs[0]["contract"]
        found = None
        if c is not None and c.kind == "contract" and c.slice is None:
            # 1. replay candidate counter-models (not for statement slices: they are not callable on their own)
            seen = set()
            for ob in obs:
                for r in ob["results"]:
                    if r["verdict"] in ("refuted", "notproved") and r.get("model"):
                        inputs, consts = model_to_inputs(r["model"], c)
                        if inputs is None:
                            continue
                        sig = json.dumps([inputs, consts], sort_keys=True)
                        if sig in seen or len(seen) >= 6:
                            continue
                        seen.add(sig)
                        replay_stats["models_replayed"] += 1
                        rr = run_rt({"kind": "replay", "contract_key": c.key, "mode": c.mode, "inputs": inputs,
                                     "consts": consts, "repo_root": args.repo})
                        if rr.get("outcome") == "violation":
                            found = (ob, rr, "counter-model of the solver, replayed on the real code")
                            break
                    if found:
                        break
                if found:
                    break
            # 2. directed small-scope search with the executable contract
            if not found:
                replay_stats["searches"] += 1
                rr = run_rt({"kind": "search", "contract_key": c.key, "mode": c.mode, "seed": seed,
                             "budget": 30000 if tier == "quick" else 400000, "repo_root": args.repo}, timeout=3000)
                replay_stats["search_cases"] += rr.get("tried", 0)
                if rr.get("outcome") == "violation":
                    found = (obs[0], rr, "directed small-scope search with the executable contract")
                elif rr.get("outcome") == "error":
                    crashes.append((f"replay search {c.key}", rr.get("detail", "")))
        names = [o["name"] for o in obs]
        if found:
            ob, rr, how = found
            kf = match_known(open_findings, c.key, rr)
            rec = {"property": prop, "function": fnkey, "failed_obligations": names, "how_found": how, "witness": rr,
                   "contract_key": c.key, "mode": c.mode,
                   "solver_output": [{"obligation": o["name"], "results": [
                       {k2: v for k2, v in r.items() if k2 in ("verdict", "reason", "backend", "seconds")}
                       for r in o["results"] if r["verdict"] != "proved"][:3]} for o in obs]}
            if kf:
                known_lines.append(f"KNOWN-FINDING: property={prop} {kf['id']} {kf['what']}")
                continue
            path = os.path.join("replays", f"{prop}-{safe(names[0])}.json")
            json.dump(rec, open(os.path.join(ROOT, path), "w"), indent=1, default=str)
            violations.append((path, False, names))
        else:
            # obligation names carry source line numbers (escape-X#why@L23); an edit that only moves the statement must not hide
            # the obligation from the baseline comparison: compare with the line numbers removed
            base = {ledger_key(n) for n in ledger.get(prop, [])}
            in_ledger = [n for n in names if ledger_key(n) in base]
            kf = match_known_fn(open_findings, fnkey)
            if kf:
                known_lines.append(f"KNOWN-FINDING: property={prop} {kf['id']} {kf['what']}")
                continue
            if in_ledger:
                rec = {"property": prop, "function": fnkey, "failed_obligations": names,
                       "no_failing_input_found": True,
                       "note": "these obligations were discharged on the unchanged tree (ledger.json) and are not provable on this tree",
                       "solver_output": [{"obligation": o["name"], "results": [
                           {k2: v for k2, v in r.items() if k2 in ("verdict", "reason", "backend", "seconds", "model", "info")}
                           for r in o["results"] if r["verdict"] != "proved"][:3]} for o in obs]}
                path = os.path.join("replays", f"{prop}-{safe(in_ledger[0])}.json")
                json.dump(rec, open(os.path.join(ROOT, path), "w"), indent=1, default=str)
                violations.append((path, True, names))
            else:
                for n in names:
                    undecided.append({"obligation": n, "reason": "not proved, no failing input found, not in the baseline ledger"})
    for comp, v in bounded_violations:
        kf = match_known(open_findings, v.get("contract_key", comp), v)
        if kf:
            known_lines.append(f"KNOWN-FINDING: property={prop} {kf['id']} {kf['what']}")
            continue
        path = os.path.join("replays", f"{prop}-bounded-{safe(comp)}.json")
        json.dump({"property": prop, "bounded_component": comp, "witness": v}, open(os.path.join(ROOT, path), "w"), indent=1, default=str)
        violations.append((path, False, [f"bounded:{comp}"]))

    # open findings of this property whose witness is replayed explicitly
    for kf in open_findings:
        if kf.get("witness_cmd") and not any(kf["id"] in l for l in known_lines):
            p = subprocess.run([VENV_PY, os.path.join(ROOT, kf["witness_cmd"])], capture_output=True, text=True,
                               env=dict(os.environ, PYVC_REPO=args.repo))
            if p.returncode == 1:
                known_lines.append(f"KNOWN-FINDING: property={prop} {kf['id']} {kf['what']}")

    # ---------------------------------------------------------------- evidence
    wall = round(time.time() - t_start, 2)
    assumption_scan = scan_assumptions()
    fuc = []
    for c, fr in frames:
        if c.kind == "contract":
            m, fdef = repo.func(c.target)
            import ast as _ast
            fuc.append({"function": c.target, "mode": c.mode, "contract_file": os.path.relpath(c.file, ROOT),
                        "source_file": os.path.relpath(m.path, args.repo),
                        "source_sha256": hashlib.sha256(_ast.unparse(fdef).encode()).hexdigest()[:16],
                        "dropped": sorted({d[0] for d in fr.dropped}), "dropped_count": len(fr.dropped),
                        "callees_by_contract": sorted(fr.callees), "assumed_used": sorted(fr.assumed_used)})
        else:
            fuc.append({"lemma": c.name, "contract_file": os.path.relpath(c.file, ROOT)})
    samples = []
    for c, fr in frames[:3]:
        for name in fr.order[:1]:
            ob = fr.obligations[name]
            if ob.instances:
                try:
                    samples.append({"obligation": name, "smtlib_head": solve.smt2_text(eng, ob.instances[0], c.fuel)[-1500:]})
                except Exception:
                    pass
    for comp in bounded:
        for s in comp.get("samples", [])[:2]:
            samples.append({"bounded": comp["name"], "case": s})
    if not samples:
        samples.append({"note": "no obligation generated"})
    assumed_contracts = sorted({a for _, fr in frames for a in fr.assumed_used})
    trusted = ["pyvc (front end, symbolic executor, prelude axioms, builtin models) - DESIGN.md section 4",
               "z3 5.1.0 / z3 4.8.12 / cvc5 1.0.3",
               "Python semantics as encoded (exact ints, slice clamping, left-to-right evaluation)",
               "file model: read(n) returns fewer than n bytes only at end of content"] + \
              [f"assumed contract: {a}" for a in assumed_contracts] + registry.ASSUMPTIONS.get(prop, [])
    evidence = {
        "property_id": prop, "tier": tier, "seed": seed, "level": level, "wall_s": wall,
        "violations": len(violations),
        "coverage": {
            "obligations": n_obl, "discharged": n_dis,
            "checker_cmd": f"./check {prop} --tier {tier}",
            "trusted_base": trusted,
            "explanation": registry.EXPLANATION.get(prop, "") or
                           "contract-based deductive verification: VCs generated from the real source by pyvc, discharged by SMT",
            "evaluations": sum(comp.get("cases", 0) for comp in bounded) + n_obl,
            "distinct_nontrivial": sum(comp.get("distinct_nontrivial", 0) for comp in bounded) + n_dis,
            "rule": "obligations: one per (function, contract clause / loop invariant / implicit run-time check), each split "
                    "into per-path SMT queries; bounded components: see bounded_components[].bound",
            "samples": samples,
            "functions_under_contract": fuc,
            "obligation_list": [{"name": o["name"], "verdict": o["verdict"], "instances": o["n_instances"],
                                 "backends": o["backends"], "seconds": o["seconds"], "max_query_s": o["max_instance_s"]}
                                for o in ob_index.values()],
            "path_queries": sum(o["n_instances"] for o in ob_index.values()),
            "solver_time_s": solver_time, "vcgen_time_s": round(t_vcgen, 2),
            "instances_decided_in_second_round": len(again),
            "callee_contracts_verified_by_closure": closure_added,
            "assumed_contracts": assumed_contracts,
            "assumption_scan": assumption_scan,
            "bounded_components": [{k: v for k, v in comp.items() if k != "violations"} for comp in bounded],
            "canaries_checked": sum(1 for k, _ in _JOBS if k == "canary"), "vacuous_contexts": vacuous,
            "undecided": undecided, "known_findings_reported": known_lines,
            "replay": replay_stats,
            "out_of_reach": [{"function": k, "reason": w} for k, w in out_of_reach],
        },
        "assumptions": trusted,
    }
    if not args.no_evidence:
        os.makedirs(os.path.join(ROOT, "evidence"), exist_ok=True)
        json.dump(evidence, open(os.path.join(ROOT, "evidence", f"{prop}.json"), "w"), indent=1, default=str)

    # ---------------------------------------------------------------- report
    print(f"[{prop}] tier={tier} functions/lemmas={len(frames)} obligations={n_obl} discharged={n_dis} "
          f"path-queries={evidence['coverage']['path_queries']} solver={solver_time}s wall={wall}s "
          f"bounded-components={len(bounded)}")
    for l in known_lines:
        print(l)
    for u in undecided:
        print(f"UNDECIDED property={prop} obligation={u['obligation']} reason={u['reason']}")
    for cname, detail in crashes:
        print(f"CRASH in {cname}: {detail[-600:]}")
    for v in vacuous:
        print(f"VACUOUS proof context {v}")
    if args.update_ledger:
        ledger[prop] = sorted(o["name"] for o in ob_index.values() if o["verdict"] == "discharged")
        json.dump(ledger, open(os.path.join(ROOT, "ledger.json"), "w"), indent=0, sort_keys=True)
    if violations:
        for path, nofail, names in violations:
            print(f"VIOLATION property={prop} replay={path}" + (" no-failing-input-found" if nofail else ""))
        return 1
    bounded_cases = sum(comp.get("cases", 0) for comp in bounded)
    nothing_checked = n_obl == 0 and bounded_cases == 0
    if any(comp.get("cases", 0) == 0 for comp in bounded):
        nothing_checked = True          # a bounded component that explored nothing is a broken check, not a pass
    if crashes or vacuous or nothing_checked:
        if nothing_checked:
            print(f"NO-OBLIGATIONS property={prop}")
        return 3
    if undecided:
        return 2
    return 0


def ledger_key(name):
    import re
    return re.sub(r"([@#])L\d+", r"\1L", name)


def safe(name):
    return "".join(ch if ch.isalnum() or ch in "-_." else "_" for ch in name)[:120]


def match_known(findings, contract_key, rr):
    """A violation is a known finding when its contract and its witness class match a listed open finding."""
    for kf in findings:
        if kf.get("contract") != contract_key:
            continue
        pred = kf.get("witness_class")
        if pred is None:
            return kf
        try:
            if eval(pred, {"w": rr, "inputs": rr.get("inputs", {})}):
                return kf
        except Exception:
            continue
    return None


def match_known_fn(findings, fnkey):
    for kf in findings:
        if kf.get("contract") == fnkey and kf.get("covers_unprovable", False):
            return kf
    return None


def scan_assumptions():
    """Mechanical scan of the contract tree for assume/admit/trusted (DESIGN.md 6.7)."""
    import re
    hits = []
    for dirpath, _dirs, files in os.walk(os.path.join(ROOT, "contracts")):
        for f in files:
            if f.endswith(".py"):
                p = os.path.join(dirpath, f)
                for ln, line in enumerate(open(p), 1):
                    if re.search(r"\b(assume_?|admit|trusted\s*=\s*True)\s*\(", line) or line.lstrip().startswith("@external"):
                        hits.append(f"{os.path.relpath(p, ROOT)}:{ln}: {line.strip()[:100]}")
    return hits


def do_replay(prop, path, repo_root):
    rec = json.load(open(os.path.join(ROOT, path) if not os.path.isabs(path) else path))
    w = rec.get("witness")
    if rec.get("no_failing_input_found") or not w or "inputs" not in w:
        print(json.dumps({"replay": "no concrete input in this file", "failed_obligations": rec.get("failed_obligations")}, indent=1))
        return 2
    rr = run_rt({"kind": "replay", "contract_key": rec["contract_key"], "mode": rec["mode"], "inputs": w["inputs"],
                 "consts": w.get("consts"), "repo_root": repo_root})
    print(json.dumps(rr, indent=1))
    if rr.get("outcome") == "violation":
        print(f"VIOLATION property={prop} replay={path}")
        return 1
    return 0


if __name__ == "__main__":
    main()
