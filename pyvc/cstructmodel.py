"""Model of dissect.cstruct derived from the C definition strings in the REAL source.

The definition text (CS_DEF, C2_DEF, PE_DEF, C_GUARDRAILS_DEF, generated enum typedefs) is read from the
module AST on every run and parsed by the small parser below; struct reads are modelled field by field:
integers (width / signedness / byte order from the definition and the `cstruct(endian=...)` call),
`char name[expr]` with dependent lengths, nested structs and fixed arrays.  Short reads raise EOFError
(the file position ends at end of content), a negative dependent length reads nothing - both observed
with the installed dissect.cstruct 4.7 and cross-checked by bounded/axioms.py (assumed contract).
"""
import ast
import re
import z3

from . import smt
from .smt import IS, VS, Val, I, B, ISq
from .values import (VInt, VBool, VSeq, VNone, VTuple, VList, VRef, VAny, VConst, VRecord, VOpt, Unsupported, fresh,
                     is_bytes_fact)
from .engine import lit_seq, _ids

PRIMS = {"uint8": (1, False), "int8": (1, True), "BYTE": (1, False), "char": (1, False), "uint16": (2, False),
         "int16": (2, True), "WORD": (2, False), "USHORT": (2, False), "uint32": (4, False), "int32": (4, True),
         "DWORD": (4, False), "ULONG": (4, False), "LONG": (4, True), "uint64": (8, False), "ULONGLONG": (8, False),
         "int64": (8, True)}


class CDefs:
    def __init__(self):
        self.enums = {}      # name -> (basetype, {member: value}, is_flag)
        self.structs = {}    # name -> [(field, type, count_expr or None)]
        self.defines = {}
        self.endian = "<"
        self.unsupported = {}

    def member_lookup(self, enum, value):
        return {v: k for k, v in reversed(list(self.enums[enum][1].items()))}  # first declared name wins


def strip_comments(text):
    text = re.sub(r"/\*.*?\*/", "", text, flags=re.S)
    return re.sub(r"//[^\n]*", "", text)


def parse_defs(text, defs=None):
    d = defs or CDefs()
    text = strip_comments(text)
    for m in re.finditer(r"#define\s+(\w+)\s+(\S+)", text):
        try:
            d.defines[m.group(1)] = int(m.group(2), 0)
        except ValueError:
            pass
    text = re.sub(r"#define[^\n]*", "", text)
    pos = 0
    tok = re.compile(r"\s*(typedef\s+)?(enum|flag|struct)\s+(\w+)?\s*(?::\s*(\w+)\s*)?\{", re.S)
    while True:
        m = tok.search(text, pos)
        if not m:
            break
        kind, name, base = m.group(2), m.group(3), m.group(4)
        # find matching brace
        depth, i = 1, m.end()
        while depth and i < len(text):
            depth += text[i] == "{"
            depth -= text[i] == "}"
            i += 1
        body = text[m.end():i - 1]
        tail = re.match(r"\s*(\w+)?\s*;", text[i:])
        alias = tail.group(1) if tail else None
        pos = i + (tail.end() if tail else 0)
        names = [n for n in (name, alias) if n]
        if kind in ("enum", "flag"):
            members, nxt = {}, 0
            for item in body.split(","):
                item = item.strip()
                if not item:
                    continue
                if "=" in item:
                    k, v = item.split("=")
                    nxt = int(v.strip(), 0)
                    members[k.strip()] = nxt
                else:
                    members[item] = nxt
                nxt += 1
            for n in names:
                d.enums[n] = (base or "uint32", members, kind == "flag")
        else:
            fields = []
            ok = True
            if "union" in body or "{" in body:
                ok = False
            else:
                for stmt in body.split(";"):
                    stmt = stmt.strip()
                    if not stmt:
                        continue
                    fm = re.match(r"^(\w+)\s+(\w+)\s*(?:\[(.*)\])?$", stmt, re.S)
                    if not fm:
                        ok = False
                        break
                    fields.append((fm.group(2), fm.group(1), fm.group(3).strip() if fm.group(3) is not None else None))
            for n in names:
                if ok:
                    d.structs[n] = fields
                else:
                    d.unsupported[n] = "union / nested definition"
    return d


def module_cdefs(eng, module, instname):
    """Definitions loaded into the cstruct instance `instname` of a module (cached per module)."""
    cache = module.__dict__.setdefault("_cdefs", {})
    if instname in cache:
        return cache[instname]
    d = CDefs()
    node = module.assigns.get(instname)
    src = ast.unparse(node) if node is not None else ""
    m = re.search(r"endian\s*=\s*['\"]([<>])['\"]", src)
    if m:
        d.endian = m.group(1)
    texts = []
    # X = cstruct(...).load(DEF)   /   X.load(DEF)   /   X.load(typedef_for_enum(Enum))
    for call in ast.walk(module.tree):
        if isinstance(call, ast.Call) and isinstance(call.func, ast.Attribute) and call.func.attr == "load":
            recv = ast.unparse(call.func.value)
            if recv == instname or (node is not None and call is node):
                texts.append(call.args[0])
    if node is not None and isinstance(node, ast.Call) and isinstance(node.func, ast.Attribute) and node.func.attr == "load":
        texts.append(node.args[0])
    for t in texts:
        if isinstance(t, ast.Name) and t.id in module.assigns:
            try:
                parse_defs(ast.literal_eval(module.assigns[t.id]), d)
            except Exception:
                raise Unsupported(f"cstruct definition {t.id} is not a string literal")
        elif isinstance(t, ast.Call) and ast.unparse(t.func) == "typedef_for_enum":
            ename = ast.unparse(t.args[0])
            cls = module.classes.get(ename)
            if cls is None:
                raise Unsupported(f"typedef_for_enum({ename})")
            members = {}
            for sub in cls.body:
                if isinstance(sub, ast.Assign) and isinstance(sub.targets[0], ast.Name):
                    try:
                        members[sub.targets[0].id] = ast.literal_eval(sub.value)
                    except Exception:
                        pass
            base = "uint32"
            for k in t.keywords:
                if k.arg == "int_type":
                    base = ast.literal_eval(k.value)
            d.enums[ename] = (base, members, False)
        elif isinstance(t, ast.Constant) and isinstance(t.value, str):
            parse_defs(t.value, d)
    cache[instname] = d
    return d


def is_cstruct_instance(module, name):
    node = module.assigns.get(name)
    if node is None:
        return False
    src = ast.unparse(node)
    return bool(re.match(r"^(cstruct\.)?cstruct\(", src))


# --------------------------------------------------------------------------- values

def enum_value(enumname, inst, module, vt):
    """cstruct enum member: a record with the enum's identity and the integer value."""
    return VRecord("cenum", {"enum": VConst((module.modname, inst, enumname), "cenumtype"), "value": VInt(vt)})


def int_of_bytes(st, data_t, size, signed, endian):
    f = smt.le_val if endian == "<" else smt.be_val
    r = f(data_t)
    at = lambda k: IS.at(data_t, z3.IntVal(k))
    if endian == "<":
        val = sum((at(k) * (256 ** k) for k in range(size)), z3.IntVal(0))
    else:
        val = sum((at(k) * (256 ** (size - 1 - k)) for k in range(size)), z3.IntVal(0))
    st.assume(z3.Implies(IS.len(data_t) == size, r == val))
    if signed:
        half = 256 ** size // 2
        return z3.If(r >= half, r - 256 ** size, r)
    return r


def fixed_size(defs, ty, count):
    """static byte size of a field or None if it depends on data"""
    if count is not None:
        try:
            n = int(count, 0)
        except ValueError:
            if count in defs.defines:
                n = defs.defines[count]
            else:
                return None
    else:
        n = 1
    if ty in PRIMS:
        return PRIMS[ty][0] * n
    if ty in defs.enums:
        return PRIMS[defs.enums[ty][0]][0] * n
    if ty in defs.structs:
        tot = 0
        for (_f, fty, fc) in defs.structs[ty]:
            s = fixed_size(defs, fty, fc)
            if s is None:
                return None
            tot += s
        return tot * n
    raise Unsupported(f"cstruct type {ty}")


def count_value(eng, st, defs, count, fields):
    """dependent length expression over earlier integer fields"""
    try:
        return z3.IntVal(int(count, 0))
    except ValueError:
        pass
    if count in defs.defines:
        return z3.IntVal(defs.defines[count])
    node = ast.parse(count, mode="eval").body
    s2 = st.fork()
    for k, v in fields.items():
        if isinstance(v, VInt):
            s2.env[k] = v
        elif isinstance(v, VRecord) and v.cls == "cenum":
            s2.env[k] = v.fields["value"]
    return eng.as_int(s2, eng.ev1(node, s2))


def read_value(eng, st, fref, defs, inst, module, ty, count, fields, node):
    """Read one field from the file cell; returns value.  Raises EOFError path through eng.implicit_error."""
    from .calls import file_method
    cell = lambda: st.heap[fref.ident]
    if ty in defs.structs and count is None:
        return read_struct(eng, st, fref, defs, inst, module, ty, node, as_record=True)
    if count is not None and not (ty == "char"):
        n = fixed_count(defs, count)
        if n is None:
            raise Unsupported(f"dynamic array of {ty}")
        return VTuple([read_value(eng, st, fref, defs, inst, module, ty, None, fields, node) for _ in range(n)])
    if ty == "char" and count is not None:
        cnt = count_value(eng, st, defs, count, fields)
        cnt = z3.If(cnt < 0, z3.IntVal(0), cnt) if not z3.is_int_value(cnt) else z3.IntVal(max(0, cnt.as_long()))
        [(st2, data)] = file_method(eng, st, fref, cell(), "read", [VInt(cnt)], {}, node)
        data = eng.named(st, data, "chars")
        eng.implicit_error(st, IS.len(data.t) == cnt, "EOFError", node, "cstruct-short-read")
        return data
    base = defs.enums[ty][0] if ty in defs.enums else ty
    if base not in PRIMS:
        raise Unsupported(f"cstruct type {ty}")
    size, signed = PRIMS[base]
    [(st2, data)] = file_method(eng, st, fref, cell(), "read", [VInt(size)], {}, node)
    data = eng.named(st, data, "raw")
    eng.implicit_error(st, IS.len(data.t) == size, "EOFError", node, "cstruct-short-read")
    v = int_of_bytes(st, data.t, size, signed, defs.endian)
    if base == "char":
        return VSeq(data.t, "bytes")
    if ty in defs.enums:
        return enum_value(ty, inst, module, v)
    return VInt(v)


def fixed_count(defs, count):
    try:
        return int(count, 0)
    except ValueError:
        return defs.defines.get(count)


def read_struct(eng, st, fref, defs, inst, module, name, node, as_record=False):
    """-> VRef to a heap object holding the parsed fields (cstruct instances are mutable).
    The fixed-size prefix of the layout is read with a single end-of-file test: either all of it is
    available (fields are slices of the content at static offsets) or EOFError is raised with the
    position at end of content."""
    fields = {}
    layout = defs.structs[name]
    cell = st.heap[fref.ident]
    pos, L = cell["pos"].t, IS.len(cell["content"].t)
    content = cell["content"].t
    prefix, nfixed = 0, 0
    for (_f, fty, fc) in layout:
        sz = fixed_size(defs, fty, fc)
        if sz is None:
            break
        prefix += sz
        nfixed += 1
    if prefix:
        ok = z3.And(pos >= 0, pos + prefix <= L)
        if eng.exc_observable("EOFError"):
            bad = st.fork()
            bad.assume(z3.Not(ok))
            nc = dict(bad.heap[fref.ident])
            nc["pos"] = VInt(z3.If(pos <= L, L, pos))
            bad.heap[fref.ident] = nc
            eng.throw(bad, "EOFError", node, "cstruct-short-read")
            st.assume(ok)
        else:
            eng.implicit_error(st, ok, "EOFError", node, "cstruct-short-read")
        off = 0
        for (f, fty, fc) in layout[:nfixed]:
            fields[f], off = fixed_field(eng, st, defs, inst, module, content, pos, off, fty, fc)
        nc = dict(st.heap[fref.ident])
        nc["pos"] = VInt(pos + prefix)
        st.heap[fref.ident] = nc
    for (f, fty, fc) in layout[nfixed:]:
        fields[f] = read_value(eng, st, fref, defs, inst, module, fty, fc, fields, node)
    ident = f"cstruct!{name}!{next(_ids)}"
    st.heap[ident] = dict({"__kind__": "obj", "__class__": f"cstruct:{name}", "__module__": module.modname,
                           "__cdefs__": (module.modname, inst)}, **fields)
    return VRef(ident, f"cstruct:{name}")


def fixed_field(eng, st, defs, inst, module, content, pos, off, ty, count):
    """value of a fixed-size field located at content[pos+off ...] (availability already established)"""
    if count is not None and ty != "char":
        n = fixed_count(defs, count)
        items = []
        for _ in range(n):
            v, off = fixed_field(eng, st, defs, inst, module, content, pos, off, ty, None)
            items.append(v)
        return VTuple(items), off
    if ty in defs.structs:
        sub = {}
        for (f, fty, fc) in defs.structs[ty]:
            sub[f], off = fixed_field(eng, st, defs, inst, module, content, pos, off, fty, fc)
        return VRecord(f"cstruct:{ty}", sub), off
    if ty == "char" and count is not None:
        n = fixed_count(defs, count)
        return VSeq(IS.sl(content, pos + off, pos + off + n), "bytes"), off + n
    base = defs.enums[ty][0] if ty in defs.enums else ty
    size, signed = PRIMS[base]
    if base == "char":
        return VSeq(IS.sl(content, pos + off, pos + off + 1), "bytes"), off + 1
    at = lambda k: IS.at(content, pos + off + k)
    if defs.endian == "<":
        val = sum((at(k) * (256 ** k) for k in range(size)), z3.IntVal(0))
    else:
        val = sum((at(k) * (256 ** (size - 1 - k)) for k in range(size)), z3.IntVal(0))
    if signed:
        half = 256 ** size // 2
        val = z3.If(val >= half, val - 256 ** size, val)
    v = fresh(f"fld", I)
    st.assume(v == val)
    if ty in defs.enums:
        return enum_value(ty, inst, module, v), off + size
    return VInt(v), off + size


def struct_size(eng, st, defs, name, cell):
    tot = z3.IntVal(0)
    for (f, fty, fc) in defs.structs[name]:
        s = fixed_size(defs, fty, fc)
        if s is not None:
            tot = tot + s
        else:
            v = eng.deref(st, cell[f])
            tot = tot + IS.len(v.t)
    return tot


def dumps_struct(eng, st, defs, name, cell, node):
    """obj.dumps(): concatenation of the field encodings (integers must fit their width: OverflowError /
    struct.error otherwise - reported as `struct.error`)."""
    out = IS.empty
    for (f, fty, fc) in defs.structs[name]:
        v = eng.deref(st, cell[f])
        base = defs.enums[fty][0] if fty in defs.enums else fty
        if fty == "char" and fc is not None:
            cnt = None
            try:
                cnt = int(fc, 0)
            except ValueError:
                pass
            if cnt is not None:
                eng.implicit_error(st, IS.len(v.t) <= cnt, "struct.error", node, "char-array-too-long")
                pad = smt.IS.rep(IS.unit(z3.IntVal(0)), cnt - IS.len(v.t))
                st.assume(IS.len(pad) == cnt - IS.len(v.t))
                out = IS.cat(out, IS.cat(v.t, pad))
            else:
                out = IS.cat(out, v.t)
            continue
        if base in PRIMS and fc is None:
            size, signed = PRIMS[base]
            iv = v.fields["value"].t if isinstance(v, VRecord) else eng.as_int(st, v, node)
            fits = (smt.fits_signed if signed else smt.fits_bytes)(iv, z3.IntVal(size))
            st.assume(fits == (z3.And(0 <= iv, iv < 256 ** size) if not signed else
                               z3.And(-(256 ** size // 2) <= iv, iv < 256 ** size // 2)))
            eng.implicit_error(st, fits, "struct.error", node, "integer-out-of-range")
            key = ("little" if defs.endian == "<" else "big", signed)
            out = IS.cat(out, smt.TO_BYTES[key](iv, z3.IntVal(size)))
            continue
        raise Unsupported(f"dumps of field {f}: {fty}[{fc}]")
    return VSeq(out, "bytes")


def new_struct(eng, st, defs, inst, module, name, kwargs):
    """Struct()/Struct(field=value,...): unset fields default to zero / empty."""
    fields = {}
    for (f, fty, fc) in defs.structs[name]:
        if f in kwargs:
            v = kwargs[f]
            if fty in defs.enums and isinstance(eng.deref(st, v), VInt):
                v = enum_value(fty, inst, module, eng.deref(st, v).t)
            fields[f] = v
        elif fty == "char" and fc is not None:
            n = fixed_count(defs, fc)
            fields[f] = lit_seq(b"\x00" * n, "bytes") if n is not None else lit_seq(b"", "bytes")
        elif fty in defs.enums:
            fields[f] = enum_value(fty, inst, module, z3.IntVal(0))
        elif fty in PRIMS and fc is None:
            fields[f] = VInt(0)
        else:
            raise Unsupported(f"default for field {f}: {fty}[{fc}]")
    ident = f"cstruct!{name}!{next(_ids)}"
    st.heap[ident] = dict({"__kind__": "obj", "__class__": f"cstruct:{name}", "__module__": module.modname,
                           "__cdefs__": (module.modname, inst)}, **fields)
    return VRef(ident, f"cstruct:{name}")
