"""String / bytes method models (partition, split, rstrip, decode, encode, replace)."""
import z3
from . import smt
from .smt import IS, VS, Val, I, B, ISq, VSq
from .values import VInt, VBool, VSeq, VNone, VTuple, VList, VAny, Unsupported, fresh, is_bytes_fact, is_chars_fact
from .engine import lit_seq


def occ_at(s, sep, o):
    return z3.And(0 <= o, o + IS.len(sep) <= IS.len(s), IS.eq(IS.sl(s, o, o + IS.len(sep)), sep))


def partition(eng, st, s, sep):
    """s.partition(sep): split at the first occurrence; (s, empty, empty) if none. sep non-empty."""
    if not eng.spec_mode:
        eng.oblige(st, IS.len(sep.t) >= 1, "encoding-partition-sep", "")
    p = smt.find_(s.t, sep.t, z3.IntVal(0))
    L = IS.len(s.t)
    head = z3.If(p == -1, s.t, IS.sl(s.t, z3.IntVal(0), p))
    mid = z3.If(p == -1, IS.empty, sep.t)
    tail = z3.If(p == -1, IS.empty, IS.sl(s.t, p + IS.len(sep.t), L))
    st.assume(z3.Or(p == -1, z3.And(0 <= p, p + IS.len(sep.t) <= L)))
    return VTuple([VSeq(head, s.kind), VSeq(mid, s.kind), VSeq(tail, s.kind)])


def rstrip(eng, st, s, args):
    """s.rstrip(chars): longest prefix whose last element is not in chars (chars a literal).  The cut position is an
    uninterpreted function of (s, chars), characterised at each use site, so equal arguments give equal results."""
    if args and not isinstance(args[0], VNone):
        chars = args[0]
        if chars.py is None:
            raise Unsupported("rstrip with symbolic chars")
        cset = sorted({ord(c) if isinstance(c, str) else c for c in chars.py})
    else:
        cset = [9, 10, 11, 12, 13, 32]
    inset = lambda v: z3.Or(*[v == c for c in cset])
    f = z3.Function("rstrip_len_" + "_".join(map(str, cset)), ISq, I)
    if s.py is None:
        s = eng.named(st, s, "rs")
    n = f(s.t)
    j = fresh("j", I)
    L = IS.len(s.t)
    st.assume(0 <= n, n <= L,
              z3.Implies(n > 0, z3.Not(inset(IS.at(s.t, n - 1)))),
              z3.ForAll([j], z3.Implies(z3.And(n <= j, j < L), inset(IS.at(s.t, j))), patterns=[IS.at(s.t, j)]))
    if s.py is not None:
        return lit_seq(s.py.rstrip(args[0].py) if args and not isinstance(args[0], VNone) else s.py.rstrip(), s.kind)
    return VSeq(IS.sl(s.t, z3.IntVal(0), n), s.kind)


def split(eng, st, s, args, node):
    """bytes.split(sep) = spec function split_on (pieces between the occurrences of a non-empty literal sep);
    bytes.split() = ws_split (maximal runs of non-whitespace; uninterpreted, assumed)."""
    if args and not isinstance(args[0], VNone):
        sep = args[0]
        if sep.py is None or len(sep.py) == 0:
            raise Unsupported("split with a symbolic or empty separator")
        r = eng.specs.apply(eng, st, "split_on", [VSeq(s.t, "bytes"), sep])
        return VList(r.t, s.kind, "list")
    f = z3.Function("ws_split", ISq, VSq)
    eng.fr.assumed_used.add("bytes.split(): maximal runs of non-whitespace bytes (uninterpreted ws_split)")
    from .values import wt_seq
    L = f(s.t)
    st.assume(*wt_seq(L, s.kind))
    return VList(L, s.kind, "list")


def decode(eng, st, s, args, kwargs, node):
    enc = args[0].py if args else "utf-8"
    errors = args[1].py if len(args) > 1 else (kwargs["errors"].py if "errors" in kwargs else "strict")
    if enc in ("latin-1", "latin1"):
        return [(st, VSeq(s.t, "str"))]
    if enc == "ascii" and errors == "ignore":
        r = smt_fn_ascii_filter()(s.t)
        j = fresh("j", I)
        st.assume(IS.len(r) <= IS.len(s.t),
                  z3.ForAll([j], z3.Implies(z3.And(0 <= j, j < IS.len(r)), z3.And(0 <= IS.at(r, j), IS.at(r, j) < 128)),
                            patterns=[IS.at(r, j)]))
        return [(st, VSeq(r, "str"))]
    if enc in ("utf-8", "ascii") and errors == "strict":
        j = fresh("j", I)
        allascii = z3.ForAll([j], z3.Implies(z3.And(0 <= j, j < IS.len(s.t)), IS.at(s.t, j) < 128), patterns=[IS.at(s.t, j)])
        if enc == "ascii":
            eng.implicit_error(st, allascii, "UnicodeDecodeError", node, "decode")
            return [(st, VSeq(s.t, "str"))]
        # utf-8: identity on ASCII input; otherwise either UnicodeDecodeError or some string
        r = z3.Function("utf8_decode", ISq, ISq)(s.t)
        ok = z3.Function("utf8_valid", ISq, B)(s.t)
        eng.implicit_error(st, ok, "UnicodeDecodeError", node, "decode")
        st.assume(z3.Implies(allascii, z3.And(ok, r == s.t)), is_chars_fact(r))
        return [(st, VSeq(r, "str"))]
    raise Unsupported(f"decode({enc},{errors})")


def smt_fn_ascii_filter():
    return z3.Function("ascii_filter", ISq, ISq)


def encode(eng, st, s, args, kwargs, node):
    enc = args[0].py if args else "utf-8"
    j = fresh("j", I)
    if enc in ("latin-1", "latin1"):
        ok = z3.ForAll([j], z3.Implies(z3.And(0 <= j, j < IS.len(s.t)), IS.at(s.t, j) < 256), patterns=[IS.at(s.t, j)])
        eng.implicit_error(st, ok, "UnicodeEncodeError", node, "encode")
        return [(st, VSeq(s.t, "bytes"))]
    if enc == "utf-8":
        allascii = z3.ForAll([j], z3.Implies(z3.And(0 <= j, j < IS.len(s.t)), IS.at(s.t, j) < 128), patterns=[IS.at(s.t, j)])
        r = z3.Function("utf8_encode", ISq, ISq)(s.t)
        st.assume(z3.Implies(allascii, r == s.t), is_bytes_fact(r), IS.len(r) >= IS.len(s.t))
        return [(st, VSeq(r, "bytes"))]
    raise Unsupported(f"encode({enc})")


def replace(eng, st, s, a, b, node):
    """str.replace(c, "") for a one-character literal c: removal of every occurrence (spec `remove_char`)."""
    if a.py is not None and b.py is not None and len(a.py) == 1 and len(b.py) == 0:
        c = ord(a.py) if isinstance(a.py, str) else a.py[0]
        r = eng.specs.apply(eng, st, "remove_char", [s, VInt(c)])
        return VSeq(r.t, s.kind)
    raise Unsupported("replace other than removal of a single character")
