"""Concrete execution of contracts against the REAL code (runs under /venv/bin/python, no SMT).

Used for (1) replaying a solver counter-model, (2) the directed small-scope search that looks for a
failing input when a proof obligation is not discharged, (3) cover witnesses (vacuity guard) and
(4) bounded stand-ins.  Reads one JSON job from stdin, writes one JSON result to stdout.

The contract clauses are the same AST that pyvc translates to SMT; here they are compiled and
evaluated by CPython with the executable spec functions (contracts/spec/*.py).
"""
import ast
import copy
import importlib
import importlib.util
import io
import itertools
import json
import os
import random
import signal
import sys
import tempfile
import traceback

sys.setrecursionlimit(100000)          # recursive executable specs (e.g. first_mz over 1024 offsets)
HERE = os.path.dirname(os.path.abspath(__file__))
ROOT = os.path.dirname(HERE)
sys.path.insert(0, ROOT)

from pyvc import rt  # noqa: E402
from pyvc.contracts import ContractDB  # noqa: E402


class Timeout(BaseException):      # must not be swallowed by the code under test
    pass


class AesCounter:
    """ghost counter `aes_calls`: number of AES encrypt/decrypt operations performed by the code under test"""
    calls = 0
    installed = False

    @classmethod
    def install(cls):
        if cls.installed:
            return
        try:
            from Crypto.Cipher import AES
        except ImportError:
            return
        real_new = AES.new

        class Wrapped:
            def __init__(self, inner):
                self._inner = inner

            def encrypt(self, *a, **k):
                AesCounter.calls += 1
                return self._inner.encrypt(*a, **k)

            def decrypt(self, *a, **k):
                AesCounter.calls += 1
                return self._inner.decrypt(*a, **k)

            def __getattr__(self, n):
                return getattr(self._inner, n)

        def new(*a, **k):
            return Wrapped(real_new(*a, **k))
        AES.new = new
        cls.installed = True


def _alarm(signum, frame):
    raise Timeout()


SPECENV = {}


def load_specs():
    """All spec files are executed into ONE shared namespace (so they can refer to each other)."""
    env = {"__name__": "pyvc_specs"}
    d = os.path.join(ROOT, "contracts", "spec")
    for fn in sorted(os.listdir(d)):
        if fn.endswith(".py"):
            path = os.path.join(d, fn)
            env["__file__"] = path
            exec(compile(open(path).read(), path, "exec"), env)
    for k in ("forall", "exists", "implies", "iff", "ite", "bxor", "sub", "file_content", "file_pos", "fits_bytes", "aes_enc", "aes_dec",
              "hmac_sha256", "sha256", "rsa_ok", "rsa_pt", "rsa_k", "keypair", "xview", "same", "dlog", "url_path", "url_query", "url_ok", "qsl", "ws_split", "is_response", "is_request", "enum_tag", "snapshot", "snapshots", "is_int", "is_true", "is_bytes", "is_str", "as_int", "as_bytes", "as_str", "hex_of"):
        env[k] = getattr(rt, k)
    return env


def resolve_target(target, repo_root):
    if repo_root and repo_root not in sys.path:
        sys.path.insert(0, repo_root)
    modname, qual = target.split(":")
    mod = importlib.import_module(modname)
    if repo_root:
        assert os.path.abspath(mod.__file__).startswith(os.path.abspath(repo_root)), (mod.__file__, repo_root)
    obj = mod
    for part in qual.split("."):
        obj = getattr(obj, part)
    return mod, obj


# --------------------------------------------------------------------------- JSON <-> Python values

def from_json(j, tmpfiles=None):
    if not isinstance(j, dict):
        return j
    if "int" in j:
        return j["int"]
    if "bool" in j:
        return j["bool"]
    if "bytes" in j:
        return bytes(x % 256 for x in j["bytes"])
    if "str" in j:
        return "".join(chr(x) for x in j["str"])
    if "ilist" in j:
        return list(j["ilist"])
    if "none" in j:
        return None
    if "tuple" in j:
        return tuple(from_json(x, tmpfiles) for x in j["tuple"])
    if "list" in j:
        return [from_json(x, tmpfiles) for x in j["list"]]
    if "mlist" in j:
        return list(from_json(j["mlist"], tmpfiles))
    if "file" in j:
        data = from_json(j["file"])
        if j.get("fkind") == "osfile" and tmpfiles is not None:
            f = tempfile.NamedTemporaryFile(prefix="pyvc_replay_", delete=False)
            f.write(data)
            f.close()
            fh = open(f.name, "rb")
            tmpfiles.append((fh, f.name))
        else:
            fh = io.BytesIO(data)
        fh.seek(max(0, j.get("pos", 0)))
        return fh
    if "record" in j:
        mod = importlib.import_module(j["module"])
        cls = getattr(mod, j["record"])
        return cls(**{k: from_json(v, tmpfiles) for k, v in j["fields"].items()})
    if "rsa_key" in j:
        from Crypto.PublicKey import RSA
        key = RSA.import_key(open(os.path.join(ROOT, "contracts", "spec", f"test_rsa_{j['rsa_key']}.pem"), "rb").read())
        return key.publickey() if j.get("public") else key
    if "opaque" in j:
        return None
    if "py" in j:
        env = dict(SPECENV)
        env["io"] = io
        return eval(j["py"], env)
    raise ValueError(f"cannot convert {j!r}")


def to_jsonable(v, depth=0):
    if isinstance(v, (bytes, bytearray)):
        return {"bytes_hex": bytes(v).hex()} if len(v) <= 256 else {"bytes_len": len(v), "head_hex": bytes(v[:64]).hex()}
    if isinstance(v, (int, bool, str)) or v is None:
        return v
    if isinstance(v, (list, tuple)) and depth < 4:
        return [to_jsonable(x, depth + 1) for x in v[:50]]
    if isinstance(v, dict) and depth < 4:
        return {str(k): to_jsonable(x, depth + 1) for k, x in list(v.items())[:50]}
    if hasattr(v, "getvalue"):
        return {"file_hex": v.getvalue()[:256].hex(), "pos": v.tell()}
    return repr(v)[:200]


# --------------------------------------------------------------------------- contract evaluation

class OldRewriter(ast.NodeTransformer):
    def __init__(self):
        self.olds = []

    def visit_Call(self, node):
        if isinstance(node.func, ast.Name) and node.func.id == "old":
            self.olds.append(node.args[0])
            return ast.copy_location(ast.Name(id=f"__old_{len(self.olds) - 1}", ctx=ast.Load()), node)
        return self.generic_visit(node)


class _DropTriggers(ast.NodeTransformer):
    """`trigger=` arguments of forall/exists are hints for the SMT back end; they mention the bound variable outside the
    lambda and cannot be evaluated"""
    def visit_Call(self, node):
        self.generic_visit(node)
        if isinstance(node.func, ast.Name) and node.func.id in ("forall", "exists"):
            node.keywords = [k for k in node.keywords if k.arg != "trigger"]
        return node


def compile_expr(node):
    e = ast.Expression(_DropTriggers().visit(copy.deepcopy(node)))
    ast.fix_missing_locations(e)
    return compile(e, "<contract>", "eval")


class SpecError(Exception):
    pass


class ConcreteContract:
    def __init__(self, contract, specenv):
        self.c = contract
        self.specenv = specenv
        rw = OldRewriter()
        self.requires = [compile_expr(r) for r in contract.requires]
        self.ensures_src = [ast.unparse(e) for e in contract.ensures]
        self.ensures = [compile_expr(rw.visit(copy.deepcopy(e))) for e in contract.ensures]
        self.raises = [(exc, compile_expr(w) if w is not None else None,
                        compile_expr(rw.visit(copy.deepcopy(en))) if en is not None else None)
                       for exc, w, en in contract.raises]
        self.entry_lets = []
        for g in contract.ghosts:
            if g.where == "entry":
                for st in g.stmts:
                    if isinstance(st, ast.Call) and isinstance(st.func, ast.Name) and st.func.id == "let":
                        rw2_node = rw.visit(copy.deepcopy(st.args[1]))
                        self.entry_lets.append((ast.literal_eval(st.args[0]), compile_expr(rw2_node)))
        self.olds = [compile_expr(o) for o in rw.olds]

    def env(self, args):
        e = dict(self.specenv)
        e.update(args)
        return e

    def pre_state(self, args):
        """evaluate requires, old(...) sub-expressions and entry ghost lets in the pre-state"""
        e = self.env(args)
        for r in self.requires:
            if not eval(r, e):
                return None
        olds = {}
        for k, o in enumerate(self.olds):
            olds[f"__old_{k}"] = eval(o, e)
        e.update(olds)
        lets = {}
        for name, code in self.entry_lets:
            lets[name] = eval(code, e)
            e[name] = lets[name]
        olds.update(lets)
        return olds

    def check_post(self, args, pre, result, extra=None):
        e = self.env(args)
        e.update(pre)
        e["result"] = result
        if extra:
            e.update(extra)
        for k, code in enumerate(self.ensures):
            try:
                ok = eval(code, e)
            except NameError as ex:  # a defect of the contract text, not of the code under test
                raise SpecError(f"postcondition {k}: {ex!r}")
            except Exception as ex:  # a clause that cannot be evaluated on this outcome counts as failed
                return k, f"clause raised {ex!r}"
            if not ok:
                return k, "false"
        return None, None

    def check_raise(self, args, pre, exc, extra=None):
        e = self.env(args)
        e.update(pre)
        if extra:
            e.update(extra)
        names = [c.__name__ for c in type(exc).__mro__]
        matched = False
        for excname, when, ens in self.raises:
            if excname.split(".")[-1] in names:
                matched = True
                if (when is None or eval(when, e)) and (ens is None or eval(ens, e)):
                    return True, None
        return False, ("raised but its `when` condition is false" if matched else "exception type not allowed by the contract")


def build_args(contract, inputs, tmpfiles):
    out = {}
    for name, ty in contract.params:
        if name in inputs:
            out[name] = from_json(inputs[name], tmpfiles)
        elif (ty or "").startswith("class:"):
            modn, qual = ty[6:].split(":")
            out[name] = getattr(importlib.import_module(modn), qual)
    return out


def build_logicals(contract, inputs):
    return {name: from_json(inputs[name]) for name in contract.logicals if name in inputs}


def run_case(fn, cc, inputs, consts, timeout_s=5, is_generator=False, mode="func"):
    """Run the real function on one concrete input and evaluate the contract.
    -> dict(outcome=..., detail...)   outcome in ok | pre-false | violation | error"""
    tmpfiles = []
    saved_consts = {}
    try:
        args = build_args(cc.c, inputs, tmpfiles)
        logicals = build_logicals(cc.c, inputs)
        for cname, cval in (consts or {}).items():
            modn, attr = cname.rsplit(".", 1)
            m = importlib.import_module(modn)
            saved_consts[cname] = getattr(m, attr)
            setattr(m, attr, cval)
        AesCounter.install()
        AesCounter.calls = 0
        logicals["aes_calls"] = 0
        try:
            pre = cc.pre_state(dict(args, **logicals))
            if pre is not None:
                pre.update(logicals)
        except Exception as ex:
            return {"outcome": "pre-false", "detail": f"precondition not evaluable: {ex!r}"}
        if pre is None:
            return {"outcome": "pre-false"}
        # CPU-time limit (robust on a loaded machine) with a ten times longer wall-clock backstop
        signal.signal(signal.SIGALRM, _alarm)
        signal.signal(signal.SIGPROF, _alarm)
        signal.setitimer(signal.ITIMER_PROF, timeout_s, 0.5)
        signal.setitimer(signal.ITIMER_REAL, 10 * timeout_s, 0.5)
        extra = {}
        try:
            call_args = dict(args)
            import inspect
            if inspect.ismethod(fn) and cc.c.params and cc.c.params[0][0] in ("cls",):
                call_args.pop(cc.c.params[0][0], None)      # classmethod: cls is already bound
            r = fn(**call_args)
            if mode == "all":
                r = list(r)
                extra["yielded"] = r
            elif mode == "first":
                it = iter(r)
                try:
                    first = next(it)
                    extra.update(found=True, first=first)
                    r = first
                except StopIteration:
                    extra.update(found=False, first=None)
                    r = None
            signal.setitimer(signal.ITIMER_REAL, 0)
            signal.setitimer(signal.ITIMER_PROF, 0)
        except Timeout:
            signal.setitimer(signal.ITIMER_REAL, 0)
            signal.setitimer(signal.ITIMER_PROF, 0)
            return {"outcome": "violation", "kind": "non-termination",
                    "detail": f"did not return within {timeout_s}s", "inputs": inputs, "consts": consts}
        except BaseException as ex:  # noqa: BLE001
            signal.setitimer(signal.ITIMER_REAL, 0)
            signal.setitimer(signal.ITIMER_PROF, 0)
            ok, why = cc.check_raise(args, pre, ex, {"aes_calls": AesCounter.calls})
            if ok:
                return {"outcome": "ok", "raised": type(ex).__name__}
            return {"outcome": "violation", "kind": "exception", "exception": repr(ex)[:300], "detail": why,
                    "inputs": inputs, "consts": consts}
        extra["aes_calls"] = AesCounter.calls
        try:
            k, why = cc.check_post(args, pre, r, extra)
        except SpecError as ex:
            return {"outcome": "error", "detail": f"contract text not evaluable: {ex}"}
        if k is None:
            return {"outcome": "ok"}
        return {"outcome": "violation", "kind": "postcondition", "clause": k, "clause_src": cc.ensures_src[k],
                "detail": why, "observed": to_jsonable(r), "inputs": inputs, "consts": consts}
    finally:
        signal.setitimer(signal.ITIMER_REAL, 0)
        signal.setitimer(signal.ITIMER_PROF, 0)
        for cname, v in saved_consts.items():
            modn, attr = cname.rsplit(".", 1)
            setattr(importlib.import_module(modn), attr, v)
        for fh, name in tmpfiles:
            try:
                fh.close()
                os.unlink(name)
            except OSError:
                pass


# --------------------------------------------------------------------------- small-scope domains

def dom_bytes(alphabet=b"\x00\x01A", minlen=0, maxlen=3):
    for n in range(minlen, maxlen + 1):
        for t in itertools.product(alphabet, repeat=n):
            yield {"bytes": list(t)}


def dom_str(alphabet="/aA0\n", minlen=0, maxlen=3):
    for n in range(minlen, maxlen + 1):
        for t in itertools.product(alphabet, repeat=n):
            yield {"str": [ord(c) for c in t]}


def dom_files(alphabet=b"\x00\x01", minlen=0, maxlen=4, positions=(0,), kinds=("bytesio",)):
    for c in dom_bytes(alphabet, minlen, maxlen):
        for p in positions:
            for k in kinds:
                yield {"file": c, "pos": p, "fkind": k}


def dom_ints(values):
    for v in values:
        yield {"none": True} if v is None else {"int": v}


DOM_ENV = {"bytes_": lambda **kw: list(dom_bytes(**kw)), "str_": lambda **kw: list(dom_str(**kw)),
           "files": lambda **kw: list(dom_files(**kw)), "ints": lambda *v: list(dom_ints(v)),
           "bools": lambda: [{"bool": False}, {"bool": True}], "values": lambda *v: [{"py": repr(x)} for x in v],
           "lit": lambda *v: [{"py": repr(x)} for x in v]}


def domains_of(contract, specenv=None):
    """domain(...) clause of the contract: cover(dict(param=domain-expression,...), consts=dict(...))."""
    doms, consts = {}, {}
    for cov in contract.covers:
        if isinstance(cov, ast.Call) and isinstance(cov.func, ast.Name) and cov.func.id == "domain":
            for k in cov.keywords:
                env = dict(specenv or {})
                env.update(DOM_ENV)
                val = eval(compile_expr(k.value), env)
                if k.arg.startswith("const_"):
                    consts[k.arg[6:].replace("__", ".")] = [from_json(x) for x in val]
                else:
                    doms[k.arg] = val
    return doms, consts


def search(fn, cc, contract, budget, seed, timeout_s, mode):
    doms, consts = domains_of(contract, cc.specenv)
    names = [n for n, ty in contract.params if not (ty or "").startswith("class:")]
    if "cases" in doms:
        tried = pre_false = 0
        for inputs in doms["cases"]:
            r = run_case(fn, cc, inputs, {}, timeout_s, mode=mode)
            tried += 1
            pre_false += r["outcome"] == "pre-false"
            if r["outcome"] == "violation":
                r.update(tried=tried, space=len(doms["cases"]))
                return r
        return {"outcome": "ok", "tried": tried, "pre_false": pre_false, "space": len(doms["cases"]), "exhaustive": True}
    if any(n not in doms for n in names):
        return {"outcome": "no-domain", "missing": [n for n in names if n not in doms]}
    cnames = sorted(consts)
    spaces = [doms[n] for n in names] + [consts[c] for c in cnames]
    total = 1
    for sp in spaces:
        total *= max(1, len(sp))
    rng = random.Random(seed)
    tried = pre_false = 0

    def cases():
        if total <= budget:
            yield from itertools.product(*spaces)
        else:
            for _ in range(budget):
                yield tuple(rng.choice(sp) for sp in spaces)
    for combo in cases():
        inputs = dict(zip(names, combo[:len(names)]))
        cs = dict(zip(cnames, combo[len(names):]))
        r = run_case(fn, cc, inputs, cs, timeout_s, mode=mode)
        tried += 1
        if r["outcome"] == "pre-false":
            pre_false += 1
        if r["outcome"] == "violation":
            r.update(tried=tried, space=total)
            return r
    return {"outcome": "ok", "tried": tried, "pre_false": pre_false, "space": total, "exhaustive": total <= budget}


def main():
    job = json.load(sys.stdin)
    repo_root = job.get("repo_root") or os.environ.get("PYVC_REPO") or "/repo"
    try:
        cdb = ContractDB(os.path.join(ROOT, "contracts"))
        contract = [c for c in cdb.all if c.key == job["contract_key"] and c.mode == job.get("mode", c.mode)][0]
        specenv = load_specs()
        SPECENV.update(specenv)
        cc = ConcreteContract(contract, specenv)
        _mod, fn = resolve_target(contract.target, repo_root)
        mode = contract.mode
        if job["kind"] == "replay":
            res = run_case(fn, cc, job["inputs"], job.get("consts"), job.get("timeout_s", 5), mode=mode)
        elif job["kind"] == "search":
            res = search(fn, cc, contract, job.get("budget", 20000), job.get("seed", 0), job.get("timeout_s", 3), mode)
        else:
            res = {"outcome": "error", "detail": "unknown job kind"}
    except Exception:
        res = {"outcome": "error", "detail": traceback.format_exc()[-1500:]}
    json.dump(res, sys.stdout)


if __name__ == "__main__":
    main()
