"""Statement execution, loops, function-level verification driver."""
import ast
import os
import itertools
import z3

from . import smt
from .smt import IS, VS, Val, I, B, ISq, VSq
from .values import (VInt, VBool, VSeq, VNone, VTuple, VList, VRef, VAny, VConst, VRecord, VOpt, Unsupported, fresh,
                     parse_type, box, unbox, wt, wt_seq, sym_value, is_bytes_fact, mk_vsq)
from .engine import Engine, State, Frame, Signal, exc_isa, lit_seq, ite_val, _ids
from .values import OBJECTS
from .calls import is_logger_call

MUTATORS = {"append", "insert", "extend", "pop", "sort", "remove", "clear", "update", "setdefault", "seek", "read",
            "readline", "write", "move_to_end", "popitem", "add", "discard"}


def norm_src(text):
    try:
        node = ast.parse(text).body[0]
        return head_src(node)
    except SyntaxError:
        return text.strip()


def head_src(node):
    if isinstance(node, (ast.If, ast.While)):
        return f"{type(node).__name__.lower()} {ast.unparse(node.test)}:"
    if isinstance(node, ast.For):
        return f"for {ast.unparse(node.target)} in {ast.unparse(node.iter)}:"
    return ast.unparse(node)


class Verifier(Engine):
    # ------------------------------------------------------------------ entry points
    def verify(self, contract):
        """Returns a Frame holding obligations; raises Unsupported if out of reach."""
        if contract.kind == "lemma":
            return self.verify_lemma(contract)
        module, fdef = self.repo.func(contract.target)
        if fdef is None:
            raise Unsupported(f"function {contract.target} not found in the working tree")
        fr = Frame(contract, module, fdef)
        self.fr = fr
        fr.handler_types = []
        fr.is_generator = any(isinstance(n, (ast.Yield, ast.YieldFrom)) for n in ast.walk(fdef))
        self.number_loops(fr, fdef)
        real_params = [a.arg for a in list(fdef.args.posonlyargs) + list(fdef.args.args) + list(fdef.args.kwonlyargs)]
        cparams = [p for p, _ in contract.params]
        fr.body = fdef.body
        if contract.slice is not None:
            # a statement range of the real function, cut out mechanically on every run; everything outside it is dropped
            first, last = contract.slice
            texts = [ast.unparse(s_).strip() for s_ in fdef.body]
            ia = [k for k, t in enumerate(texts) if t.startswith(first)]
            ib = [k for k, t in enumerate(texts) if t.startswith(last)]
            if len(ia) != 1 or len(ib) != 1 or ib[0] < ia[0]:
                raise Unsupported(f"slice anchors not found exactly once in {contract.target}: {first!r} .. {last!r}")
            fr.body = fdef.body[ia[0]:ib[0] + 1]
            fr.dropped.append((f"slice: only statements L{fr.body[0].lineno}-L{fr.body[-1].end_lineno} of {contract.target} are analysed; "
                               f"{len(fdef.body) - len(fr.body)} top-level statements outside it are dropped", fdef.lineno))
            if not set(cparams) <= set(real_params):
                raise Unsupported(f"slice contract parameters {cparams} are not parameters of the function {real_params}")
        elif cparams != real_params:
            raise Unsupported(f"contract parameters {cparams} do not match the function's {real_params}")
        fr.anchors_used = set()
        fr.partial_error = None
        for case_label, st in self.initial_states(contract):
            fr.case_label = case_label
            try:
                self.run_function(fr, st)
            except Unsupported as ex:
                # keep what was generated so far: obligations that already fail are still reported,
                # the function as a whole is undecided
                fr.partial_error = str(ex)
                if os.environ.get("PYVC_TRACE"):
                    import traceback
                    traceback.print_exc()
                break
        fr.unused_anchors = [g.text for g in contract.ghosts
                             if g.where in ("after", "before") and id(g) not in fr.anchors_used]
        return fr

    def number_loops(self, fr, fdef):
        n = 0
        for node in ast.walk(fdef):
            pass
        order = []

        def walk(stmts):
            for s in stmts:
                if isinstance(s, (ast.For, ast.While)):
                    order.append(s)
                for fld in ("body", "orelse", "finalbody"):
                    if hasattr(s, fld) and isinstance(getattr(s, fld), list):
                        walk([x for x in getattr(s, fld) if isinstance(x, ast.stmt)])
                if isinstance(s, ast.Try):
                    for h in s.handlers:
                        walk(h.body)
        walk(fdef.body)
        for k, s in enumerate(order):
            fr.loop_ordinals[id(s)] = k

    def initial_states(self, contract):
        """One initial state per case (optional params None / present; file kinds)."""
        dims = []
        for name, ty in contract.params:
            ty = parse_type(ty or "any")
            if isinstance(ty, tuple) and ty[0] == "opt":
                dims.append([(name, "none"), (name, ty[1])])
            elif isinstance(ty, tuple) and ty[0] == "union":
                dims.append([(name, alt) for alt in ty[1:]])
            elif ty == "file":
                dims.append([(name, "file:bytesio"), (name, "file:osfile")])
            elif isinstance(ty, str) and ty.startswith("obj:") and any(
                    f == "file" for f in OBJECTS.get(ty[4:], ({}, None))[0].values()):
                dims.append([(name, ty + "@bytesio"), (name, ty + "@osfile")])
            elif isinstance(ty, str) and ty.startswith("lit:"):
                dims.append([(name, ("lit", ast.literal_eval(x))) for x in ty[4:].split("|")])
            else:
                dims.append([(name, ty)])
        splits = dict(contract.case_splits)
        for k, (name, ty) in enumerate(contract.params):
            if name in splits and len(dims[k]) == 1:
                # case split  param == literal  /  param != literal (symbolic)
                dims[k] = [(name, ("lit", splits[name])), (name, ("neq", dims[k][0][1], splits[name]))]
        for combo in itertools.product(*dims):
            st = State()
            label = []
            for name, ty in combo:
                if isinstance(ty, tuple) and ty[0] == "lit":
                    st.env[name] = self.const_value(ty[1])
                    label.append(f"{name}={ty[1]!r}")
                elif isinstance(ty, tuple) and ty[0] == "neq":
                    v, facts = sym_value(name, ty[1])
                    st.env[name] = v
                    st.assume(*facts)
                    st.assume(z3.Not(self.eq_vals(st, v, self.const_value(ty[2]))))
                    label.append(f"{name}!={ty[2]!r}")
                elif isinstance(ty, str) and ty.startswith("file:"):
                    st.env[name] = self.new_file(st, name, ty.split(":")[1])
                    label.append(f"{name}={ty.split(':')[1]}")
                elif isinstance(ty, str) and ty.startswith("class:"):
                    st.env[name] = VConst(ty[6:], "class")
                elif isinstance(ty, str) and ty.startswith("cstruct:"):
                    from .heapmodel import sym_cstruct
                    st.env[name] = sym_cstruct(self, st, name, ty)
                elif isinstance(ty, str) and ty.startswith("newobj:"):
                    ident = f"obj!{name}!{next(_ids)}"
                    cls = ty[7:]
                    st.heap[ident] = {"__kind__": "obj", "__class__": cls, "__module__": OBJECTS.get(cls, ({}, None))[1]}
                    st.env[name] = VRef(ident, cls)
                elif isinstance(ty, str) and ty.startswith("obj:"):
                    from .heapmodel import sym_object
                    cls, _, fk = ty[4:].partition("@")
                    st.env[name] = sym_object(self, st, name, cls, fk or "bytesio")
                    if fk:
                        label.append(f"{name}.fh={fk}")
                elif isinstance(ty, tuple) and ty[0] == "record":
                    from .heapmodel import sym_record
                    v, facts = sym_record(self, st, ty[1], name)
                    st.env[name] = v
                    st.assume(*facts)
                elif isinstance(ty, tuple) and ty[0] == "mlist":
                    # mutable list parameter living in the heap
                    v, facts = sym_value(name, ("list", ty[1]) if ty[1] != "int" else "ilist")
                    ident = f"param!{name}"
                    st.heap[ident] = v
                    st.env[name] = VRef(ident, "list")
                    st.assume(*facts)
                else:
                    v, facts = sym_value(name, ty)
                    st.env[name] = v
                    st.assume(*facts)
                    if ty == "none":
                        label.append(f"{name}=None")
            yield ",".join(label), st

    def new_file(self, st, name, fkind):
        ident = f"file!{name}!{next(_ids)}"
        content, facts = sym_value(f"{name}_content", "bytes")
        pos = fresh(f"{name}_pos", I)
        st.assume(*facts)
        st.assume(pos >= 0)
        st.heap[ident] = {"__kind__": "file", "content": content, "pos": VInt(pos), "fkind": fkind}
        return VRef(ident, "file")

    def run_function(self, fr, st):
        c = fr.contract
        for lname, lty in c.logicals.items():
            v, facts = sym_value(lname, parse_type(lty))
            st.env[lname] = v
            st.assume(*facts)
        if c.slice is not None:
            # values computed before the slice are arbitrary inputs of the declared type
            from .heapmodel import sym_field
            for lname, lty in c.locals.items():
                if lname not in st.env:
                    st.env[lname] = sym_field(self, st, lname, lty)
        ac = fresh("aes_calls", I)
        st.env["aes_calls"] = VInt(ac)
        st.assume(ac >= 0)
        if mentions_name(c, "rng_calls"):
            rc = fresh("rng_calls", I)
            st.env["rng_calls"] = VInt(rc)
            st.assume(rc >= 0)
        for r in c.requires:
            st.assume(self.truth(st, self.ev1(r, st)))
        fr.canaries.append((f"{c.key}/canary:pre[{fr.case_label}]", list(st.pc)))
        fr.init_state = st.fork()
        if fr.is_generator or c.mode in ("all", "first"):
            ety = parse_type(c.yields or "int")
            st.env["yielded"] = VSeq(IS.empty, "ilist") if ety == "int" else VList(VS.empty, ety)
        for pname, when in c.pos_independent:
            cond = z3.BoolVal(True) if when is None else self.truth(st, self.ev1(when, st))
            v = st.env.get(pname)
            if z3.is_true(cond) and isinstance(v, VRef) and isinstance(st.heap.get(v.ident), dict):
                cell = dict(st.heap[v.ident])
                cell["pos_undefined"] = True      # any use of the position before an absolute seek is an obligation failure
                st.heap[v.ident] = cell
            elif not z3.is_false(cond):
                raise Unsupported("position_independent condition must be decided by the case split")
        self.run_ghosts(st, "entry", None)
        fr.init_state = st.fork()        # entry ghost bindings (let) are visible to old(...) and to `when=` clauses
        fr.handlers = []
        fr.fn_exits_exc = []
        outcomes = self.ex_block(fr.body, st)
        for s, sig in outcomes:
            if sig is not None and sig.kind not in ("return", "yield-first"):
                raise Unsupported(f"{sig.kind} outside loop")
            self.check_post(fr, s, sig)
        for (s, exc, node, why) in fr.fn_exits_exc:
            self.check_exc_exit(fr, s, exc, node, why)

    def check_post(self, fr, s, sig):
        c = fr.contract
        if c.mode == "first":
            if sig is not None and sig.kind == "yield-first":
                s.env["found"] = VBool(True)
                s.env["first"] = sig.value
            else:
                s.env["found"] = VBool(False)
                s.env["first"] = VNone()
            s.env["result"] = s.env["first"]
        elif fr.is_generator:
            s.env["result"] = s.env["yielded"]
        else:
            s.env["result"] = sig.value if sig is not None and sig.value is not None else VNone()
        # parameters in postconditions denote their values on entry (the function may rebind them)
        for name, _ty in c.params:
            if name in fr.init_state.env:
                s.env[name] = fr.init_state.env[name]
        for i, en in enumerate(c.ensures):
            t = self.truth(s, self.ev1(en, s))
            self.oblige(s, t, "post", i, info={"case": fr.case_label}, assume_after=False)
        if c.initializes:
            selfv = s.env[c.params[0][0]]
            cell = s.heap.get(selfv.ident, {})
            for fld, expr in c.initializes.items():
                want = self.ev1(expr, s)
                have = cell.get(fld)
                if have is None:
                    self.oblige(s, False, f"init-{fld}", "", info={"case": fr.case_label}, assume_after=False)
                elif isinstance(have, VRef) and not isinstance(want, VRef) and isinstance(s.heap.get(have.ident), (VList, VSeq)):
                    # a list-valued field against a value expression: compared by content
                    self.oblige(s, self.eq_vals(s, self.deref(s, have), want), f"init-{fld}", "", info={"case": fr.case_label},
                                assume_after=False)
                elif isinstance(want, VRef) or isinstance(have, VRef):
                    same = isinstance(want, VRef) and isinstance(have, VRef) and want.ident == have.ident
                    self.oblige(s, same, f"init-{fld}", "", info={"case": fr.case_label}, assume_after=False)
                else:
                    self.oblige(s, self.eq_vals(s, have, want), f"init-{fld}", "", info={"case": fr.case_label},
                                assume_after=False)
        self.check_frame(fr, s)
        if not mentions_aes(c) and "aes_calls" in s.env and "aes_calls" in fr.init_state.env:
            t = s.env["aes_calls"].t == fr.init_state.env["aes_calls"].t
            if not z3.is_true(z3.simplify(t)):
                self.oblige(s, t, "ghost-frame:aes_calls", "", info={"case": fr.case_label}, assume_after=False)

    def check_frame(self, fr, s, tag="frame"):
        """Frame condition: every heap cell that existed on entry and is not named by a modifies clause (nor the object
        under construction) has the content it had on entry.  Checked at every normal and exceptional exit."""
        import re
        c = fr.contract
        init = fr.init_state
        cells, fields = set(), set()
        for m in c.modifies:
            try:
                v = self.ev1(m, init)
            except Exception:
                v = None
            if isinstance(v, VRef):
                cells.add(v.ident)
                continue
            if isinstance(m, ast.Attribute):
                try:
                    ov = self.ev1(m.value, init)
                except Exception:
                    ov = None
                if isinstance(ov, VRef):
                    fields.add((ov.ident, m.attr))
        for name, ty in c.params:
            if isinstance(ty, str) and ty.startswith("newobj:") and isinstance(init.env.get(name), VRef):
                cells.add(init.env[name].ident)
        for ident, c0 in init.heap.items():
            if ident in cells:
                continue
            c1 = s.heap.get(ident)
            if c1 is c0:
                continue
            label = re.sub(r"!\d+$", "", ident)
            eqs = []
            if isinstance(c0, (VSeq, VList)) and isinstance(c1, (VSeq, VList)):
                eqs.append(self.eq_vals(s, c0, c1))
            elif isinstance(c0, dict) and isinstance(c1, dict) and c0.get("__kind__") == c1.get("__kind__"):
                k = c0.get("__kind__")
                if k == "file":
                    if (ident, "pos") not in fields:
                        eqs.append(self.eq_vals(s, c0["pos"], c1["pos"]))
                    eqs.append(self.eq_vals(s, c0["content"], c1["content"]))
                elif k == "dict":
                    eqs += [c0["keys"] == c1["keys"], c0["map"] == c1["map"], c0["log"] == c1["log"]]
                elif k == "obj":
                    for f, v0 in c0.items():
                        if f.startswith("__") or (ident, f) in fields:
                            continue
                        v1 = c1.get(f)
                        if v1 is v0:
                            continue
                        if isinstance(v0, VRef) or isinstance(v1, VRef):
                            eqs.append(z3.BoolVal(isinstance(v0, VRef) and isinstance(v1, VRef) and v0.ident == v1.ident))
                        elif v1 is None:
                            eqs.append(z3.BoolVal(False))
                        else:
                            eqs.append(self.eq_vals(s, v0, v1))
                elif k == "emptylist":
                    pass
                else:
                    continue
            elif isinstance(c0, dict) and c0.get("__kind__") == "emptylist" and isinstance(c1, (VSeq, VList)):
                eqs.append((IS.len(c1.t) if isinstance(c1, VSeq) else VS.len(c1.t)) == 0)
            else:
                eqs.append(z3.BoolVal(False))
            eqs = [e for e in eqs if not z3.is_true(z3.simplify(e) if z3.is_expr(e) else z3.BoolVal(bool(e)))]
            if eqs:
                self.oblige(s, z3.And(*eqs), f"{tag}:{label}", "", info={"case": fr.case_label}, assume_after=False)

    def check_exc_exit(self, fr, s, exc, node, why):
        c = fr.contract
        allowed = []
        for (e, when, ens) in c.raises:
            if exc_isa(exc, e):
                w = z3.BoolVal(True) if when is None else self.truth(fr.init_state, self.ev1(when, fr.init_state))
                if ens is not None:
                    # exceptional postcondition, evaluated in the state of the raising path
                    s2 = s.fork()
                    for name, _ty in c.params:
                        if name in fr.init_state.env:
                            s2.env[name] = fr.init_state.env[name]
                    w = z3.And(w, self.truth(s2, self.ev1(ens, s2)))
                allowed.append(w)
        goal = z3.Or(*allowed) if allowed else z3.BoolVal(False)
        line = getattr(node, "lineno", 0) - fr.fdef.lineno if fr.fdef is not None else 0
        self.oblige(s, goal, f"escape-{exc}", f"{why}@L{line}".replace(" ", "-"),
                    info={"case": fr.case_label, "line": getattr(node, "lineno", 0), "exc": exc}, assume_after=False)
        self.check_frame(fr, s, tag="frame-exc")

    def verify_lemma(self, c):
        fr = Frame(c, None, None)
        self.fr = fr
        fr.handler_types = []
        fr.case_label = ""
        st = State()
        for name, ty in c.params:
            pty = parse_type(ty or "int")
            if isinstance(pty, tuple) and pty[0] == "record":
                from .heapmodel import sym_record
                v, facts = sym_record(self, st, pty[1], name)
            else:
                v, facts = sym_value(name, pty)
            st.env[name] = v
            st.assume(*facts)
        for r in c.requires:
            st.assume(self.truth(st, self.ev1(r, st)))
        fr.canaries.append((f"{c.key}/canary:pre", list(st.pc)))
        fr.init_state = st.fork()
        old = self.spec_mode
        self.ghost_mode = True
        try:
            outs = self.ex_block(c.body, st)
        finally:
            self.ghost_mode = False
        for s, sig in outs:
            for i, en in enumerate(c.ensures):
                t = self.truth(s, self.ev1(en, s))
                self.oblige(s, t, "post", i, assume_after=False)
        if fr.fn_exits_exc:
            raise Unsupported("lemma body raises")
        return fr

    ghost_mode = False

    # ------------------------------------------------------------------ ghost statements
    def run_ghosts(self, st, where, key, nth_counter=None):
        c = self.fr.contract
        for g in c.ghosts:
            if g.where != where:
                continue
            if where in ("after", "before"):
                if g.text.endswith("..."):
                    if not key.startswith(g.text[:-3]):
                        continue
                elif norm_src(g.text) != key:
                    continue
                cnt = self.fr.__dict__.setdefault("anchor_counts", {})
                if g.nth is not None and g.nth != nth_counter:
                    continue
                self.fr.anchors_used.add(id(g))
            elif where in ("loop_head", "loop_exit"):
                if g.text != key:
                    continue
            self.exec_ghost_stmts(st, g.stmts)

    def exec_ghost_stmts(self, st, exprs):
        for ge in exprs:
            if isinstance(ge, ast.Call) and isinstance(ge.func, ast.Name):
                fn = ge.func.id
                if fn == "assert_":
                    t = self.truth(st, self.ev1(ge.args[0], st))
                    self.oblige(st, t, "ghost-assert", f"L{ge.lineno}")
                    continue
                if fn == "let":
                    name = ast.literal_eval(ge.args[0])
                    st.env[name] = self.named(st, self.ev1(ge.args[1], st), name)
                    continue
                if fn == "when":
                    cnd = self.truth(st, self.ev1(ge.args[0], st))
                    inner = ge.args[1].elts if isinstance(ge.args[1], (ast.List, ast.Tuple)) else [ge.args[1]]
                    if z3.is_false(cnd):
                        continue
                    if z3.is_true(cnd):
                        self.exec_ghost_stmts(st, inner)
                        continue
                    sub = st.fork()
                    sub.assume(cnd)
                    before = len(sub.pc)
                    inner = ge.args[1].elts if isinstance(ge.args[1], (ast.List, ast.Tuple)) else [ge.args[1]]
                    self.exec_ghost_stmts(sub, inner)
                    learned = sub.pc[before:]
                    if learned:
                        st.assume(z3.Implies(cnd, z3.And(*learned)))
                    continue
                if fn in self.cdb.lemmas:
                    old = self.spec_mode
                    self.spec_mode = True
                    try:
                        self.ev(ge, st)
                    finally:
                        self.spec_mode = old
                    continue
            raise Unsupported(f"ghost statement {ast.unparse(ge)[:60]}")

    # ------------------------------------------------------------------ statements
    def ex_block(self, stmts, st):
        """-> list of (state, signal-or-None)"""
        outs = [(st, None)]
        for stmt in stmts:
            nxt = []
            for s, sig in outs:
                if sig is not None:
                    nxt.append((s, sig))
                    continue
                nxt += self.ex_stmt(stmt, s)
            outs = nxt
            if not outs:
                break
        return outs

    def ex_stmt(self, stmt, st):
        if not st.feasible():
            return []
        key = head_src(stmt)
        cnts = self.fr.__dict__.setdefault("stmt_seen", {})
        # nth occurrence of this statement text in source order (by node identity)
        ids = self.fr.__dict__.setdefault("stmt_ids", {})
        lst = ids.setdefault(key, [])
        if id(stmt) not in lst:
            lst.append(id(stmt))
        nth = lst.index(id(stmt))
        if self.fr.contract.ghosts and not self.ghost_mode:
            self.run_ghosts(st, "before", key, nth)
        m = getattr(self, "ex_" + type(stmt).__name__, None)
        if m is None:
            raise Unsupported(f"statement {type(stmt).__name__}")
        outs = m(stmt, st)
        if self.fr.contract.ghosts and not self.ghost_mode:
            for s, sig in outs:
                if sig is None:
                    self.run_ghosts(s, "after", key, nth)
        return outs

    def ex_Pass(self, stmt, st):
        return [(st, None)]

    def ex_Expr(self, stmt, st):
        e = stmt.value
        if isinstance(e, ast.Constant):
            self.fr.dropped.append(("docstring", stmt.lineno))
            return [(st, None)]
        if is_logger_call(e):
            self.fr.dropped.append(("logger-call", stmt.lineno))
            return [(st, None)]
        if isinstance(e, (ast.Yield, ast.YieldFrom)):
            return self.ex_yield(e, st)
        if self.ghost_mode and isinstance(e, ast.Call) and isinstance(e.func, ast.Name) and e.func.id in ("assert_", "let", "when"):
            self.exec_ghost_stmts(st, [e])
            return [(st, None)]
        if self.ghost_mode and isinstance(e, ast.Call) and isinstance(e.func, ast.Name) and e.func.id in self.cdb.lemmas:
            # lemma call in a proof body: the arguments are specification terms
            self.exec_ghost_stmts(st, [e])
            return [(st, None)]
        return [(s, None) for s, _v in self.ev(e, st)]

    def ex_yield(self, e, st):
        c = self.fr.contract
        if isinstance(e, ast.YieldFrom):
            outs = []
            for s, v in self.ev(e.value, st):
                v = self.deref(s, v)
                if c.mode == "first":
                    raise Unsupported("yield from in first-mode")
                y = s.env["yielded"]
                if isinstance(y, VSeq) and isinstance(v, VSeq):
                    s.env["yielded"] = VSeq(IS.cat(y.t, v.t), y.kind)
                elif isinstance(y, VList) and isinstance(v, VList):
                    s.env["yielded"] = VList(VS.cat(y.t, v.t), y.et)
                else:
                    raise Unsupported("yield from of " + repr(v))
                outs.append((s, None))
            return outs
        outs = []
        for s, v in (self.ev(e.value, st) if e.value is not None else [(st, VNone())]):
            v = self.deref(s, v)
            v = self.snapshot(s, v)
            if c.mode == "first":
                outs.append((s, Signal("yield-first", v)))
                continue
            y = s.env["yielded"]
            if isinstance(y, VSeq):
                s.env["yielded"] = VSeq(IS.cat(y.t, IS.unit(self.as_int(s, v))), y.kind)
            else:
                s.env["yielded"] = VList(VS.cat(y.t, VS.unit(box(v))), y.et)
            outs.append((s, None))
        return outs

    def snapshot(self, st, v):
        """A cstruct instance that leaves the function (yield) is recorded by value: a flat tuple of its fields in
        declaration order, an enum-typed field as (enum tag, integer value)."""
        if isinstance(v, VRef):
            cell = st.heap.get(v.ident)
            if isinstance(cell, dict) and str(cell.get("__class__", "")).startswith("cstruct:"):
                items = []
                for k, x in cell.items():
                    if k.startswith("__"):
                        continue
                    x = self.deref(st, x)
                    if isinstance(x, VRecord) and x.cls == "cenum":
                        items.append(VInt(enum_tag(x.fields["enum"].py[2])))
                        items.append(x.fields["value"])
                    else:
                        items.append(x)
                return VTuple(items)
        return v

    def ex_Assign(self, stmt, st):
        outs = []
        for s, v in self.ev(stmt.value, st):
            for tgt in stmt.targets:
                for s2 in self.assign(s, tgt, v, stmt):
                    outs.append((s2, None))
        return outs

    def ex_AnnAssign(self, stmt, st):
        if stmt.value is None:
            return [(st, None)]
        outs = []
        for s, v in self.ev(stmt.value, st):
            for s2 in self.assign(s, stmt.target, v, stmt):
                outs.append((s2, None))
        return outs

    def assign(self, st, tgt, v, node):
        """-> list of states"""
        if isinstance(tgt, ast.Name):
            if isinstance(v, VRef) and isinstance(st.heap.get(v.ident), dict) and st.heap[v.ident].get("__kind__") == "emptylist":
                cell = dict(st.heap[v.ident])
                cell.setdefault("name", tgt.id)
                st.heap[v.ident] = cell
                ty = self.fr.contract.locals.get(tgt.id)
                if ty is not None:
                    ty = parse_type(ty)
                    st.heap[v.ident] = VSeq(IS.empty, "ilist") if ty == "ilist" else VList(VS.empty, ty[1] if isinstance(ty, tuple) else "any")
            st.env[tgt.id] = self.named(st, v, tgt.id) if not self.spec_mode else v
            return [st]
        if isinstance(tgt, (ast.Tuple, ast.List)):
            v = self.deref(st, v)
            n = len(tgt.elts)
            if isinstance(v, VTuple):
                if len(v.items) != n:
                    self.throw(st, "ValueError", node, "unpack")
                    return []
                items = v.items
            elif isinstance(v, VList):
                self.implicit_error(st, VS.len(v.t) == n, "ValueError", node, "unpack")
                items = [unbox(VS.at(v.t, z3.IntVal(k)), v.et) for k in range(n)]
            elif isinstance(v, VSeq):
                self.implicit_error(st, IS.len(v.t) == n, "ValueError", node, "unpack")
                items = [VInt(IS.at(v.t, z3.IntVal(k))) if v.kind != "str" else VSeq(IS.unit(IS.at(v.t, z3.IntVal(k))), "str")
                         for k in range(n)]
            elif isinstance(v, VAny):
                tv = Val.tval(v.t)
                self.implicit_error(st, z3.And(Val.is_VT(v.t), VS.len(tv) == n), "ValueError", node, "unpack")
                items = [VAny(VS.at(tv, z3.IntVal(k))) for k in range(n)]
            else:
                raise Unsupported(f"unpack of {v!r}")
            states = [st]
            for t2, x in zip(tgt.elts, items):
                nxt = []
                for s in states:
                    nxt += self.assign(s, t2, x, node)
                states = nxt
            return states
        if isinstance(tgt, ast.Attribute) and isinstance(tgt.value, ast.Name) \
                and isinstance(st.env.get(tgt.value.id), VRecord) and st.env[tgt.value.id].cls != "cenum":
            # attribute assignment on a local that holds a record value (dataclass / cstruct snapshot obtained from a
            # generator or constructor): functional update of the local; sound as long as no other reference to the
            # same object is observed afterwards (listed as an assumption)
            rec = st.env[tgt.value.id]
            f = dict(rec.fields)
            f[tgt.attr] = v
            st.env[tgt.value.id] = VRecord(rec.cls, f)
            self.fr.assumed_used.add(f"record-valued local `{tgt.value.id}` is not aliased (functional update on attribute assignment)")
            return [st]
        if isinstance(tgt, ast.Attribute):
            outs = []
            for s, ov in self.ev(tgt.value, st):
                from .heapmodel import set_field
                set_field(self, s, ov, tgt.attr, v, node)
                outs.append(s)
            return outs
        if isinstance(tgt, ast.Subscript):
            outs = []
            for s, (bv, iv) in self.evs([tgt.value, tgt.slice], st):
                from .heapmodel import set_item
                outs += set_item(self, s, bv, iv, v, node)
            return outs
        raise Unsupported(f"assignment target {type(tgt).__name__}")

    def ex_AugAssign(self, stmt, st):
        outs = []
        tgt = stmt.target
        load = copy_load(tgt)
        for s, (cur, rhs) in self.evs([load, stmt.value], st):
            if isinstance(cur, VRef) and isinstance(stmt.op, ast.Add) and cur.cls == "list":
                from .calls import list_method
                list_method(self, s, cur, "extend", [rhs], {}, stmt)
                outs.append((s, None))
                continue
            v = self.binop(s, stmt.op, cur, rhs, stmt)
            for s2 in self.assign(s, tgt, v, stmt):
                outs.append((s2, None))
        return outs

    def ex_If(self, stmt, st):
        outs = []
        for s, c in self.ev(stmt.test, st):
            ct = self.truth(s, c)
            if z3.is_true(ct):
                outs += self.ex_block(stmt.body, s)
                continue
            if z3.is_false(ct):
                outs += self.ex_block(stmt.orelse, s)
                continue
            s1 = s.fork()
            s1.assume(ct)
            s2 = s
            s2.assume(z3.Not(ct))
            self.narrow(stmt.test, s1, True)
            self.narrow(stmt.test, s2, False)
            outs += self.ex_block(stmt.body, s1)
            outs += self.ex_block(stmt.orelse, s2)
        return outs

    def narrow(self, test, st, truthy):
        """`if x:` / `if not x:` / `if x is None:` on an Optional local: unwrap it in the branch where it is not None."""
        from .values import VOpt
        neg = False
        while isinstance(test, ast.UnaryOp) and isinstance(test.op, ast.Not):
            test, neg = test.operand, not neg
        name = None
        if isinstance(test, ast.Call) and isinstance(test.func, ast.Name) and test.func.id == "isinstance" and len(test.args) == 2 \
                and isinstance(test.args[0], ast.Name) and isinstance(test.args[1], ast.Name) \
                and isinstance(st.env.get(test.args[0].id), VAny) and truthy != neg:
            # isinstance(x, bytes|str|int) holds in this branch: use the unboxed value
            t = st.env[test.args[0].id].t
            kind = test.args[1].id
            if kind in ("bytes", "str"):
                st.env[test.args[0].id] = VSeq(Val.byval(t) if kind == "bytes" else Val.strval(t), kind)
            elif kind == "int":
                st.env[test.args[0].id] = VAny(t)   # bool is an int too: keep the boxed value
            return
        if isinstance(test, ast.Name):
            name, nonnull_when = test.id, True
        elif isinstance(test, ast.Compare) and len(test.ops) == 1 and isinstance(test.left, ast.Name) \
                and isinstance(test.comparators[0], ast.Constant) and test.comparators[0].value is None:
            name = test.left.id
            nonnull_when = isinstance(test.ops[0], ast.IsNot)
        if name is None or not isinstance(st.env.get(name), VOpt):
            return
        if (truthy != neg) == nonnull_when:
            st.env[name] = st.env[name].value

    def ex_Return(self, stmt, st):
        if stmt.value is None:
            return [(st, Signal("return", VNone()))]
        return [(s, Signal("return", self.deref_result(s, v))) for s, v in self.ev(stmt.value, st)]

    def deref_result(self, s, v):
        return v

    def ex_Break(self, stmt, st):
        return [(st, Signal("break"))]

    def ex_Continue(self, stmt, st):
        return [(st, Signal("continue"))]

    def ex_Assert(self, stmt, st):
        outs = []
        for s, c in self.ev(stmt.test, st):
            self.implicit_error(s, self.truth(s, c), "AssertionError", stmt, "assert")
            self.narrow(stmt.test, s, True)
            outs.append((s, None))
        return outs

    def ex_Raise(self, stmt, st):
        if stmt.exc is None:
            cur = getattr(self.fr, "current_exc", None)
            if cur is None:
                raise Unsupported("bare raise outside handler")
            self.throw(st, cur, stmt, "re-raise")
            return []
        e = stmt.exc
        name = None
        if isinstance(e, ast.Call) and isinstance(e.func, ast.Name):
            name = e.func.id
        elif isinstance(e, ast.Name):
            name = e.id
        if name is None:
            raise Unsupported("raise of non-constant exception")
        self.throw(st, name, stmt, "raise")
        return []

    def ex_Try(self, stmt, st):
        fr = self.fr
        types = []
        for h in stmt.handlers:
            if h.type is None:
                types.append([None])
            elif isinstance(h.type, ast.Tuple):
                types.append([exc_name(x) for x in h.type.elts])
            else:
                types.append([exc_name(h.type)])
        sink = []
        fr.handlers.append(sink)
        fr.handler_types.append([t for ts in types for t in ts])
        try:
            body_outs = self.ex_block(stmt.body, st)
        finally:
            fr.handlers.pop()
            fr.handler_types.pop()
        outs = []
        for s, sig in body_outs:
            if sig is None and stmt.orelse:
                outs += self.ex_block(stmt.orelse, s)
            else:
                outs.append((s, sig))
        for (s, exc, node, why) in sink:
            handled = False
            for h, ts in zip(stmt.handlers, types):
                if any(t is None or exc_isa(exc, t) for t in ts):
                    if h.name:
                        s.env[h.name] = VConst((exc, ()), "exception")
                    prev = getattr(fr, "current_exc", None)
                    fr.current_exc = exc
                    try:
                        outs += self.ex_block(h.body, s)
                    finally:
                        fr.current_exc = prev
                    handled = True
                    break
            if not handled:
                if stmt.finalbody:
                    for s2, sig2 in self.ex_block(stmt.finalbody, s):
                        if sig2 is None:
                            self.throw(s2, exc, node, why)
                        else:
                            outs.append((s2, sig2))
                else:
                    self.throw(s, exc, node, why)
        if stmt.finalbody:
            fin = []
            for s, sig in outs:
                for s2, sig2 in self.ex_block(stmt.finalbody, s):
                    fin.append((s2, sig2 if sig2 is not None else sig))
            outs = fin
        return outs

    # ------------------------------------------------------------------ loops
    def ex_While(self, stmt, st):
        return self.do_loop(stmt, st, None)

    def ex_For(self, stmt, st):
        outs = []
        for s, itv0 in self.ev(stmt.iter, st):
            if isinstance(itv0, VRef) and isinstance(s.heap.get(itv0.ident), dict) and s.heap[itv0.ident].get("__kind__") == "obj" \
                    and isinstance(stmt.iter, ast.Name) and not stmt.orelse:
                # `for x in it:` over an object of a class whose __iter__/__next__ are under contract: the iterator protocol,
                #     it.__iter__()
                #     while True:
                #         try: x = it.__next__()
                #         except StopIteration: break
                #         <body>
                # executed through the callee contracts (same loop ordinal, so the loop invariant of the contract applies)
                cell = s.heap[itv0.ident]
                tgt = f"{cell.get('__module__')}:{cell.get('__class__')}"
                if self.cdb.get(tgt + ".__next__") is None or self.cdb.get(tgt + ".__iter__") is None:
                    raise Unsupported(f"for-loop over {tgt} without __iter__/__next__ contracts")
                name = stmt.iter.id
                src = (f"{name}.__iter__()\nwhile True:\n    try:\n        __T__ = {name}.__next__()\n"
                       f"    except StopIteration:\n        break\n")
                mod = ast.parse(src)
                wh = mod.body[1]
                wh.body[0].body[0].targets = [stmt.target]
                wh.body += stmt.body
                ast.copy_location(wh, stmt)
                ast.fix_missing_locations(mod)
                for n_ in ast.walk(mod):
                    if not hasattr(n_, "lineno") or n_.lineno < stmt.lineno:
                        try:
                            n_.lineno = stmt.lineno; n_.end_lineno = stmt.lineno; n_.col_offset = 0; n_.end_col_offset = 0
                        except Exception:
                            pass
                self.fr.loop_ordinals[id(wh)] = self.fr.loop_ordinals.get(id(stmt))
                for s1, sig in self.ex_block(mod.body, s):
                    outs.append((s1, sig))
                continue
            itv = self.deref(s, itv0)
            if isinstance(itv, VTuple):
                # static tuple: unroll
                states = [(s, None)]
                ls_ = self.fr.contract.loops.get(self.fr.loop_ordinals.get(id(stmt)))
                for pos_, item in enumerate(itv.items):
                    nxt = []
                    for s2, sig in states:
                        if sig is not None:
                            nxt.append((s2, sig))
                            continue
                        if ls_ is not None and ls_.index:
                            s2.env[ls_.index] = VInt(pos_)      # ghost loop index of an unrolled (static) loop
                        for s3 in self.assign(s2, stmt.target, item, stmt):
                            for s4, sig4 in self.ex_block(stmt.body, s3):
                                if sig4 is not None and sig4.kind == "continue":
                                    sig4 = None
                                nxt.append((s4, sig4))
                    states = nxt
                n_ = self.fr.loop_ordinals.get(id(stmt))
                for s2, sig in states:
                    if sig is not None and sig.kind == "break":
                        outs.append((s2, None))
                    elif sig is None:
                        if ls_ is not None and ls_.index:
                            s2.env[ls_.index] = VInt(len(itv.items))
                        self.run_ghosts(s2, "loop_exit", n_)
                        outs += self.ex_block(stmt.orelse, s2) if stmt.orelse else [(s2, None)]
                    else:
                        outs.append((s2, sig))
                continue
            if self.first_iteration_only(stmt):
                outs += self.loop_first_only(stmt, s, itv)
                continue
            outs += self.do_loop(stmt, s, itv)
        return outs

    def first_iteration_only(self, stmt):
        """`for x in xs: ...; return / yield (first-mode)`: every path through the body leaves the function, so only the first
        element is ever used (no invariant needed; also exact for a lazily evaluated generator, whose first item does not
        depend on what the consumer does afterwards)"""
        if stmt.orelse or not stmt.body:
            return False
        last = stmt.body[-1]
        ends = isinstance(last, ast.Return) or (self.fr.contract.mode == "first" and isinstance(last, ast.Expr)
                                                and isinstance(last.value, ast.Yield))
        if not ends:
            return False
        for b in stmt.body:
            for n in ast.walk(b):
                if isinstance(n, (ast.Continue, ast.Break)):
                    return False
        return True

    def loop_first_only(self, stmt, s, itv):
        outs = []
        if isinstance(itv, VSeq):
            n, first = IS.len(itv.t), VInt(IS.at(itv.t, z3.IntVal(0)))
        elif isinstance(itv, VList):
            n, first = VS.len(itv.t), unbox(VS.at(itv.t, z3.IntVal(0)), itv.et)
        else:
            raise Unsupported(f"first-iteration-only loop over {itv!r}")
        s_empty = s.fork()
        s_empty.assume(n == 0)
        if s_empty.feasible():
            outs.append((s_empty, None))
        s_some = s.fork()
        s_some.assume(n > 0)
        if s_some.feasible():
            for s3 in self.assign(s_some, stmt.target, first, stmt):
                for s4, sig4 in self.ex_block(stmt.body, s3):
                    if sig4 is None:
                        raise Unsupported("a path through a first-iteration-only loop body does not leave the function")
                    outs.append((s4, sig4))
        return outs

    def loop_modified(self, stmt, st):
        """Names assigned in the loop body and heap cells possibly mutated by it."""
        names, recv = set(), set()
        body = stmt.body + (stmt.orelse or [])
        for node in itertools.chain.from_iterable(ast.walk(b) for b in body):
            if isinstance(node, (ast.Assign, ast.AugAssign, ast.AnnAssign)):
                tgts = node.targets if isinstance(node, ast.Assign) else [node.target]
                for t in tgts:
                    for n in ast.walk(t):
                        if isinstance(n, ast.Name) and isinstance(n.ctx, ast.Store):
                            names.add(n.id)
                        if isinstance(n, (ast.Attribute, ast.Subscript)) and isinstance(n.ctx, ast.Store):
                            recv.add(ast.unparse(n.value))
                            if isinstance(n.value, ast.Name):
                                names.add(n.value.id)       # record-valued locals are updated functionally
                if isinstance(node, ast.AugAssign) and isinstance(node.target, ast.Name):
                    recv.add(node.target.id)
            elif isinstance(node, ast.For):
                for n in ast.walk(node.target):
                    if isinstance(n, ast.Name):
                        names.add(n.id)
            elif isinstance(node, ast.NamedExpr):
                names.add(node.target.id)
            elif isinstance(node, ast.ExceptHandler) and node.name:
                names.add(node.name)
            elif isinstance(node, ast.Call):
                if isinstance(node.func, ast.Attribute):
                    recv.add(ast.unparse(node.func.value))
                for a in list(node.args) + [k.value for k in node.keywords]:
                    if isinstance(a, (ast.Name, ast.Attribute)):
                        recv.add(ast.unparse(a))
            elif isinstance(node, (ast.Yield, ast.YieldFrom)):
                names.add("yielded")
        if isinstance(stmt, ast.For):
            for n in ast.walk(stmt.target):
                if isinstance(n, ast.Name):
                    names.add(n.id)
        return names, recv

    def havoc_cell(self, st, ident, hint_name=None, ls=None):
        from .heapmodel import havoc_cell
        havoc_cell(self, st, ident, hint_name, ls)

    def do_loop(self, stmt, st, itv):
        fr = self.fr
        c = fr.contract
        n = fr.loop_ordinals.get(id(stmt))
        ls = c.loops.get(n) if n is not None else None
        if self.ghost_mode:
            raise Unsupported("loop in ghost code")
        if ls is None:
            raise Unsupported(f"loop {n} (line {stmt.lineno}) has no loop contract")
        is_for = isinstance(stmt, ast.For)
        kname = ls.index or f"$k{n}"
        # iteration space of a for loop
        count = elem = None
        if is_for:
            if isinstance(itv, VConst) and itv.what == "range":
                _, lo, hi, step = itv.py
                if not (z3.is_int_value(step) and step.as_long() > 0):
                    raise Unsupported("range with non-constant or non-positive step")
                sp = step.as_long()
                count = z3.If(hi > lo, (hi - lo + sp - 1) / sp, z3.IntVal(0))
                elem = lambda k: VInt(lo + k * sp)
            elif isinstance(itv, VSeq):
                count = IS.len(itv.t)
                elem = (lambda k: VInt(IS.at(itv.t, k))) if itv.kind != "str" else (lambda k: VSeq(IS.unit(IS.at(itv.t, k)), "str"))
            elif isinstance(itv, VList):
                count = VS.len(itv.t)
                elem = lambda k: unbox(VS.at(itv.t, k), itv.et)
            elif isinstance(itv, VRef) and isinstance(st.heap.get(itv.ident), dict) and st.heap[itv.ident].get("__kind__") == "emptylist":
                return self.ex_block(stmt.orelse, st) if stmt.orelse else [(st, None)]
            else:
                from .heapmodel import iteration_space
                count, elem = iteration_space(self, st, itv, stmt)
        # 1. invariants on entry (`iter_seq` names the sequence a for loop iterates over)
        if is_for and isinstance(itv, (VSeq, VList)):
            st.env["iter_seq"] = itv
        st.env[kname] = VInt(0)
        for i, inv in enumerate(ls.invariants):
            t = self.truth(st, self.ev1(inv, st))
            self.oblige(st, t, f"inv-entry[{n}]", i, info={"case": fr.case_label})
        # 2. havoc
        names, recv = self.loop_modified(stmt, st)
        names |= set(ls.modifies_extra)
        head = st.fork()
        for nm in sorted(names):
            if nm == kname:
                continue
            if nm in head.env:
                cur = head.env[nm]
                if isinstance(cur, VRef):
                    # rebinding a name that holds a reference: the name may point elsewhere afterwards
                    if nm in ls.locals:
                        head.env[nm] = self.fresh_like(head, nm, None, ls.locals[nm])
                    else:
                        # conservatively also havoc the referenced cell (below) and keep the reference
                        recv.add(nm)
                else:
                    head.env[nm] = self.fresh_like(head, nm, cur, ls.locals.get(nm))
            elif nm in ls.locals:
                head.env[nm] = self.fresh_like(head, nm, None, ls.locals[nm])
        for rtxt in sorted(recv):
            try:
                rv = self.ev1(ast.parse(rtxt, mode="eval").body, st)
            except Unsupported:
                continue
            if isinstance(rv, VRef):
                self.havoc_cell(head, rv.ident, rtxt, ls)
            if isinstance(rv, VRef):
                cell = head.heap.get(rv.ident)
                if isinstance(cell, dict) and cell.get("__kind__") == "obj":
                    from .heapmodel import havoc_object_fields
                    havoc_object_fields(self, head, rv.ident, stmt, ls)
        k = fresh("k", I)
        head.env[kname] = VInt(k)
        head.assume(k >= 0)
        if is_for:
            head.assume(k <= count)
        inv_terms = []
        for inv in ls.invariants:
            t = self.truth(head, self.ev1(inv, head))
            head.assume(t)
        fr.canaries.append((f"{c.key}/canary:loop{n}[{fr.case_label}]", list(head.pc)))
        outs = []
        exits = []
        # 3. one arbitrary iteration
        if is_for:
            body_states = []
            b = head.fork()
            b.assume(k < count)
            for s in self.assign(b, stmt.target, elem(k), stmt):
                body_states.append(s)
            ex = head.fork()
            ex.assume(k == count)
            exits.append((ex, "normal"))
        else:
            body_states = []
            for s, cv in self.ev(stmt.test, head.fork()):
                ct = self.truth(s, cv)
                if not z3.is_false(ct):
                    b = s.fork()
                    b.assume(ct)
                    self.narrow(stmt.test, b, True)
                    body_states.append(b)
                if not z3.is_true(ct):
                    s.assume(z3.Not(ct))
                    self.narrow(stmt.test, s, False)
                    exits.append((s, "normal"))
        for b in body_states:
            v0 = None
            if ls.decreases is not None:
                v0 = self.as_int(b, self.ev1(ls.decreases, b))
            elif not is_for and c.terminates:
                raise Unsupported(f"while loop {n} without decreases in a function declared terminates")
            self.run_ghosts(b, "loop_head", n)
            for s, sig in self.ex_block(stmt.body, b):
                if sig is None or sig.kind == "continue":
                    s.env[kname] = VInt(k + 1) if is_for else VInt(k + 1)
                    for i, inv in enumerate(ls.invariants):
                        t = self.truth(s, self.ev1(inv, s))
                        self.oblige(s, t, f"inv-pres[{n}]", i, info={"case": fr.case_label}, assume_after=False)
                    if v0 is not None:
                        v1 = self.as_int(s, self.ev1(ls.decreases, s))
                        self.oblige(s, z3.And(v0 >= 0, v1 < v0), f"variant[{n}]", "", info={"case": fr.case_label},
                                    assume_after=False)
                elif sig.kind == "break":
                    exits.append((s, "break"))
                else:
                    outs.append((s, sig))
        # 4. after the loop
        for s, how in exits:
            self.run_ghosts(s, "loop_exit", n)
            if how == "normal" and stmt.orelse:
                outs += self.ex_block(stmt.orelse, s)
            else:
                outs.append((s, None))
        return outs

    def fresh_like(self, st, name, cur, ty=None):
        if ty is not None:
            ty = parse_type(ty)
            if isinstance(ty, tuple) and ty[0] == "opt":
                t = fresh(name, Val)
                st.assume(z3.Or(Val.is_VN(t), z3.And(*wt(t, ty[1])) if wt(t, ty[1]) else z3.BoolVal(True)))
                return VAny(t)
            v, facts = sym_value(name, ty)
            st.assume(*facts)
            return v
        if isinstance(cur, VInt):
            return VInt(fresh(name, I))
        if isinstance(cur, VBool):
            return VBool(fresh(name, B))
        if isinstance(cur, VSeq):
            t = fresh(name, ISq)
            if cur.kind in ("bytes", "bytearray"):
                st.assume(is_bytes_fact(t))
            return VSeq(t, cur.kind)
        if isinstance(cur, VList):
            t = fresh(name, VSq)
            st.assume(*wt_seq(t, cur.et))
            return VList(t, cur.et, cur.kind)
        if isinstance(cur, VAny):
            return VAny(fresh(name, Val))
        if isinstance(cur, VTuple):
            return VTuple([self.fresh_like(st, f"{name}_{i}", x) for i, x in enumerate(cur.items)])
        if isinstance(cur, VOpt):
            return VOpt(fresh(name + "_isnone", B), self.fresh_like(st, name, cur.value))
        if isinstance(cur, VNone):
            raise Unsupported(f"variable {name} is None before the loop and assigned in it: declare its type in loop(locals=...)")
        if isinstance(cur, VRecord):
            return VRecord(cur.cls, {k: self.fresh_like(st, f"{name}_{k}", x) for k, x in cur.fields.items()})
        raise Unsupported(f"cannot havoc {name} = {cur!r}")


def enum_tag(name):
    import zlib
    return zlib.crc32(name.encode()) & 0xFFFF


def mentions_aes(c):
    for e in list(c.ensures) + [x for (_a, _b, x) in c.raises if x is not None]:
        if any(isinstance(n, ast.Name) and n.id == "aes_calls" for n in ast.walk(e)):
            return True
    return False


def exc_name(node):
    if isinstance(node, ast.Name):
        return node.id
    if isinstance(node, ast.Attribute):
        return ast.unparse(node)
    raise Unsupported("exception type expression")


def copy_load(node):
    import copy
    n = copy.deepcopy(node)
    for x in ast.walk(n):
        if hasattr(x, "ctx"):
            x.ctx = ast.Load()
    return n


def mentions_name(c, name):
    exprs = list(c.requires) + list(c.ensures)
    for ls in c.loops.values():
        exprs += list(ls.invariants)
    return any(isinstance(n, ast.Name) and n.id == name for e in exprs for n in ast.walk(e))
