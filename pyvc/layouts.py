"""Record and object layouts (NamedTuples, classes) known to the heap model."""
from .heapmodel import register_record, register_object

register_record("ArtifactKitPayload", {"offset": "int", "size": "int", "xorkey": "bytes", "hints": "bytes",
                                       "payload": "bytes"}, "dissect.cobaltstrike.artifact")
