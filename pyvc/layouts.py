"""Record and object layouts (NamedTuples, classes) known to the heap model."""
from .heapmodel import register_record, register_object

register_record("ArtifactKitPayload", {"offset": "int", "size": "int", "xorkey": "bytes", "hints": "bytes",
                                       "payload": "bytes"}, "dissect.cobaltstrike.artifact")

register_record("HttpRequest", {"method": "bytes", "uri": "bytes", "params": "dict", "headers": "dict", "body": "bytes"},
                "dissect.cobaltstrike.c2")
register_record("HttpResponse", {"status": "int", "headers": "dict", "reason": "bytes", "body": "bytes",
                                 "request": "opt[record[HttpRequest]]"}, "dissect.cobaltstrike.c2")

register_record("EncryptedPacket", {"ciphertext": "bytes", "signature": "bytes"}, "dissect.cobaltstrike.c2")
register_record("C2Data", {"output": "opt[bytes]", "metadata": "opt[bytes]", "id": "opt[bytes]"}, "dissect.cobaltstrike.c2")
register_record("ServerC2Data", {"output": "opt[bytes]", "metadata": "opt[bytes]", "id": "opt[bytes]"}, "dissect.cobaltstrike.c2")
register_record("ClientC2Data", {"output": "opt[bytes]", "metadata": "opt[bytes]", "id": "opt[bytes]"}, "dissect.cobaltstrike.c2")
register_record("BeaconKeys", {"aes_key": "opt[bytes]", "hmac_key": "opt[bytes]", "iv": "bytes"}, "dissect.cobaltstrike.c2")

register_object("XorEncodedFile", {"fh": "file", "nonce_offset": "int", "initial_nonce": "bytes", "nonced_filesize": "bytes"},
                "dissect.cobaltstrike.xordecode")

register_record("GuardrailMetadata", {"beacon_config_offset": "int", "guard_config_offset": "int",
                                      "masked_beacon_config": "bytes", "masked_guard_config": "bytes",
                                      "beacon_xor_key": "bytes", "guardrail_xor_key": "bytes",
                                      "unmasked_guard_config": "bytes", "checksum": "int",
                                      "payload_xor_key": "opt[bytes]", "unmasked_beacon_config": "opt[bytes]",
                                      "settings": "any"}, "dissect.cobaltstrike.guardrails")

register_object("BeaconVersion", {"version": "str", "tuple": "any", "date": "any"}, "dissect.cobaltstrike.version")

register_object("HttpDataTransform", {"tsteps": "mlist[tuple[str,any]]", "rsteps": "mlist[tuple[str,any]]"},
                "dissect.cobaltstrike.c2")

register_object("HttpBeaconClient", {"task_map": "any", "beacon_id": "any", "counter": "int", "pid": "any"}, "dissect.cobaltstrike.client")

register_object("C2Http", {"get_verb": "bytes", "submit_verb": "bytes", "submit_uri": "bytes", "get_uris": "tuplelist[bytes]",
                           "transform_get": "obj:HttpDataTransform", "transform_submit": "obj:HttpDataTransform",
                           "transform_response": "obj:HttpDataTransform"}, "dissect.cobaltstrike.c2")

register_object("StringIterator", {"buffer": "clist", "index": "int"}, "dissect.cobaltstrike.c2profile")
register_record("Token", {"type": "str", "value": "str"}, "lark")

register_object("BeaconConfig", {"config_block": "bytes", "settings_tuple": "tuplelist[tuple[int,int,int,int,int,bytes]]", "xorkey": "any", "xorencoded": "any",
                                 "pe_export_stamp": "any", "pe_compile_stamp": "any", "architecture": "any", "guardrails": "any",
                                 "_settings": "any", "_settings_by_index": "any", "_raw_settings": "any", "_raw_settings_by_index": "any"},
                "dissect.cobaltstrike.beacon")
