"""Record and object layouts (NamedTuples, classes) known to the heap model."""
from .heapmodel import register_record, register_object
