"""Record and object layouts (NamedTuples, classes) known to the heap model."""
from .heapmodel import register_record, register_object

register_record("ArtifactKitPayload", {"offset": "int", "size": "int", "xorkey": "bytes", "hints": "bytes",
                                       "payload": "bytes"}, "dissect.cobaltstrike.artifact")

register_record("HttpRequest", {"method": "bytes", "uri": "bytes", "params": "any", "headers": "any", "body": "bytes"},
                "dissect.cobaltstrike.c2")
register_record("HttpResponse", {"status": "int", "headers": "any", "reason": "bytes", "body": "bytes",
                                 "request": "opt[record[HttpRequest]]"}, "dissect.cobaltstrike.c2")
