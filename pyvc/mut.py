"""Dev helper: apply a textual mutation to a scratch copy of the repo sources and run pyvc.dev on it.
usage: python3-vt -m pyvc.mut <file.py> '<old>' '<new>' <contract-pattern>"""
import os, shutil, subprocess, sys, tempfile
f, old, new, pat = sys.argv[1:5]
d = tempfile.mkdtemp(prefix="pyvcmut")
try:
    dst = os.path.join(d, "dissect", "cobaltstrike")
    os.makedirs(dst)
    for n in os.listdir("/repo/dissect/cobaltstrike"):
        if n.endswith((".py", ".lark")):
            shutil.copy(os.path.join("/repo/dissect/cobaltstrike", n), dst)
    p = os.path.join(dst, f)
    s = open(p).read()
    assert s.count(old) >= 1, "pattern not found"
    open(p, "w").write(s.replace(old, new, 1))
    env = dict(os.environ, PYVC_REPO=d)
    subprocess.run([sys.executable, "-m", "pyvc.dev", pat] + sys.argv[5:], env=env)
finally:
    shutil.rmtree(d)
