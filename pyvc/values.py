"""Symbolic value wrappers and type descriptors of pyvc."""
import itertools
import z3
from . import smt
from .smt import IS, VS, Val, I, B

_counter = itertools.count()


def fresh(prefix, sort):
    return z3.Const(f"{prefix}!{next(_counter)}", sort)


class Unsupported(Exception):
    """A construct outside the supported subset: the function is out-of-reach (never approximated)."""


class V:
    pass


class VInt(V):
    def __init__(self, t):
        self.t = z3.IntVal(t) if isinstance(t, int) else t

    def __repr__(self):
        return f"VInt({self.t})"


class VBool(V):
    def __init__(self, t):
        self.t = z3.BoolVal(t) if isinstance(t, bool) else t

    def __repr__(self):
        return f"VBool({self.t})"


class VSeq(V):
    """Int-element sequence: kind in bytes|bytearray|str|ilist|ituple."""

    def __init__(self, t, kind, py=None):
        self.t, self.kind, self.py = t, kind, py

    def __repr__(self):
        return f"VSeq[{self.kind}]({self.t})"


class VNone(V):
    def __repr__(self):
        return "VNone"


class VTuple(V):
    def __init__(self, items, is_list=False):
        self.items = list(items)
        self.is_list = is_list       # a list whose length is known statically (literal tables)

    def __repr__(self):
        return f"VTuple({self.items})"


class VList(V):
    """Boxed-element sequence (immutable view): kind list|tuple; et = element type descriptor."""

    def __init__(self, t, et, kind="list"):
        self.t, self.et, self.kind = t, et, kind

    def __repr__(self):
        return f"VList[{self.et}]({self.t})"


class VRef(V):
    """Reference to a mutable heap cell (list, bytearray, dict, object, file)."""

    def __init__(self, ident, cls=None):
        self.ident, self.cls = ident, cls

    def __repr__(self):
        return f"VRef({self.ident}:{self.cls})"


class VAny(V):
    def __init__(self, t):
        self.t = t

    def __repr__(self):
        return f"VAny({self.t})"


class VConst(V):
    """Python-level constant: function reference, class, module, enum member, type..."""

    def __init__(self, py, what="py"):
        self.py, self.what = py, what

    def __repr__(self):
        return f"VConst({self.what}:{self.py})"


class VOpt(V):
    """Optional value with a symbolic none-flag (used for Optional[record] fields)."""

    def __init__(self, isnone, value):
        self.isnone, self.value = isnone, value

    def __repr__(self):
        return f"VOpt({self.isnone},{self.value})"


class VRecord(V):
    """Immutable record with statically known fields (NamedTuple, cstruct instance snapshot)."""

    def __init__(self, cls, fields):
        self.cls, self.fields = cls, dict(fields)

    def __repr__(self):
        return f"VRecord({self.cls},{self.fields})"


RECORDS = {}   # class name -> (ordered {field: type}, module)
OBJECTS = {}   # class name -> ({field: type}, module)

# ---------------------------------------------------------------- type descriptors

def parse_type(s):
    """'int' | 'bytes' | 'list[tuple[str,any]]' | 'opt[int]' | 'obj:Name' -> nested tuples."""
    if not isinstance(s, str):
        return s
    s = s.strip()
    if "[" not in s:
        return s
    head, rest = s.split("[", 1)
    assert rest.endswith("]"), s
    inner = rest[:-1]
    parts, depth, cur = [], 0, ""
    for ch in inner:
        if ch == "[":
            depth += 1
        if ch == "]":
            depth -= 1
        if ch == "," and depth == 0:
            parts.append(cur)
            cur = ""
        else:
            cur += ch
    parts.append(cur)
    return (head.strip(),) + tuple(parse_type(p) for p in parts)


ISEQ_KINDS = {"bytes", "bytearray", "str", "ilist", "ituple", "clist"}   # clist: a list of one-character strings
_BOX = {"bytes": ("VBy", "byval"), "bytearray": ("VBy", "byval"), "str": ("VStr", "strval"),
        "ilist": ("VIL", "ilval"), "ituple": ("VIL", "ilval"), "clist": ("VIL", "ilval")}


def mk_iseq_lit(pyval, kind):
    """Ground sequence term for a Python literal (bytes/str/list of ints)."""
    vals = list(pyval.encode("latin-1") if False else pyval) if not isinstance(pyval, str) else [ord(c) for c in pyval]
    t = IS.empty
    for v in vals:
        t = IS.cat(t, IS.unit(z3.IntVal(v)))
    return VSeq(t, kind, py=pyval)


def mk_vsq(terms):
    t = VS.empty
    for v in terms:
        t = VS.cat(t, VS.unit(v))
    return t


def box(v):
    """Value -> z3 Val term."""
    if isinstance(v, VInt):
        return Val.VI(v.t)
    if isinstance(v, VBool):
        return Val.VB(v.t)
    if isinstance(v, VSeq):
        return getattr(Val, _BOX[v.kind][0])(v.t)
    if isinstance(v, VNone):
        return Val.VN
    if isinstance(v, VTuple):
        if getattr(v, "src", None) is not None:
            return v.src
        return Val.VT(mk_vsq([box(x) for x in v.items]))
    if isinstance(v, VList):
        return Val.VT(v.t) if v.kind == "tuple" else Val.VL(v.t)
    if isinstance(v, VAny):
        return v.t
    if isinstance(v, VConst):
        return Val.VO(z3.IntVal(const_id(v.py)))
    if isinstance(v, VRecord) and v.cls == "cenum":
        import zlib
        tag = zlib.crc32(v.fields["enum"].py[2].encode()) & 0xFFFF
        return Val.VT(mk_vsq([Val.VI(z3.IntVal(tag)), Val.VI(v.fields["value"].t)]))
    if isinstance(v, VRecord):
        if getattr(v, "src", None) is not None:
            return v.src            # the record was obtained by unboxing this very term
        fields, _ = RECORDS[v.cls]
        return Val.VT(mk_vsq([box(v.fields[f]) for f in fields]))
    if isinstance(v, VOpt):
        return z3.If(v.isnone, Val.VN, box(v.value))
    if isinstance(v, VRef):
        return Val.VO(z3.IntVal(const_id(("ref", v.ident))))
    raise Unsupported(f"cannot box {v!r}")


_const_ids = {}


def const_id(py):
    key = repr(py)
    if key not in _const_ids:
        _const_ids[key] = len(_const_ids) + 1
    return _const_ids[key]


def unbox(t, ty):
    """z3 Val term + type descriptor -> Value (no type fact assumed; see wt())."""
    ty = parse_type(ty)
    if ty == "int":
        return VInt(Val.ival(t))
    if ty == "bool":
        return VBool(Val.bval(t))
    if ty in _BOX:
        return VSeq(getattr(Val, _BOX[ty][1])(t), ty)
    if ty == "none":
        return VNone()
    if ty == "any":
        return VAny(t)
    if isinstance(ty, tuple) and ty[0] == "tuple":
        r = VTuple([unbox(VS.at(Val.tval(t), z3.IntVal(k)), et) for k, et in enumerate(ty[1:])])
        r.src = t
        return r
    if isinstance(ty, tuple) and ty[0] == "list":
        return VList(Val.lval(t), ty[1])
    if isinstance(ty, tuple) and ty[0] == "tuplelist":
        return VList(Val.tval(t), ty[1], kind="tuple")
    if isinstance(ty, tuple) and ty[0] == "record":
        fields, _ = RECORDS[ty[1]]
        r = VRecord(ty[1], {f: unbox(VS.at(Val.tval(t), z3.IntVal(k)), fty) for k, (f, fty) in enumerate(fields.items())})
        r.src = t
        return r
    if isinstance(ty, tuple) and ty[0] == "opt":
        return VAny(t)
    raise Unsupported(f"cannot unbox to {ty!r}")


def has_ite(t):
    if z3.is_app(t):
        if t.decl().kind() == z3.Z3_OP_ITE:
            return True
        return any(has_ite(c) for c in t.children())
    return False


class Binder:
    """Evaluation under a quantifier binder: terms mention to-be-bound constants, so no fresh names may be introduced for
    them (a name would be a single constant shared by every instance of the quantified formula)."""
    depth = 0

    def __enter__(self):
        Binder.depth += 1

    def __exit__(self, *a):
        Binder.depth -= 1


def pattern_safe(t):
    """(term usable inside a pattern, [defining equalities])"""
    if Binder.depth > 0:
        return t, []
    if has_ite(t) or (z3.is_app(t) and t.decl().kind() != z3.Z3_OP_UNINTERPRETED):
        c = fresh("n", t.sort())
        return c, [c == t]
    return t, []


def is_bytes_fact(t):
    t, defs = pattern_safe(t)
    if defs:
        return z3.And(defs[0], is_bytes_fact(t))
    i = fresh("ib", I)
    return z3.ForAll([i], z3.Implies(z3.And(0 <= i, i < IS.len(t)), z3.And(0 <= IS.at(t, i), IS.at(t, i) < 256)),
                     patterns=[IS.at(t, i)])


def is_chars_fact(t):
    t, defs = pattern_safe(t)
    if defs:
        return z3.And(defs[0], is_chars_fact(t))
    i = fresh("ic", I)
    return z3.ForAll([i], z3.Implies(z3.And(0 <= i, i < IS.len(t)), z3.And(0 <= IS.at(t, i), IS.at(t, i) < 0x110000)),
                     patterns=[IS.at(t, i)])


def wt(t, ty):
    """Well-typedness predicate of a boxed term for a type descriptor (list of z3 facts)."""
    ty = parse_type(ty)
    if ty == "int":
        return [Val.is_VI(t)]
    if ty == "bool":
        return [Val.is_VB(t)]
    if ty in ("bytes", "bytearray"):
        return [Val.is_VBy(t), is_bytes_fact(Val.byval(t))]
    if ty == "str":
        return [Val.is_VStr(t), is_chars_fact(Val.strval(t))]
    if ty in ("ilist", "ituple", "clist"):
        return [Val.is_VIL(t)]
    if ty == "none":
        return [Val.is_VN(t)]
    if ty == "any":
        return []
    if isinstance(ty, tuple) and ty[0] == "tuple":
        out = [Val.is_VT(t), VS.len(Val.tval(t)) == len(ty) - 1]
        for k, et in enumerate(ty[1:]):
            out += wt(VS.at(Val.tval(t), z3.IntVal(k)), et)
        return out
    if isinstance(ty, tuple) and ty[0] in ("list", "tuplelist"):
        sq = Val.lval(t) if ty[0] == "list" else Val.tval(t)
        out = [Val.is_VL(t) if ty[0] == "list" else Val.is_VT(t)]
        out += wt_seq(sq, ty[1])
        return out
    if isinstance(ty, tuple) and ty[0] == "union":
        alts = [z3.And(*wt(t, a)) if wt(t, a) else z3.BoolVal(True) for a in ty[1:]]
        return [z3.Or(*alts)]
    if isinstance(ty, tuple) and ty[0] == "opt":
        w = wt(t, ty[1])
        return [z3.Or(Val.is_VN(t), z3.And(*w) if w else z3.BoolVal(True))]
    if isinstance(ty, tuple) and ty[0] == "record":
        fields, _ = RECORDS[ty[1]]
        out = [Val.is_VT(t), VS.len(Val.tval(t)) == len(fields)]
        for k, (f, fty) in enumerate(fields.items()):
            out += wt(VS.at(Val.tval(t), z3.IntVal(k)), fty)
        return out
    raise Unsupported(f"wt: {ty!r}")


def wt_seq(sq, et):
    """All elements of the VSq term are well-typed for et."""
    k = fresh("wk", I)
    with Binder():
        facts = wt(VS.at(sq, k), et)
    if not facts:
        return []
    return [z3.ForAll([k], z3.Implies(z3.And(0 <= k, k < VS.len(sq)), z3.And(*facts)), patterns=[VS.at(sq, k)])]


def sym_value(name, ty):
    """Fresh symbolic value of a type descriptor -> (Value, [type facts])."""
    ty = parse_type(ty)
    if ty == "int":
        return VInt(fresh(name, I)), []
    if ty == "bool":
        return VBool(fresh(name, B)), []
    if ty in ("bytes", "bytearray"):
        t = fresh(name, smt.ISq)
        return VSeq(t, ty), [is_bytes_fact(t)]
    if ty == "str":
        t = fresh(name, smt.ISq)
        return VSeq(t, ty), [is_chars_fact(t)]
    if ty in ("ilist", "ituple"):
        return VSeq(fresh(name, smt.ISq), ty), []
    if ty == "clist":
        t = fresh(name, smt.ISq)
        return VSeq(t, ty), [is_chars_fact(t)]
    if ty == "none":
        return VNone(), []
    if ty == "any":
        return VAny(fresh(name, Val)), []
    if isinstance(ty, tuple) and ty[0] == "tuple":
        items, facts = [], []
        for k, et in enumerate(ty[1:]):
            v, f = sym_value(f"{name}_{k}", et)
            items.append(v)
            facts += f
        return VTuple(items), facts
    if isinstance(ty, tuple) and ty[0] in ("list", "tuplelist"):
        t = fresh(name, smt.VSq)
        return VList(t, ty[1], kind="list" if ty[0] == "list" else "tuple"), wt_seq(t, ty[1])
    if isinstance(ty, tuple) and ty[0] == "union":
        t = fresh(name, Val)
        return VAny(t), wt(t, ty)
    raise Unsupported(f"sym_value: {ty!r}")


def wt_term(t, ty):
    """Type facts of an unboxed term (int / bool / sequence sorts)."""
    ty = parse_type(ty)
    if ty in ("bytes", "bytearray"):
        return [is_bytes_fact(t)]
    if ty == "str":
        return [is_chars_fact(t)]
    return []
