"""Sidecar contract files: parsed with `ast`, never executed, never imported into /repo.

File format (Python syntax):

    @contract("dissect.cobaltstrike.utils:netbios_decode", props=["C20"])
    def _(data: "bytes", offset: "int"):
        requires(len(data) % 2 == 0)
        ensures(result == nb_dec(data, offset))
        raises(IndexError, when=len(data) % 2 == 1)
        loop(0, index="k", invariant=[...], decreases=...)
        ghost(after="p = d.find(needle, p + 1)", do=[lemma_call(...)])

    @lemma
    def name(args...):
        requires(...); ensures(...); decreases(...)
        <ghost body>

Spec functions live in contracts/spec/*.py as ordinary executable Python decorated with @spec.
"""
import ast
import glob
import os


class LoopSpec:
    def __init__(self):
        self.index = None
        self.invariants = []      # list of ast.expr
        self.decreases = None
        self.locals = {}          # name -> type string (variables first assigned inside the loop but live at its head)
        self.modifies_extra = []  # extra names to havoc


class Ghost:
    def __init__(self, where, text, nth, stmts):
        self.where, self.text, self.nth, self.stmts = where, text, nth, stmts


class Contract:
    def __init__(self):
        self.target = None        # "module:qualname" for real code; None for lemmas
        self.name = None
        self.kind = "contract"    # contract | lemma | external
        self.props = []
        self.params = []          # [(name, type string or None)]
        self.defaults = {}
        self.requires = []
        self.ensures = []
        self.raises = []          # [(exc name, when ast or None)]
        self.modifies = []
        self.loops = {}
        self.ghosts = []
        self.locals = {}
        self.mode = "func"        # func | all | first
        self.returns = None
        self.decreases = None
        self.body = []            # lemma body
        self.covers = []          # list of ast.Dict (concrete example inputs)
        self.assumed = False
        self.terminates = False
        self.yields = None        # element type of yielded values (generators)
        self.file = None
        self.lineno = 0
        self.notes = []
        self.case_splits = []
        self.logicals = {}        # ghost (universally quantified) parameters: name -> type
        self.reveals = []         # opaque definitions this proof needs (e.g. "occ")
        self.pos_independent = []  # [(file parameter, condition)]: the result does not depend on its initial position
        self.result_alias = {}    # object results: field -> parameter expression it aliases
        self.initializes = {}     # constructors: field -> expression over the parameters (post-state)
        self.fuel = 1
        self.timeout = None
        self.slice = None         # (first statement prefix, last statement prefix): only this statement range is verified
        self.pure = False         # deterministic function of its (value) arguments: usable in specs as f(args)

    @property
    def key(self):
        if self.slice is not None:
            return f"{self.target}[{self.name}]"
        return self.target or f"lemma:{self.name}"


_SPEC_CALLS = {"requires", "ensures", "raises", "raises_only", "modifies", "terminates", "loop", "ghost", "local",
               "mode", "returns", "decreases", "cover", "yields", "note", "case_split", "fuel", "timeout", "domain",
               "logical", "initializes", "result_alias", "position_independent", "reveal", "pure"}


def _const(node):
    return ast.literal_eval(node)


def _parse_body(c, body):
    rest = []
    for st in body:
        if isinstance(st, ast.Expr) and isinstance(st.value, ast.Constant) and isinstance(st.value.value, str):
            continue  # docstring
        if isinstance(st, ast.Expr) and isinstance(st.value, ast.Call) and isinstance(st.value.func, ast.Name) \
                and st.value.func.id in _SPEC_CALLS and not rest:
            call = st.value
            f = call.func.id
            kw = {k.arg: k.value for k in call.keywords}
            if f == "requires":
                c.requires += call.args
            elif f == "ensures":
                c.ensures += call.args
            elif f == "raises":
                for a in call.args:
                    c.raises.append((a.id if isinstance(a, ast.Name) else ast.unparse(a), kw.get("when"), kw.get("ensures")))
            elif f == "raises_only":
                for a in call.args:
                    c.raises.append((a.id, None, None))
                c.raises_only_declared = True
            elif f == "modifies":
                c.modifies += call.args
            elif f == "terminates":
                c.terminates = True
            elif f == "pure":
                c.pure = True
            elif f == "loop":
                ls = LoopSpec()
                n = _const(call.args[0])
                if "index" in kw:
                    ls.index = _const(kw["index"])
                if "invariant" in kw:
                    ls.invariants = list(kw["invariant"].elts)
                ls.decreases = kw.get("decreases")
                if "locals" in kw:
                    ls.locals = _const(kw["locals"])
                if "havoc" in kw:
                    ls.modifies_extra = _const(kw["havoc"])
                c.loops[n] = ls
            elif f == "ghost":
                where = "after" if "after" in kw else "before" if "before" in kw else \
                    "loop_head" if "loop_head" in kw else "loop_exit" if "loop_exit" in kw else "entry"
                text = _const(kw[where]) if where in kw else None
                nth = _const(kw["nth"]) if "nth" in kw else None      # None: every occurrence of the statement text
                stmts = kw["do"].elts if "do" in kw else []
                c.ghosts.append(Ghost(where, text, nth, stmts))
            elif f == "local":
                for k, v in kw.items():
                    c.locals[k] = _const(v)
            elif f == "mode":
                c.mode = _const(call.args[0])
            elif f == "returns":
                c.returns = _const(call.args[0])
            elif f == "yields":
                c.yields = _const(call.args[0])
            elif f == "decreases":
                c.decreases = call.args[0]
            elif f == "cover":
                c.covers += call.args
            elif f == "domain":
                c.covers.append(call)
            elif f == "reveal":
                c.reveals += [_const(a) for a in call.args]
            elif f == "position_independent":
                c.pos_independent.append((call.args[0].id, kw.get("when")))
            elif f == "result_alias":
                for k, v in kw.items():
                    c.result_alias[k] = v
            elif f == "initializes":
                for k, v in kw.items():
                    c.initializes[k] = v
            elif f == "logical":
                for k, v in kw.items():
                    c.logicals[k] = _const(v)
            elif f == "note":
                c.notes.append(_const(call.args[0]))
            elif f == "case_split":
                for k, v in kw.items():
                    c.case_splits.append((k, _const(v)))
            elif f == "fuel":
                c.fuel = _const(call.args[0])
            elif f == "timeout":
                c.timeout = _const(call.args[0])
        else:
            rest.append(st)
    c.body = rest


def _params(c, fdef):
    args = fdef.args
    allargs = list(args.posonlyargs) + list(args.args) + list(args.kwonlyargs)
    for a in allargs:
        ty = a.annotation.value if isinstance(a.annotation, ast.Constant) else None
        c.params.append((a.arg, ty))
    if isinstance(fdef.returns, ast.Constant):
        c.returns = fdef.returns.value


def load_file(path):
    out = []
    tree = ast.parse(open(path).read(), filename=path)
    for node in tree.body:
        if not isinstance(node, ast.FunctionDef) or not node.decorator_list:
            continue
        dec = node.decorator_list[0]
        c = Contract()
        c.file, c.lineno = path, node.lineno
        if isinstance(dec, ast.Call) and isinstance(dec.func, ast.Name) and dec.func.id in ("contract", "external"):
            c.kind = dec.func.id
            c.target = _const(dec.args[0])
            for k in dec.keywords:
                if k.arg == "props":
                    c.props = _const(k.value)
                if k.arg == "mode":
                    c.mode = _const(k.value)
                if k.arg == "name":
                    c.name = _const(k.value)
                if k.arg == "slice":
                    c.slice = tuple(_const(k.value))
            c.assumed = c.kind == "external"
            c.name = c.name or c.target
        elif (isinstance(dec, ast.Name) and dec.id == "lemma") or \
                (isinstance(dec, ast.Call) and isinstance(dec.func, ast.Name) and dec.func.id == "lemma"):
            c.kind = "lemma"
            c.name = node.name
            if isinstance(dec, ast.Call):
                for k in dec.keywords:
                    if k.arg == "props":
                        c.props = _const(k.value)
        else:
            continue
        _params(c, node)
        _parse_body(c, node.body)
        out.append(c)
    return out


class ContractDB:
    def __init__(self, root):
        self.root = root
        self.by_target = {}     # "module:qualname" -> [Contract]  (several modes possible)
        self.lemmas = {}
        self.all = []
        for path in sorted(glob.glob(os.path.join(root, "*.py"))) + sorted(glob.glob(os.path.join(root, "external", "*.py"))):
            for c in load_file(path):
                self.all.append(c)
                if c.kind == "lemma":
                    self.lemmas[c.name] = c
                else:
                    self.by_target.setdefault(c.target, []).append(c)
        self.pure = {c.target.split(":")[1]: c for c in self.all if c.kind != "lemma" and c.pure}

    def get(self, target, mode=None):
        cs = [c for c in self.by_target.get(target, []) if c.slice is None]
        if mode is not None:
            cs = [c for c in cs if c.mode == mode] or [c for c in cs if c.mode == "func"]
        return cs[0] if cs else None
