"""Spec functions: executable Python in contracts/spec/*.py, translated to SMT.

Non-recursive functions are inlined.  Recursive functions become uninterpreted z3 functions whose
definition is unfolded at the ground call sites occurring in each VC (fuel 1 by default), never as
a quantified axiom (matching loops).  Inductive facts are proved as lemmas.
"""
import ast
import glob
import os
import z3

from .smt import IS, VS, Val, I, B, ISq, VSq
from .values import (VInt, VBool, VSeq, VNone, VTuple, VList, VAny, VConst, Unsupported, parse_type, box, unbox, fresh)
from .engine import State, ite_val


def sort_of(ty):
    ty = parse_type(ty)
    if ty == "int":
        return I
    if ty == "bool":
        return B
    if ty in ("bytes", "bytearray", "str", "ilist", "ituple", "clist"):
        return ISq
    if isinstance(ty, tuple) and ty[0] in ("list", "tuplelist"):
        return VSq
    return Val


def to_term(eng, st, v, ty):
    ty = parse_type(ty)
    v = eng.deref(st, v)
    if ty == "int":
        return eng.as_int(st, v)
    if ty == "bool":
        return eng.truth(st, v) if not isinstance(v, VBool) else v.t
    if ty in ("bytes", "bytearray", "str", "ilist", "ituple", "clist"):
        if isinstance(v, VSeq):
            return v.t
        if isinstance(v, VAny):
            acc = {"bytes": Val.byval, "bytearray": Val.byval, "str": Val.strval, "ilist": Val.ilval, "ituple": Val.ilval}
            return acc[ty](v.t)
        if isinstance(v, VTuple):
            return eng.as_iseq(st, v).t
        raise Unsupported(f"spec arg {v!r} for {ty}")
    if isinstance(ty, tuple) and ty[0] in ("list", "tuplelist"):
        from .engine import as_vlist
        if not isinstance(v, VList) and as_vlist(v) is not None:
            v = as_vlist(v)
        if isinstance(v, VList):
            return v.t
        if isinstance(v, VAny):
            return Val.lval(v.t) if ty[0] == "list" else Val.tval(v.t)
        from .values import VRef
        if isinstance(v, VRef):
            cell = st.heap.get(v.ident)
            if isinstance(cell, dict) and cell.get("__kind__") == "emptylist":
                return VS.empty
        raise Unsupported(f"spec arg {v!r} for {ty}")
    return box(v)


def from_term(t, ty):
    ty = parse_type(ty)
    if ty == "int":
        return VInt(t)
    if ty == "bool":
        return VBool(t)
    if ty in ("bytes", "bytearray", "str", "ilist", "ituple", "clist"):
        return VSeq(t, ty)
    if isinstance(ty, tuple) and ty[0] in ("list", "tuplelist"):
        return VList(t, ty[1], "list" if ty[0] == "list" else "tuple")
    return unbox(t, ty)


class SpecFn:
    def __init__(self, node, path):
        self.node, self.path = node, path
        self.name = node.name
        a = node.args
        self.params = [(x.arg, x.annotation.value if isinstance(x.annotation, ast.Constant) else "int") for x in a.args]
        self.ret = node.returns.value if isinstance(node.returns, ast.Constant) else "int"
        self.recursive = any(isinstance(n, ast.Call) and isinstance(n.func, ast.Name) and n.func.id == self.name
                             for n in ast.walk(node))
        self.decl = None
        self.opaque = any(isinstance(d, ast.Name) and d.id == "opaque" for d in node.decorator_list)
        # @specfn: kept as an uninterpreted function (usable as a trigger), definition unfolded at ground sites
        self.specfn = any(isinstance(d, ast.Name) and d.id == "specfn" for d in node.decorator_list)


class SpecDB:
    def __init__(self, root):
        self.funcs = {}
        self.engine = None
        self.by_decl = {}
        for path in sorted(glob.glob(os.path.join(root, "*.py"))):
            tree = ast.parse(open(path).read(), filename=path)
            for node in tree.body:
                if isinstance(node, ast.FunctionDef) and any(
                        (isinstance(d, ast.Name) and d.id in ("spec", "opaque", "specfn")) for d in node.decorator_list):
                    self.funcs[node.name] = SpecFn(node, path)
        # mutual recursion: treat every function that (transitively) reaches itself as recursive
        graph = {n: {c.func.id for c in ast.walk(f.node) if isinstance(c, ast.Call) and isinstance(c.func, ast.Name)
                     and c.func.id in self.funcs} for n, f in self.funcs.items()}
        for n in self.funcs:
            seen, todo = set(), list(graph[n])
            while todo:
                x = todo.pop()
                if x in seen:
                    continue
                seen.add(x)
                todo += list(graph[x])
            if n in seen:
                self.funcs[n].recursive = True

    def decl(self, f):
        if f.decl is None:
            f.decl = z3.Function("spec_" + f.name, *[sort_of(t) for _, t in f.params], sort_of(f.ret))
            self.by_decl[f.decl.name()] = f
        return f.decl

    def pure_decl(self, c):
        if getattr(c, "_pure_decl", None) is None:
            for _, ty in c.params:
                if parse_type(ty) not in ("int", "bool", "bytes", "str", "ilist"):
                    raise Unsupported(f"pure() contract {c.key}: parameter type {ty}")
            c._pure_decl = z3.Function("pure_" + c.target.split(":")[1].replace(".", "_"),
                                       *[sort_of(t) for _, t in c.params], sort_of(c.returns))
        return c._pure_decl

    def pure_axiom(self, eng, c):
        """forall args: well-typed and requires and not (any raises-condition) ==> ensures[result := f(args)]"""
        from .values import wt_term
        decl = self.pure_decl(c)
        vars_ = [z3.Const(f"{decl.name()}_{n}", sort_of(ty)) for n, ty in c.params]
        app = decl(*vars_)
        s = State()
        hyps = []
        for v, (n, ty) in zip(vars_, c.params):
            s.env[n] = from_term(v, ty)
            hyps += wt_term(v, ty)
        s.env["result"] = from_term(app, c.returns)
        saved = eng.fr.init_state if eng.fr else None
        if eng.fr:
            eng.fr.init_state = s.fork()
        from .values import Binder
        Binder.depth += 1
        try:
            for r in c.requires:
                hyps.append(eng.truth(s, eng.ev1(r, s)))
            for (exc, when, ens) in c.raises:
                if when is None:
                    raise Unsupported(f"pure() contract {c.key} with an unconditional raises")
                hyps.append(z3.Not(eng.truth(s, eng.ev1(when, s))))
            concl = list(wt_term(app, c.returns))
            for en in c.ensures:
                concl.append(eng.truth(s, eng.ev1(en, s)))
        finally:
            Binder.depth -= 1
            if eng.fr:
                eng.fr.init_state = saved
        return z3.ForAll(vars_, z3.Implies(z3.And(*hyps) if hyps else z3.BoolVal(True), z3.And(*concl)), patterns=[app])

    def apply(self, eng, st, name, args):
        f = self.funcs[name]
        if len(args) != len(f.params):
            raise Unsupported(f"spec {name}: arity")
        if not f.recursive and not f.opaque and not f.specfn:
            return self.body_value(eng, f, [eng.deref(st, a) for a in args], st)
        terms = [to_term(eng, st, a, ty) for a, (_, ty) in zip(args, f.params)]
        return from_term(self.decl(f)(*terms), f.ret)

    def body_value(self, eng, f, argvals, st=None):
        s = State()
        if st is not None:
            s.heap = st.heap
        for (n, ty), v in zip(f.params, argvals):
            # coerce to the declared type (e.g. VAny -> bytes)
            s.env[n] = from_term(to_term(eng, s, v, ty), ty) if not same_shape(v, ty) else v
        body = [b for b in f.node.body if not (isinstance(b, ast.Expr) and isinstance(b.value, ast.Constant))]
        return self.eval_stmts(eng, body, s, f)

    def eval_stmts(self, eng, stmts, s, f):
        if not stmts:
            raise Unsupported(f"spec {f.name}: falls off the end")
        st0, rest = stmts[0], stmts[1:]
        if isinstance(st0, ast.Return):
            v = eng.ev1(st0.value, s)
            return coerce(eng, s, v, f.ret)
        if isinstance(st0, ast.Assign) and len(st0.targets) == 1 and isinstance(st0.targets[0], ast.Name):
            s2 = s.fork()
            s2.env[st0.targets[0].id] = eng.ev1(st0.value, s)
            return self.eval_stmts(eng, rest, s2, f)
        if isinstance(st0, ast.Assign) and len(st0.targets) == 1 and isinstance(st0.targets[0], ast.Tuple):
            v = eng.ev1(st0.value, s)
            if not isinstance(v, VTuple):
                raise Unsupported("spec tuple unpack")
            s2 = s.fork()
            for tgt, x in zip(st0.targets[0].elts, v.items):
                s2.env[tgt.id] = x
            return self.eval_stmts(eng, rest, s2, f)
        if isinstance(st0, ast.If):
            c = eng.truth(s, eng.ev1(st0.test, s))
            a = self.eval_stmts(eng, list(st0.body) + rest, s, f)
            b = self.eval_stmts(eng, list(st0.orelse) + rest, s, f)
            return ite_val(c, a, b)
        if isinstance(st0, ast.Assert):
            return self.eval_stmts(eng, rest, s, f)
        raise Unsupported(f"spec {f.name}: statement {type(st0).__name__}")

    def relevant_definition_axioms(self, eng, formulas):
        """Only the @specfn definitions whose symbol occurs in the VC (closed under the symbols their bodies use):
        dropping axioms can only make a proof harder, never unsound, and keeps unrelated triggers out."""
        allax = self.definition_axioms_named(eng)
        if not allax:
            return []
        names = set()

        def syms(t, acc, seen):
            if t.get_id() in seen:
                return
            seen.add(t.get_id())
            if z3.is_quantifier(t):
                syms(t.body(), acc, seen)
                return
            if z3.is_app(t):
                if t.decl().kind() == z3.Z3_OP_UNINTERPRETED:
                    acc.add(t.decl().name())
                for ch in t.children():
                    syms(ch, acc, seen)
        seen = set()
        for f in formulas:
            syms(f, names, seen)
        chosen, frontier = {}, set(names)
        while frontier:
            n = frontier.pop()
            if n in allax and n not in chosen:
                chosen[n] = allax[n]
                extra = set()
                syms(allax[n], extra, set())
                frontier |= (extra - set(chosen))
        return list(chosen.values())

    def definition_axioms_named(self, eng):
        if getattr(self, "_defax_named", None) is None:
            self.definition_axioms(eng)
        return self._defax_named

    def definition_axioms(self, eng):
        """Quantified definitions (trigger: the application) of the non-recursive @specfn functions."""
        if getattr(self, "_defax", None) is not None:
            return self._defax
        out = []
        self._defax_named = {}
        for f in self.funcs.values():
            if f.specfn and not f.recursive and not f.opaque:
                vars_ = [z3.Const(f"{f.name}_{n}", sort_of(ty)) for n, ty in f.params]
                app = self.decl(f)(*vars_)
                argvals = [from_term(v, ty) for v, (_, ty) in zip(vars_, f.params)]
                from .values import Binder
                with Binder():
                    val = self.body_value(eng, f, argvals)
                    rhs = to_term(eng, State(), val, f.ret)
                ax = z3.ForAll(vars_, app == rhs, patterns=[app])
                out.append(ax)
                self._defax_named[self.decl(f).name()] = ax
        for c in eng.cdb.pure.values():
            ax = self.pure_axiom(eng, c)
            out.append(ax)
            self._defax_named[self.pure_decl(c).name()] = ax
        self._defax = out
        return out

    def definition_instance(self, eng, app):
        """For a ground application f(a...) return the z3 fact f(a...) == body[a...]."""
        f = self.by_decl[app.decl().name()]
        argvals = [from_term(app.arg(k), ty) for k, (_, ty) in enumerate(f.params)]
        val = self.body_value(eng, f, argvals)
        rhs = to_term(eng, State(), val, f.ret)
        return app == rhs

    def unfold(self, eng, formulas, fuel=1):
        """Definition instances for all ground applications of recursive spec functions in formulas."""
        facts, seen = [], set()
        frontier = list(formulas)
        for _ in range(fuel):
            apps = {}
            for fm in frontier:
                collect_apps(fm, self.by_decl, apps)
            new = []
            for aid, app in apps.items():
                if aid in seen:
                    continue
                seen.add(aid)
                f = self.by_decl[app.decl().name()]
                if f.opaque or (f.specfn and not f.recursive):
                    continue
                new.append(self.definition_instance(eng, app))
            facts += new
            frontier = new
            if not new:
                break
        return facts


def same_shape(v, ty):
    ty = parse_type(ty)
    if ty == "int":
        return isinstance(v, VInt)
    if ty == "bool":
        return isinstance(v, VBool)
    if ty in ("bytes", "bytearray", "str", "ilist", "ituple", "clist"):
        return isinstance(v, VSeq)
    if isinstance(ty, tuple) and ty[0] in ("list", "tuplelist"):
        return isinstance(v, VList)
    if ty == "any":
        return isinstance(v, VAny)
    if isinstance(ty, tuple) and ty[0] == "tuple":
        return isinstance(v, VTuple)
    return False


def coerce(eng, s, v, ty):
    ty = parse_type(ty)
    v = eng.deref(s, v)
    if same_shape(v, ty):
        if isinstance(v, VSeq) and v.kind != ty:
            return VSeq(v.t, ty)
        return v
    return from_term(to_term(eng, s, v, ty), ty)


def collect_apps(t, by_decl, out, bound_depth=0):
    """Ground applications (no bound variables) of spec function declarations."""
    seen = set()

    def has_var(x):
        if z3.is_var(x):
            return True
        if z3.is_app(x):
            return any(has_var(c) for c in x.children())
        if z3.is_quantifier(x):
            return True
        return False

    def walk(x):
        if x.get_id() in seen:
            return
        seen.add(x.get_id())
        if z3.is_quantifier(x):
            walk(x.body())
            return
        if z3.is_app(x):
            if x.decl().kind() == z3.Z3_OP_UNINTERPRETED and x.decl().name() in by_decl and x.num_args() > 0:
                if not has_var(x):
                    out[x.get_id()] = x
            for c in x.children():
                walk(c)
    walk(t)
