"""SMT prelude of pyvc: axiomatised sequence sorts, boxed values, byte xor.

Encoding decisions (DESIGN.md 2.3): sequences are an uninterpreted sort with Dafny-prelude
style axioms and explicit E-matching patterns; the solver runs with auto_config=false and
smt.mbqi=false, so a failed proof comes back `unknown (incomplete quantifiers)` at once.
"""
import z3

I = z3.IntSort()
B = z3.BoolSort()
FA = z3.ForAll

ISq = z3.DeclareSort("ISq")   # sequences of Int  (bytes, bytearray, str as code points, list[int])
VSq = z3.DeclareSort("VSq")   # sequences of boxed values

_Val = z3.Datatype("Val")
_Val.declare("VI", ("ival", I))
_Val.declare("VB", ("bval", B))
_Val.declare("VBy", ("byval", ISq))    # bytes
_Val.declare("VStr", ("strval", ISq))  # str
_Val.declare("VIL", ("ilval", ISq))    # list[int]
_Val.declare("VN")
_Val.declare("VT", ("tval", VSq))      # tuple
_Val.declare("VL", ("lval", VSq))      # list
_Val.declare("VO", ("oval", I))        # opaque object (callables, enum members...) by identity
Val = _Val.create()


pymod = z3.Function("pymod", I, I, I)    # a % b for a symbolic divisor b > 0 (kept out of z3's non-linear arithmetic)
pydiv = z3.Function("pydiv", I, I, I)    # a // b for a symbolic divisor b > 0


class SeqTheory:
    """Functions and axioms of one sequence sort."""

    def __init__(self, sort, elem, tag):
        self.sort, self.elem, self.tag = sort, elem, tag
        Q, E = sort, elem
        f = lambda n, *s: z3.Function(f"{n}_{tag}", *s)
        self.len = f("len", Q, I)
        self.at = f("at", Q, I, E)
        self.empty = z3.Const(f"empty_{tag}", Q)
        self.unit = f("unit", E, Q)
        self.cat = f("cat", Q, Q, Q)
        self.sl = f("sl", Q, I, I, Q)       # sl(s,a,b) with 0<=a<=b<=len(s)
        self.eq = f("eq", Q, Q, B)
        self.upd = f("upd", Q, I, E, Q)
        self.rev = f("rev", Q, Q)
        self.rep = f("rep", Q, I, Q)        # s * n
        self.axioms = self._axioms()

    def _axioms(self):
        Q, E = self.sort, self.elem
        ln, at, unit, cat, sl, eq, upd, rev, rep = (self.len, self.at, self.unit, self.cat, self.sl, self.eq,
                                                    self.upd, self.rev, self.rep)
        s, t = z3.Consts(f"s_{self.tag} t_{self.tag}", Q)
        i, a, b, n = z3.Ints("i a b n")
        x = z3.Const(f"x_{self.tag}", E)
        A = []
        A.append(FA([s], ln(s) >= 0, patterns=[ln(s)]))
        A.append(ln(self.empty) == 0)
        A.append(FA([s], z3.Implies(ln(s) == 0, s == self.empty), patterns=[ln(s)]))
        A.append(FA([x], z3.And(ln(unit(x)) == 1, at(unit(x), 0) == x), patterns=[unit(x)]))
        A.append(FA([s, t], ln(cat(s, t)) == ln(s) + ln(t), patterns=[cat(s, t)]))
        A.append(FA([s, t, i], at(cat(s, t), i) == z3.If(i < ln(s), at(s, i), at(t, i - ln(s))),
                    patterns=[at(cat(s, t), i)]))
        import os
        PART = not os.environ.get("PYVC_NOPART")
        # elements of cat seen from the parts (needed when a fact is stated on a part)
        if PART: A.append(FA([s, t, i], z3.Implies(z3.And(0 <= i, i < ln(s)), at(cat(s, t), i) == at(s, i)),
                    patterns=[z3.MultiPattern(cat(s, t), at(s, i))]))
        if PART: A.append(FA([s, t, i], z3.Implies(z3.And(0 <= i, i < ln(t)), at(cat(s, t), i + ln(s)) == at(t, i)),
                    patterns=[z3.MultiPattern(cat(s, t), at(t, i))]))
        ok = lambda: z3.And(0 <= a, a <= b, b <= ln(s))
        A.append(FA([s, a, b], z3.Implies(ok(), ln(sl(s, a, b)) == b - a), patterns=[sl(s, a, b)]))
        A.append(FA([s, a, b, i], z3.Implies(z3.And(ok(), 0 <= i, i < b - a), at(sl(s, a, b), i) == at(s, a + i)),
                    patterns=[at(sl(s, a, b), i)]))
        # an element of s seen through a slice that covers it
        if PART: A.append(FA([s, a, b, i], z3.Implies(z3.And(ok(), a <= i, i < b), at(sl(s, a, b), i - a) == at(s, i)),
                    patterns=[z3.MultiPattern(sl(s, a, b), at(s, i))]))
        A.append(FA([s, t], eq(s, t) == z3.And(ln(s) == ln(t),
                                               FA([i], z3.Implies(z3.And(0 <= i, i < ln(s)), at(s, i) == at(t, i)),
                                                  patterns=[at(s, i)], )),
                    patterns=[eq(s, t)]))
        A.append(FA([s, t], z3.Implies(eq(s, t), s == t), patterns=[eq(s, t)]))
        A.append(FA([s, i, x], z3.Implies(z3.And(0 <= i, i < ln(s)), ln(upd(s, i, x)) == ln(s)),
                    patterns=[upd(s, i, x)]))
        A.append(FA([s, i, x, a], z3.Implies(z3.And(0 <= i, i < ln(s), 0 <= a, a < ln(s)),
                                             at(upd(s, i, x), a) == z3.If(a == i, x, at(s, a))),
                    patterns=[at(upd(s, i, x), a)]))
        A.append(FA([s], ln(rev(s)) == ln(s), patterns=[rev(s)]))
        A.append(FA([s, i], z3.Implies(z3.And(0 <= i, i < ln(s)), at(rev(s), i) == at(s, ln(s) - 1 - i)),
                    patterns=[at(rev(s), i)]))
        A.append(FA([s, n], z3.Implies(n >= 0, ln(rep(s, n)) == ln(s) * n), patterns=[rep(s, n)]))
        A.append(FA([s, n], z3.Implies(n <= 0, rep(s, n) == self.empty), patterns=[rep(s, n)]))
        A.append(FA([s, n, i], z3.Implies(z3.And(0 <= i, i < ln(s) * n, ln(s) > 0),
                                          at(rep(s, n), i) == at(s, pymod(i, ln(s)))),
                    patterns=[at(rep(s, n), i)]))
        return A

    def derived(self):
        """Consequences of the base axioms (each is proved from them by `prove_derived`, a ground obligation)."""
        Q, E = self.sort, self.elem
        ln, at, unit, cat, sl, eq = self.len, self.at, self.unit, self.cat, self.sl, self.eq
        s, t = z3.Consts(f"s_{self.tag} t_{self.tag}", Q)
        a, b, c, d = z3.Ints("a b c d")
        D = {}
        D["slice-all"] = FA([s, b], z3.Implies(b == ln(s), sl(s, 0, b) == s), patterns=[sl(s, 0, b)])
        D["slice-empty"] = FA([s, a], z3.Implies(z3.And(0 <= a, a <= ln(s)), sl(s, a, a) == self.empty), patterns=[sl(s, a, a)])
        D["slice-of-slice"] = FA([s, a, b, c, d], z3.Implies(z3.And(0 <= a, a <= b, b <= ln(s), 0 <= c, c <= d, d <= b - a),
                                                          sl(sl(s, a, b), c, d) == sl(s, a + c, a + d)),
                                 patterns=[sl(sl(s, a, b), c, d)])
        D["cat-empty-right"] = FA([s], cat(s, self.empty) == s, patterns=[cat(s, self.empty)])
        D["cat-empty-left"] = FA([s], cat(self.empty, s) == s, patterns=[cat(self.empty, s)])
        D["slice-cat-left"] = FA([s, t, b], z3.Implies(b == ln(s), sl(cat(s, t), 0, b) == s), patterns=[sl(cat(s, t), 0, b)])
        D["slice-cat-right"] = FA([s, t, a, b], z3.Implies(z3.And(a == ln(s), b == ln(s) + ln(t)), sl(cat(s, t), a, b) == t),
                                  patterns=[sl(cat(s, t), a, b)])
        return D

    def prove_derived(self):
        """-> [(name, result, seconds)]: each derived axiom proved from the base axioms via extensionality."""
        import time
        Q = self.sort
        ln, at, unit, cat, sl, eq = self.len, self.at, self.unit, self.cat, self.sl, self.eq
        s, t = z3.Consts(f"ps_{self.tag} pt_{self.tag}", Q)
        a, b, c, d = z3.Ints("pa pb pc pd")
        goals = {
            "slice-all": eq(sl(s, 0, ln(s)), s),
            "slice-empty": z3.Implies(z3.And(0 <= a, a <= ln(s)), eq(sl(s, a, a), self.empty)),
            "slice-of-slice": z3.Implies(z3.And(0 <= a, a <= b, b <= ln(s), 0 <= c, c <= d, d <= b - a),
                                         eq(sl(sl(s, a, b), c, d), sl(s, a + c, a + d))),
            "cat-empty-right": eq(cat(s, self.empty), s),
            "cat-empty-left": eq(cat(self.empty, s), s),
            "slice-cat-left": eq(sl(cat(s, t), 0, ln(s)), s),
            "slice-cat-right": eq(sl(cat(s, t), ln(s), ln(s) + ln(t)), t),
        }
        out = []
        for name, g in goals.items():
            sv = new_solver(10000)
            for ax in self.axioms:
                sv.add(ax)
            sv.add(z3.Not(g))
            t0 = time.time()
            r = sv.check()
            out.append((f"{self.tag}:{name}", str(r), time.time() - t0))
        return out


IS = SeqTheory(ISq, I, "i")
VS = SeqTheory(VSq, Val, "v")

# byte-wise xor as an uninterpreted function; every axiom below is proved in the theory of
# 8-bit vectors by `prove_bx_axioms` (reported as ground obligations), so none is assumed.
bx = z3.Function("bx", I, I, I)


def _isb(v):
    return z3.And(0 <= v, v < 256)


def bx_axioms():
    a, b, c = z3.Ints("a b c")
    return [
        FA([a, b], z3.Implies(z3.And(_isb(a), _isb(b)), _isb(bx(a, b))), patterns=[bx(a, b)]),
        FA([a, b], z3.Implies(z3.And(_isb(a), _isb(b)), bx(bx(a, b), b) == a), patterns=[bx(bx(a, b), b)]),
        FA([a, b], z3.Implies(z3.And(_isb(a), _isb(b)), bx(b, bx(a, b)) == a), patterns=[bx(b, bx(a, b))]),
        FA([a, b], z3.Implies(z3.And(_isb(a), _isb(b)), bx(a, b) == bx(b, a)), patterns=[bx(a, b)]),
        FA([a], z3.Implies(_isb(a), z3.And(bx(a, 0) == a, bx(0, a) == a)), patterns=[bx(a, 0)]),
        FA([a], z3.Implies(_isb(a), bx(0, a) == a), patterns=[bx(0, a)]),
        FA([a], z3.Implies(_isb(a), bx(a, a) == 0), patterns=[bx(a, a)]),
        FA([a, b, c], z3.Implies(z3.And(_isb(a), _isb(b), _isb(c)), bx(bx(a, b), c) == bx(a, bx(b, c))),
           patterns=[bx(bx(a, b), c)]),
        FA([a, b], z3.Implies(z3.And(_isb(a), _isb(b), bx(a, b) == 0), a == b), patterns=[bx(a, b)]),
    ]


def prove_bx_axioms():
    """Each bx axiom restated over BitVec(8) and proved by z3's bit-vector solver.
    Returns [(name, smt-result-string, seconds)]."""
    import time
    x, y, z = z3.BitVecs("x y z", 8)
    goals = {
        "bx-range": z3.ULT(z3.ZeroExt(8, x ^ y), z3.BitVecVal(256, 16)),
        "bx-involutive-right": (x ^ y) ^ y == x,
        "bx-involutive-left": y ^ (x ^ y) == x,
        "bx-commutative": x ^ y == y ^ x,
        "bx-zero": z3.And(x ^ 0 == x, 0 ^ x == x),
        "bx-self": x ^ x == 0,
        "bx-associative": (x ^ y) ^ z == x ^ (y ^ z),
        "bx-zero-implies-equal": z3.Implies(x ^ y == 0, x == y),
    }
    out = []
    for name, g in goals.items():
        s = z3.Solver()
        s.add(z3.Not(g))
        t0 = time.time()
        r = s.check()
        out.append((name, str(r), time.time() - t0))
    return out


def bx_const(a, b):
    """bx on terms; folds Python-int constants."""
    if z3.is_int_value(a) and z3.is_int_value(b):
        return z3.IntVal(a.as_long() ^ b.as_long())
    return bx(a, b)


# uninterpreted library functions (axioms added where used, see builtins in engine.py)
le_val = z3.Function("le_val", ISq, I)            # int.from_bytes(b, "little")
be_val = z3.Function("be_val", ISq, I)            # int.from_bytes(b, "big")
le_bytes = z3.Function("le_bytes", I, I, ISq)      # int.to_bytes(v, n, "little")
be_bytes = z3.Function("be_bytes", I, I, ISq)
fits_bytes = z3.Function("fits_bytes", I, I, B)     # 0 <= v < 256**n
bigxor = z3.Function("bigxor", I, I, I)            # ^ on non-negative ints
fits_signed = z3.Function("fits_signed", I, I, B)    # -(256**n)/2 <= v < (256**n)/2
FROM_BYTES = {("little", False): le_val, ("big", False): be_val,
              ("little", True): z3.Function("le_sval", ISq, I), ("big", True): z3.Function("be_sval", ISq, I)}
TO_BYTES = {("little", False): le_bytes, ("big", False): be_bytes,
            ("little", True): z3.Function("le_sbytes", I, I, ISq), ("big", True): z3.Function("be_sbytes", I, I, ISq)}
xorseq = z3.Function("xorseq", ISq, ISq, ISq)      # point-wise xor of equal-length byte strings
sha256 = z3.Function("sha256", ISq, ISq)
hmac256 = z3.Function("hmac256", ISq, ISq, ISq)
aes_enc = z3.Function("aes_cbc_enc", ISq, ISq, ISq, ISq)   # key, iv, data
aes_dec = z3.Function("aes_cbc_dec", ISq, ISq, ISq, ISq)
rsa_ok = z3.Function("rsa_ok", Val, ISq, B)        # PKCS#1 v1.5 decryption with this private key succeeds
rsa_pt = z3.Function("rsa_pt", Val, ISq, ISq)      # ... and yields this plaintext
rsa_k = z3.Function("rsa_k", Val, I)               # modulus size in bytes
keypair = z3.Function("keypair", Val, Val, B)      # (public, private) belong together
xview = z3.Function("xview", ISq, I, ISq)          # decoded payload of the XorEncoded container at offset off
lower_c = z3.Function("lower_c", I, I)
upper_c = z3.Function("upper_c", I, I)
seq_lower = z3.Function("seq_lower", ISq, ISq)
seq_upper = z3.Function("seq_upper", ISq, ISq)
find_ = z3.Function("find", ISq, ISq, I, I)        # s.find(sub, start)
occ = z3.Function("occ", ISq, ISq, I, B)            # t occurs in s at offset o


REVEALABLE = {}


seeded_bits = z3.Function("seeded_bits", I, I, I, I)   # k-th random.getrandbits(n) after random.seed(s)
any_item = z3.Function("any_item", Val, Val, Val)    # v[k] for a dynamically typed v
int16 = z3.Function("int16", ISq, I)         # int(s, 16)
int16_ok = z3.Function("int16_ok", ISq, B)   # int(s, 16) does not raise
hexdigit = z3.Function("hexdigit", I, I)     # value of a hexadecimal digit character, -1 otherwise
rng = z3.Function("rng", I, I)          # the i-th value drawn from random.getrandbits(32) (any stream)
fill = z3.Function("fill", I, I, ISq)   # fill(v, n): n copies of v  (b"X" * n)


b64e = z3.Function("b64e", ISq, ISq)      # base64.b64encode
b64d = z3.Function("b64d", ISq, ISq)      # base64.b64decode (non-validating), defined where b64_ok
b64ue = z3.Function("b64ue", ISq, ISq)    # base64.urlsafe_b64encode
b64ud = z3.Function("b64ud", ISq, ISq)    # base64.urlsafe_b64decode
b64_ok = z3.Function("b64_ok", ISq, B)
b64u_ok = z3.Function("b64u_ok", ISq, B)
PAD2 = None


def pad2():
    return IS.cat(IS.cat(IS.empty, IS.unit(z3.IntVal(61))), IS.unit(z3.IntVal(61)))


def lib_axioms():
    s, t, k = z3.Consts("s_l t_l k_l", ISq)
    i, n, v, w = z3.Ints("i_l n_l v_l w_l")
    ln, at = IS.len, IS.at
    isbytes = lambda q: FA([i], z3.Implies(z3.And(0 <= i, i < ln(q)), _isb(at(q, i))), patterns=[at(q, i)])
    A = []
    # ASSUMED (base64 module, C code in binascii; cross-checked against an RFC 4648 implementation in bounded/C04.py):
    # results are byte strings; decoding an encoding followed by two surplus '=' returns the original bytes
    for f in (b64e, b64d, b64ue, b64ud):
        A.append(FA([s], isbytes(f(s)), patterns=[f(s)]))
    for enc, dec, ok in ((b64e, b64d, b64_ok), (b64ue, b64ud, b64u_ok)):
        A.append(FA([s], z3.And(ok(IS.cat(enc(s), pad2())), dec(IS.cat(enc(s), pad2())) == s), patterns=[enc(s)]))
    # ASSUMED: int(s, 16) of exactly two hexadecimal digits (other accepted spellings - sign, blanks, underscore - are left open)
    A.append(FA([v], hexdigit(v) == z3.If(z3.And(48 <= v, v <= 57), v - 48, z3.If(z3.And(97 <= v, v <= 102), v - 87,
                                          z3.If(z3.And(65 <= v, v <= 70), v - 55, -1))), patterns=[hexdigit(v)]))
    A.append(FA([s], z3.Implies(z3.And(ln(s) == 2, hexdigit(at(s, 0)) >= 0, hexdigit(at(s, 1)) >= 0),
                                z3.And(int16_ok(s), int16(s) == 16 * hexdigit(at(s, 0)) + hexdigit(at(s, 1)))), patterns=[int16(s)]))
    A.append(FA([i], z3.And(0 <= rng(i), rng(i) < 2 ** 32), patterns=[rng(i)]))
    A.append(FA([v, n], ln(fill(v, n)) == z3.If(n > 0, n, 0), patterns=[fill(v, n)]))
    A.append(FA([v, n, i], z3.Implies(z3.And(0 <= i, i < n), at(fill(v, n), i) == v), patterns=[at(fill(v, n), i)]))
    # int.to_bytes(int.from_bytes(a) ^ int.from_bytes(b), n) for equal-length byte strings of length n
    # is the point-wise xor (assumed law of CPython ints, cross-checked in bounded/axioms.py)
    A.append(FA([s, t, n], z3.Implies(z3.And(ln(s) == n, ln(t) == n),
                                      le_bytes(bigxor(le_val(s), le_val(t)), n) == xorseq(s, t)),
                patterns=[le_bytes(bigxor(le_val(s), le_val(t)), n)]))
    A.append(FA([s, t, n], z3.Implies(z3.And(ln(s) == n, ln(t) == n), fits_bytes(bigxor(le_val(s), le_val(t)), n)),
                patterns=[fits_bytes(bigxor(le_val(s), le_val(t)), n)]))
    A.append(FA([s, t], z3.Implies(ln(s) == ln(t), ln(xorseq(s, t)) == ln(s)), patterns=[xorseq(s, t)]))
    A.append(FA([s, t, i], z3.Implies(z3.And(ln(s) == ln(t), 0 <= i, i < ln(s)),
                                      at(xorseq(s, t), i) == bx(at(s, i), at(t, i))),
                patterns=[at(xorseq(s, t), i)]))
    # int.to_bytes / int.from_bytes are mutually inverse (assumed laws of CPython ints, cross-checked)
    for key in FROM_BYTES:
        fr, to = FROM_BYTES[key], TO_BYTES[key]
        fits = fits_signed if key[1] else fits_bytes
        A.append(FA([v, n], z3.Implies(z3.And(n >= 0, fits(v, n)), z3.And(ln(to(v, n)) == n, fr(to(v, n)) == v)),
                    patterns=[to(v, n)]))
        A.append(FA([s], z3.And(fits(fr(s), ln(s)), to(fr(s), ln(s)) == s), patterns=[fr(s)]))
    A.append(FA([v, n], z3.Implies(fits_bytes(v, n), v >= 0), patterns=[fits_bytes(v, n)]))
    for wd in (0, 1, 2, 3, 4, 8, 16):
        A.append(FA([v], fits_bytes(v, wd) == z3.And(0 <= v, v < 256 ** wd), patterns=[fits_bytes(v, wd)]))
        A.append(FA([v], fits_signed(v, wd) == (z3.And(-(256 ** wd // 2) <= v, v < 256 ** wd // 2) if wd else v == 0),
                    patterns=[fits_signed(v, wd)]))
    # decoded view of a XorEncoded container (definition; the XorEncodedFile contracts are proved against
    # the spec functions xplain_at / xkey_at, lemma xview_is_xplain links the two)
    o2 = z3.Int("off_l")
    A.append(FA([s, o2], ln(xview(s, o2)) == z3.If(ln(s) - (o2 + 8) > 0, ln(s) - (o2 + 8), 0), patterns=[xview(s, o2)]))
    A.append(FA([s, o2, i], z3.Implies(z3.And(0 <= i, i < ln(xview(s, o2))),
                                       z3.And(at(xview(s, o2), i) == bx(at(s, o2 + 8 + i), z3.If(i < 4, at(s, o2 + i), at(s, o2 + 4 + i))),
                                              0 <= at(xview(s, o2), i), at(xview(s, o2), i) < 256)),
                patterns=[at(xview(s, o2), i)]))
    # fixed-width value laws of int.from_bytes / int.to_bytes (unsigned)
    for wd in (1, 2, 3, 4, 8):
        for bo, fr, to in (("little", le_val, le_bytes), ("big", be_val, be_bytes)):
            pw = lambda kk: (256 ** kk) if bo == "little" else (256 ** (wd - 1 - kk))
            val = sum((at(s, kk) * pw(kk) for kk in range(wd)), z3.IntVal(0))
            A.append(FA([s], z3.Implies(ln(s) == wd, fr(s) == val), patterns=[fr(s)]))
            conj = [ln(to(v, wd)) == wd]
            for kk in range(wd):
                p_ = kk if bo == "little" else wd - 1 - kk
                conj.append(at(to(v, wd), kk) == (v / (256 ** p_)) % 256)
            A.append(FA([v], z3.Implies(z3.And(0 <= v, v < 256 ** wd), z3.And(*conj)), patterns=[to(v, wd)]))
    A.append(FA([s], z3.Implies(ln(s) == 0, z3.And(le_val(s) == 0, be_val(s) == 0)), patterns=[le_val(s)]))
    # case maps
    A.append(FA([v], lower_c(v) == z3.If(z3.And(65 <= v, v <= 90), v + 32, v), patterns=[lower_c(v)]))
    A.append(FA([v], upper_c(v) == z3.If(z3.And(97 <= v, v <= 122), v - 32, v), patterns=[upper_c(v)]))
    for f, c in ((seq_lower, lower_c), (seq_upper, upper_c)):
        A.append(FA([s], ln(f(s)) == ln(s), patterns=[f(s)]))
        A.append(FA([s, i], z3.Implies(z3.And(0 <= i, i < ln(s)), at(f(s), i) == c(at(s, i))),
                    patterns=[at(f(s), i)]))
    # digests
    A.append(FA([s], ln(sha256(s)) == 32, patterns=[sha256(s)]))
    A.append(FA([s, i], z3.Implies(z3.And(0 <= i, i < 32), _isb(at(sha256(s), i))), patterns=[at(sha256(s), i)]))
    A.append(FA([s, t], ln(hmac256(s, t)) == 32, patterns=[hmac256(s, t)]))
    A.append(FA([s, t, i], z3.Implies(z3.And(0 <= i, i < 32), _isb(at(hmac256(s, t), i))),
                patterns=[at(hmac256(s, t), i)]))
    # AES-CBC on block aligned data: length preserving, decrypt inverts encrypt
    A.append(FA([k, s, t], z3.Implies(ln(t) % 16 == 0, ln(aes_enc(k, s, t)) == ln(t)), patterns=[aes_enc(k, s, t)]))
    A.append(FA([k, s, t], z3.Implies(ln(t) % 16 == 0, ln(aes_dec(k, s, t)) == ln(t)), patterns=[aes_dec(k, s, t)]))
    A.append(FA([k, s, t], z3.Implies(ln(t) % 16 == 0, aes_dec(k, s, aes_enc(k, s, t)) == t),
                patterns=[aes_enc(k, s, t)]))
    A.append(FA([k, s, t, i], z3.Implies(z3.And(0 <= i, i < ln(aes_enc(k, s, t))), _isb(at(aes_enc(k, s, t), i))),
                patterns=[at(aes_enc(k, s, t), i)]))
    A.append(FA([k, s, t, i], z3.Implies(z3.And(0 <= i, i < ln(aes_dec(k, s, t))), _isb(at(aes_dec(k, s, t), i))),
                patterns=[at(aes_dec(k, s, t), i)]))
    # occ(s, t, o): t occurs in s at offset o (element-wise definition, no slices in triggers)
    o = z3.Int("o_l")
    # definition of occ: OPAQUE by default (only its consequences below are global); a contract/lemma that needs the
    # element-wise definition says reveal("occ")
    REVEALABLE["occ"] = [FA([s, t, o], occ(s, t, o) == z3.And(0 <= o, o + ln(t) <= ln(s),
                                                              FA([i], z3.Implies(z3.And(0 <= i, i < ln(t)), at(s, o + i) == at(t, i)),
                                                                 patterns=[at(t, i)])),
                            patterns=[occ(s, t, o)])]
    A.append(FA([s, t, o], z3.Implies(occ(s, t, o), z3.And(0 <= o, o + ln(t) <= ln(s))), patterns=[occ(s, t, o)]))
    # bytes.find(sub, start): least occurrence >= start, -1 if none (sub non-empty, 0 <= start)
    r = find_(s, t, n)
    A.append(FA([s, t, n], z3.Implies(z3.And(ln(t) >= 1, n >= 0), z3.Or(r == -1, z3.And(r >= n, occ(s, t, r)))),
                patterns=[find_(s, t, n)]))
    A.append(FA([s, t, n, v], z3.Implies(z3.And(ln(t) >= 1, n >= 0, n <= v, z3.Or(r == -1, v < r)),
                                         z3.Not(occ(s, t, v))),
                patterns=[z3.MultiPattern(find_(s, t, n), occ(s, t, v))]))
    return A


def arith_axioms():
    """Facts about // and % with a symbolic positive divisor (theorems of integer arithmetic); the product
    b * (a // b) is linked to a at each use site by the executor."""
    a, b = z3.Ints("a_m b_m")
    return [
        FA([a, b], z3.Implies(z3.And(0 <= a, a < b), z3.And(pymod(a, b) == a, pydiv(a, b) == 0)), patterns=[pymod(a, b)]),
        FA([a, b], z3.Implies(b > 0, z3.And(0 <= pymod(a, b), pymod(a, b) < b)), patterns=[pymod(a, b)]),
        FA([a], z3.And(pymod(a, 1) == 0, pydiv(a, 1) == a), patterns=[pymod(a, 1)]),
    ]


def all_axioms():
    return IS.axioms + list(IS.derived().values()) + VS.axioms + list(VS.derived().values()) + bx_axioms() + \
        lib_axioms() + arith_axioms()


def new_solver(timeout_ms):
    sv = z3.Solver()
    sv.set("timeout", timeout_ms)
    sv.set("auto_config", False)
    sv.set("smt.mbqi", False)
    return sv
