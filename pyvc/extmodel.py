"""Models of external library calls (assumed contracts; each cross-checked in bounded/axioms.py)."""
import z3
from . import smt
from .smt import IS, VS, Val, I, B, ISq, VSq
from .values import VInt, VBool, VSeq, VNone, VTuple, VList, VAny, VConst, VRef, Unsupported, fresh, is_bytes_fact
from .engine import lit_seq, _ids


def ext_call(eng, st, name, args, kwargs, node):
    d = lambda v: eng.deref(st, v)
    if name in ("io.BytesIO", "io:BytesIO"):
        data = d(args[0]) if args else lit_seq(b"", "bytes")
        ident = f"file!bytesio!{next(_ids)}"
        st.heap[ident] = {"__kind__": "file", "content": VSeq(data.t, "bytes"), "pos": VInt(0), "fkind": "bytesio"}
        eng.fr.assumed_used.add("io.BytesIO (file model)")
        return [(st, VRef(ident, "file"))]
    raise Unsupported(f"external call {name}")
