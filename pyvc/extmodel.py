"""Models of external library calls (assumed contracts; each cross-checked in bounded/axioms.py)."""
import z3
from . import smt
from .smt import IS, VS, Val, I, B, ISq, VSq
from .values import VInt, VBool, VSeq, VNone, VTuple, VList, VAny, VConst, VRef, Unsupported, fresh, is_bytes_fact, is_chars_fact
from .engine import lit_seq, _ids


def ext_call(eng, st, name, args, kwargs, node):
    d = lambda v: eng.deref(st, v)
    if name in ("io.BytesIO", "io:BytesIO"):
        data = eng.as_iseq(st, args[0], node) if args else lit_seq(b"", "bytes")
        ident = f"file!bytesio!{next(_ids)}"
        st.heap[ident] = {"__kind__": "file", "content": VSeq(data.t, "bytes"), "pos": VInt(0), "fkind": "bytesio"}
        eng.fr.assumed_used.add("io.BytesIO (file model)")
        return [(st, VRef(ident, "file"))]
    if name == "Crypto.Cipher:AES.new":
        key = eng.as_iseq(st, args[0], node)
        iv = kwargs.get("iv", args[2] if len(args) > 2 else None)
        iv = eng.as_iseq(st, iv, node)
        klen = IS.len(key.t)
        eng.implicit_error(st, z3.And(z3.Or(klen == 16, klen == 24, klen == 32), IS.len(iv.t) == 16), "ValueError", node,
                           "AES.new-key-or-iv-length")
        eng.fr.assumed_used.add("AES-CBC (pycryptodome): uninterpreted, length preserving, decrypt inverts encrypt on "
                                "block-aligned data, ValueError on unaligned data / bad key or IV length")
        return [(st, VConst(("aes", key, iv), "aescipher"))]
    if name in ("io.BufferedReader", "io:BufferedReader"):
        f = args[0]
        if isinstance(f, VRef) and isinstance(st.heap.get(f.ident), dict) and st.heap[f.ident].get("__kind__") == "file":
            eng.fr.assumed_used.add("io.BufferedReader over BytesIO: same content/position, peek(n) returns a non-empty prefix of the rest unless at EOF")
            return [(st, f)]
        raise Unsupported("BufferedReader over a non-file")
    if name in ("urllib.parse:urlparse",):
        u = eng.as_iseq(st, args[0], node)
        ok = z3.Function("url_ok", ISq, B)(u.t)
        eng.implicit_error(st, ok, "ValueError", node, "urlparse-invalid")
        eng.fr.assumed_used.add("urllib.parse.urlparse(bytes): .path / .query are functions of the argument (url_path, url_query); "
                                "ValueError for an invalid netloc")
        from .values import VRecord
        return [(st, VRecord("ParseResult", {"path": VSeq(z3.Function("url_path", ISq, ISq)(u.t), "bytes"),
                                              "query": VSeq(z3.Function("url_query", ISq, ISq)(u.t), "bytes")}))]
    if name in ("urllib.parse:parse_qsl",):
        q = eng.as_iseq(st, args[0], node)
        eng.fr.assumed_used.add("urllib.parse.parse_qsl: a function of the query string; with encoding='latin-1' every decoded "
                                "character is < 256")
        from .values import VList, wt_seq
        et = "str" if q.kind == "str" else "bytes"
        L = z3.Function("qsl_" + et, ISq, VSq)(q.t)
        st.assume(*wt_seq(L, ("tuple", et, et)))
        if et == "str":
            j, i2 = fresh("j", I), fresh("i", I)
            for idx in (0, 1):
                comp = Val.strval(VS.at(Val.tval(VS.at(L, j)), z3.IntVal(idx)))
                st.assume(z3.ForAll([j, i2], z3.Implies(z3.And(0 <= j, j < VS.len(L), 0 <= i2, i2 < IS.len(comp)),
                                                        IS.at(comp, i2) < 256), patterns=[IS.at(comp, i2)]))
        return [(st, VList(L, ("tuple", et, et), "list"))]
    if name == "collections.Counter":
        if not args:
            raise Unsupported("empty Counter()")
        src = eng.as_iseq(st, args[0], node)
        return [(st, VConst(("counter", src), "counter"))]
    if name == "Crypto.Cipher:PKCS1_v1_5.new":
        from .values import box
        eng.fr.assumed_used.add("RSA PKCS#1 v1.5 (pycryptodome): decrypt(encrypt(m, pub), priv) = m for len(m) <= k - 11 and a "
                                "matching key pair; ValueError for over-long plaintext / wrong ciphertext length; sentinel on failure")
        return [(st, VConst(("pkcs1", box(d(args[0]))), "pkcs1cipher"))]
    if name == "hmac.new":
        key = eng.as_iseq(st, args[0], node)
        msg = eng.as_iseq(st, args[1], node)
        dg = d(args[2]) if len(args) > 2 else kwargs.get("digestmod")
        if not (isinstance(dg, VSeq) and dg.py == "sha256"):
            raise Unsupported("hmac digest other than sha256")
        eng.fr.assumed_used.add("HMAC-SHA256: uninterpreted function of (key, message), 32 bytes")
        return [(st, VConst(("hmac", key, msg), "hashobj"))]
    if name == "hashlib.sha256":
        data = eng.as_iseq(st, args[0], node)
        eng.fr.assumed_used.add("SHA-256: uninterpreted function, 32 bytes")
        return [(st, VConst(("sha256", data), "hashobj"))]
    if name in ("re.match", "re.fullmatch"):
        pat = d(args[0])
        subj = d(args[1])
        if not (isinstance(pat, VSeq) and pat.py is not None and isinstance(subj, VSeq)):
            raise Unsupported("re with a non-literal pattern")
        eng.fr.assumed_used.add(f"{name} compiled to a first-order formula for the literal pattern {pat.py!r}")
        return [(st, VBool(regex_formula(pat.py, subj.t, name.split(".")[1])))]
    if name in ("base64.b64encode", "base64.urlsafe_b64encode", "base64.b64decode", "base64.urlsafe_b64decode"):
        x = eng.as_iseq(st, args[0], node)
        eng.fr.assumed_used.add("base64 (binascii): uninterpreted b64e/b64d/b64ue/b64ud; assumed law decode(encode(x) + b'==') == x, "
                                "binascii.Error (a ValueError) where the input is not decodable")
        short = name.split(".")[1]
        if short.endswith("encode"):
            f = smt.b64e if short == "b64encode" else smt.b64ue
            return [(st, VSeq(f(x.t), "bytes"))]
        f, ok = (smt.b64d, smt.b64_ok) if short == "b64decode" else (smt.b64ud, smt.b64u_ok)
        eng.implicit_error(st, ok(x.t), "ValueError", node, "binascii.Error")
        return [(st, VSeq(f(x.t), "bytes"))]
    if name == "random.seed":
        # the generator state becomes a function of the seed: later draws are seeded_bits(seed, nbits, k)
        st.env["rng_seed"] = VInt(eng.as_int(st, args[0], node))
        st.env["rng_seeded_calls"] = VInt(0)
        eng.fr.assumed_used.add("random.seed(s); random.getrandbits(n): the k-th draw after seeding is a function seeded_bits(s, n, k) "
                                "in [0, 2**n) (determinism of the Mersenne Twister)")
        return [(st, VNone())]
    if name in ("random.getrandbits",) and "rng_seed" in st.env:
        n = eng.as_int(st, args[0], node)
        k_ = st.env["rng_seeded_calls"].t
        r = smt.seeded_bits(st.env["rng_seed"].t, n, k_)
        st.env["rng_seeded_calls"] = VInt(k_ + 1)
        if z3.is_int_value(n):
            st.assume(0 <= r, r < 2 ** n.as_long())
        return [(st, VInt(r))]
    if name in ("random.getrandbits",):
        n = eng.as_int(st, args[0], node)
        if "rng_calls" in st.env and z3.is_int_value(n) and n.as_long() == 32:
            c_ = st.env["rng_calls"].t
            st.env["rng_calls"] = VInt(c_ + 1)
            eng.fr.assumed_used.add("random.getrandbits(32): the next value of an arbitrary stream rng(i) in [0, 2**32)")
            return [(st, VInt(smt.rng(c_)))]
        r = fresh("randbits", I)
        if z3.is_int_value(n):
            st.assume(0 <= r, r < 2 ** n.as_long())
        else:
            st.assume(0 <= r)
        eng.fr.assumed_used.add("random.getrandbits(n) in [0, 2**n)")
        return [(st, VInt(r))]
    raise Unsupported(f"external call {name}")


def regex_formula(pattern, s, mode):
    """Formula for re.match / re.fullmatch of a fixed-length pattern: optional ^, atoms (literal, escaped
    literal, character class with ranges) each optionally followed by {n}, optional end anchor $ or \\Z.
    Python semantics of `$`: end of string or just before a trailing newline."""
    i = 0
    if pattern.startswith("^"):
        i = 1
    atoms = []          # list of predicates on a code point
    end = None
    while i < len(pattern):
        ch = pattern[i]
        if ch == "$" and i == len(pattern) - 1:
            end = "$"
            i += 1
            continue
        if pattern[i:i + 2] == "\\Z" and i == len(pattern) - 2:
            end = "Z"
            i += 2
            continue
        if ch == "[":
            j = pattern.index("]", i)
            body = pattern[i + 1:j]
            ranges = []
            k = 0
            while k < len(body):
                if k + 2 < len(body) and body[k + 1] == "-":
                    ranges.append((ord(body[k]), ord(body[k + 2])))
                    k += 3
                else:
                    ranges.append((ord(body[k]), ord(body[k])))
                    k += 1
            pred = (lambda rs: (lambda c: z3.Or(*[z3.And(lo <= c, c <= hi) for lo, hi in rs])))(ranges)
            i = j + 1
        elif ch == "\\":
            lit = ord(pattern[i + 1])
            pred = (lambda v: (lambda c: c == v))(lit)
            i += 2
        elif ch in ".*+?()|{}":
            raise Unsupported(f"regex construct {ch!r}")
        else:
            pred = (lambda v: (lambda c: c == v))(ord(ch))
            i += 1
        count = 1
        if i < len(pattern) and pattern[i] == "{":
            j = pattern.index("}", i)
            count = int(pattern[i + 1:j])
            i = j + 1
        atoms += [pred] * count
    N = len(atoms)
    L = IS.len(s)
    chars = [p(IS.at(s, z3.IntVal(k))) for k, p in enumerate(atoms)]
    if mode == "fullmatch" or end == "Z":
        length = L == N
    elif end == "$":
        length = z3.Or(L == N, z3.And(L == N + 1, IS.at(s, z3.IntVal(N)) == 10))
    else:
        length = L >= N
    return z3.And(length, *chars)
