"""pyvc symbolic executor: real function AST + sidecar contract -> verification conditions.

Forward symbolic execution with path splitting; loops are cut by their invariants; calls to
functions under contract use the callee's contract only (never its body); implicit run-time
errors (subscripts, bytes() range, division) become obligations or exceptional paths.
Anything outside the supported subset raises Unsupported: the function is reported
out-of-reach, never approximated.
"""
import ast
import copy
import os
import z3

from . import smt
from .smt import IS, VS, Val, I, B, ISq, VSq
from .values import (V, VInt, VBool, VSeq, VNone, VTuple, VList, VRef, VAny, VConst, VRecord, VOpt, Unsupported, fresh,
                     parse_type, box, unbox, wt, wt_seq, sym_value, is_bytes_fact, is_chars_fact, mk_vsq, ISEQ_KINDS)

EXC_PARENTS = {
    "IndexError": "LookupError", "KeyError": "LookupError", "LookupError": "Exception",
    "UnicodeDecodeError": "UnicodeError", "UnicodeEncodeError": "UnicodeError", "UnicodeError": "ValueError",
    "ValueError": "Exception", "TypeError": "Exception", "OverflowError": "ArithmeticError",
    "ZeroDivisionError": "ArithmeticError", "ArithmeticError": "Exception", "EOFError": "Exception",
    "OSError": "Exception", "AssertionError": "Exception", "AttributeError": "Exception",
    "StopIteration": "Exception", "UnboundLocalError": "NameError", "NameError": "Exception",
    "Exception": "BaseException", "KeyboardInterrupt": "BaseException",
    "binascii.Error": "ValueError", "struct.error": "Exception",
}


def exc_isa(e, parent):
    while e is not None:
        if e == parent:
            return True
        e = EXC_PARENTS.get(e)
    return False


class State:
    def __init__(self):
        self.env = {}
        self.heap = {}
        self.pc = []
        self.ghost = {}

    def fork(self):
        s = State()
        s.env = dict(self.env)
        s.heap = dict(self.heap)
        s.pc = list(self.pc)
        s.ghost = dict(self.ghost)
        return s

    def feasible(self):
        """Cheap path pruning: the path condition alone (no prelude axioms) refuted within 150 ms.
        Only `unsat` prunes, so this can never drop a feasible path."""
        n = len(self.pc)
        if getattr(self, "_feas_n", -1) == n:
            return True
        sv = z3.Solver()
        sv.set("timeout", 150)
        for h in self.pc:
            if not z3.is_quantifier(h):
                sv.add(h)
        ok = sv.check() != z3.unsat
        if ok:
            self._feas_n = n
        return ok

    def assume(self, *facts):
        for f in facts:
            if isinstance(f, bool):
                f = z3.BoolVal(f)
            if not z3.is_true(f):
                self.pc.append(f)


class ObInstance:
    def __init__(self, hyps, goal, info):
        self.hyps, self.goal, self.info = hyps, goal, info


class Obligation:
    def __init__(self, name, fn, kind, props):
        self.name, self.fn, self.kind, self.props = name, fn, kind, props
        self.instances = []


def Not_(t):
    if z3.is_true(t):
        return z3.BoolVal(False)
    if z3.is_false(t):
        return z3.BoolVal(True)
    return z3.Not(t)


def lit_seq(pyval, kind):
    vals = [ord(c) for c in pyval] if isinstance(pyval, str) else list(pyval)
    t = IS.empty
    for v in vals:
        t = IS.cat(t, IS.unit(z3.IntVal(v)))
    return VSeq(t, kind, py=pyval)


def as_vlist(v, et="any"):
    """static list / empty literal -> boxed list value (None if not convertible)"""
    if isinstance(v, VList):
        return v
    if isinstance(v, VTuple) and getattr(v, "is_list", False):
        return VList(mk_vsq([box(x) for x in v.items]), et, "list")
    if isinstance(v, VSeq) and v.kind == "ilist" and z3.eq(v.t, IS.empty):
        return VList(VS.empty, et, "list")
    return None


def ite_val(c, a, b):
    if z3.is_true(c):
        return a
    if z3.is_false(c):
        return b
    def _staticlist(v):
        return (isinstance(v, VTuple) and getattr(v, "is_list", False)) or \
            (isinstance(v, VSeq) and v.kind == "ilist" and z3.eq(v.t, IS.empty))
    if (isinstance(a, VList) != isinstance(b, VList)) or (_staticlist(a) and _staticlist(b) and type(a) is not type(b)) \
            or (_staticlist(a) and _staticlist(b) and isinstance(a, VTuple) and len(a.items) != len(b.items)):
        a2, b2 = as_vlist(a, getattr(b, "et", "any")), as_vlist(b, getattr(a, "et", "any"))
        if a2 is not None and b2 is not None:
            a, b = a2, b2
    if isinstance(a, VInt) and isinstance(b, VInt):
        return VInt(z3.If(c, a.t, b.t))
    if isinstance(a, VBool) and isinstance(b, VBool):
        return VBool(z3.If(c, a.t, b.t))
    if isinstance(a, VSeq) and isinstance(b, VSeq) and (a.kind == b.kind or {a.kind, b.kind} <= {"bytes", "bytearray"}):
        return VSeq(z3.If(c, a.t, b.t), a.kind)
    if isinstance(a, VList) and isinstance(b, VList):
        return VList(z3.If(c, a.t, b.t), a.et, a.kind)
    if isinstance(a, VTuple) and isinstance(b, VTuple) and len(a.items) == len(b.items):
        return VTuple([ite_val(c, x, y) for x, y in zip(a.items, b.items)])
    if isinstance(a, VNone) and isinstance(b, VNone):
        return a
    try:
        return VAny(z3.If(c, box(a), box(b)))
    except Unsupported:
        raise Unsupported(f"ite over {a!r} / {b!r}")


class ModuleInfo:
    """AST of one /repo module: functions by qualname, import table, module-level constants/partials."""

    def __init__(self, modname, path):
        self.modname, self.path = modname, path
        self.src = open(path).read()
        self.tree = ast.parse(self.src, filename=path)
        self.funcs = {}
        self.classes = {}
        self.imports = {}     # local name -> "module" or "module:name"
        self.assigns = {}     # module level name -> ast expr
        for node in self.tree.body:
            self._top(node)

    def _top(self, node):
        if isinstance(node, (ast.FunctionDef, ast.AsyncFunctionDef)):
            self.funcs[node.name] = node
        elif isinstance(node, ast.ClassDef):
            self.classes[node.name] = node
            for sub in node.body:
                if isinstance(sub, ast.FunctionDef):
                    self.funcs[f"{node.name}.{sub.name}"] = sub
                    for s2 in ast.walk(sub):
                        if isinstance(s2, ast.FunctionDef) and s2 is not sub:
                            self.funcs.setdefault(f"{node.name}.{sub.name}.{s2.name}", s2)
                elif isinstance(sub, ast.Assign) and len(sub.targets) == 1 and isinstance(sub.targets[0], ast.Name):
                    self.assigns[f"{node.name}.{sub.targets[0].id}"] = sub.value
        elif isinstance(node, ast.Import):
            for a in node.names:
                self.imports[a.asname or a.name.split(".")[0]] = a.name if a.asname else a.name.split(".")[0]
        elif isinstance(node, ast.ImportFrom):
            mod = node.module or ""
            if node.level:
                base = self.modname.rsplit(".", node.level)[0]
                mod = f"{base}.{mod}" if mod else base
            for a in node.names:
                self.imports[a.asname or a.name] = f"{mod}:{a.name}"
        elif isinstance(node, ast.Assign) and len(node.targets) == 1 and isinstance(node.targets[0], ast.Name):
            self.assigns[node.targets[0].id] = node.value
        elif isinstance(node, ast.AnnAssign) and isinstance(node.target, ast.Name) and node.value is not None:
            self.assigns[node.target.id] = node.value
        elif isinstance(node, (ast.Try, ast.If)):
            for sub in node.body:
                self._top(sub)


class Repo:
    def __init__(self, root):
        self.root = root
        self.mods = {}

    def module(self, modname):
        if modname not in self.mods:
            rel = modname.replace(".", "/")
            path = os.path.join(self.root, rel + ".py")
            if not os.path.exists(path):
                path = os.path.join(self.root, rel, "__init__.py")
            if not os.path.exists(path):
                return None
            self.mods[modname] = ModuleInfo(modname, path)
        return self.mods[modname]

    def func(self, target):
        modname, qual = target.split(":")
        m = self.module(modname)
        if m is None or qual not in m.funcs:
            return None, None
        return m, m.funcs[qual]


class Signal:
    def __init__(self, kind, value=None):
        self.kind, self.value = kind, value


class Frame:
    """Per-function verification context."""

    def __init__(self, contract, module, fdef):
        self.contract, self.module, self.fdef = contract, module, fdef
        self.obligations = {}
        self.order = []
        self.handlers = []        # stack of lists receiving (state, excname, node)
        self.fn_exits_exc = []
        self.init_state = None
        self.loop_ordinals = {}
        self.dropped = []         # statements dropped by extraction (logger calls, docstrings)
        self.assumed_used = set()
        self.callees = set()
        self.notes = []
        self.is_generator = False
        self.canaries = []


class Engine:
    def __init__(self, repo, cdb, specs):
        self.repo, self.cdb, self.specs = repo, cdb, specs
        specs.engine = self
        self.fr = None

    # ------------------------------------------------------------------ obligations
    def oblige(self, st, goal, kind, idx="", info=None, assume_after=True):
        fr = self.fr
        name = f"{fr.contract.key}/{kind}{('#' + str(idx)) if idx != '' else ''}"
        if isinstance(goal, bool):
            goal = z3.BoolVal(goal)
        if name not in fr.obligations:
            fr.obligations[name] = Obligation(name, fr.contract.key, kind, fr.contract.props)
            fr.order.append(name)
        if not z3.is_true(goal):
            fr.obligations[name].instances.append(ObInstance(list(st.pc), goal, info or {}))
        elif not fr.obligations[name].instances:
            pass
        fr.obligations[name].touched = True
        if assume_after:
            st.assume(goal)

    # ------------------------------------------------------------------ exceptions
    def throw(self, st, exc, node=None, why=""):
        fr = self.fr
        rec = (st, exc, node, why)
        if fr.handlers:
            fr.handlers[-1].append(rec)
        else:
            fr.fn_exits_exc.append(rec)

    def implicit_error(self, st, ok_cond, exc, node, what):
        """An operation that raises `exc` unless ok_cond.  If the exception can be caught or is allowed by
        the contract, fork; otherwise emit an obligation (and continue under ok_cond)."""
        if isinstance(ok_cond, bool):
            ok_cond = z3.BoolVal(ok_cond)
        if z3.is_true(ok_cond):
            return
        if self.spec_mode:
            return
        if self.exc_observable(exc):
            bad = st.fork()
            bad.assume(z3.Not(ok_cond))
            self.throw(bad, exc, node, what)
            st.assume(ok_cond)
        else:
            line = getattr(node, "lineno", 0)
            self.oblige(st, ok_cond, f"no-{exc}", f"{what}@L{line - self.fr.fdef.lineno if self.fr.fdef else line}",
                        info={"line": line, "what": what})

    def exc_observable(self, exc):
        fr = self.fr
        for h in getattr(fr, "handler_types", []):
            for t in h:
                if t is None or exc_isa(exc, t):
                    return True
        for (e, _w, _e) in fr.contract.raises:
            if exc_isa(exc, e):
                return True
        return False

    # ------------------------------------------------------------------ helpers on values
    def deref(self, st, v):
        if isinstance(v, VRef) and v.ident in st.heap:
            cell = st.heap[v.ident]
            if isinstance(cell, (VSeq, VList)):
                return cell
        return v

    def truth(self, st, v):
        v = self.deref(st, v)
        if isinstance(v, VBool):
            return v.t
        if isinstance(v, VInt):
            if z3.is_int_value(v.t):
                return z3.BoolVal(v.t.as_long() != 0)
            return v.t != 0
        if isinstance(v, VSeq):
            if v.py is not None:
                return z3.BoolVal(len(v.py) != 0)
            return IS.len(v.t) != 0
        if isinstance(v, VList):
            return VS.len(v.t) != 0
        if isinstance(v, VNone):
            return z3.BoolVal(False)
        if isinstance(v, VTuple):
            return z3.BoolVal(len(v.items) > 0)
        if isinstance(v, VRef):
            cell = st.heap.get(v.ident)
            if isinstance(cell, dict) and cell.get("__kind__") == "dict":
                return VS.len(cell["keys"]) != 0
            if isinstance(cell, dict) and cell.get("__kind__") == "emptylist":
                return z3.BoolVal(False)
            return z3.BoolVal(True)
        if isinstance(v, VRecord) and v.cls == "cenum":
            return v.fields["value"].t != 0
        if isinstance(v, (VConst, VRecord)):
            return z3.BoolVal(True)
        if isinstance(v, VOpt):
            return z3.And(z3.Not(v.isnone), self.truth(st, v.value))
        if isinstance(v, VAny):
            t = v.t
            return z3.And(z3.Not(Val.is_VN(t)),
                          z3.Implies(Val.is_VI(t), Val.ival(t) != 0),
                          z3.Implies(Val.is_VB(t), Val.bval(t)),
                          z3.Implies(Val.is_VBy(t), IS.len(Val.byval(t)) != 0),
                          z3.Implies(Val.is_VStr(t), IS.len(Val.strval(t)) != 0),
                          z3.Implies(Val.is_VIL(t), IS.len(Val.ilval(t)) != 0),
                          z3.Implies(Val.is_VT(t), VS.len(Val.tval(t)) != 0),
                          z3.Implies(Val.is_VL(t), VS.len(Val.lval(t)) != 0))
        raise Unsupported(f"truthiness of {v!r}")

    def eq_vals(self, st, a, b):
        """z3 Bool for Python == between two values."""
        a, b = self.deref(st, a), self.deref(st, b)
        if isinstance(a, VBool) and isinstance(b, VInt):
            a = VInt(z3.If(a.t, 1, 0))
        if isinstance(b, VBool) and isinstance(a, VInt):
            b = VInt(z3.If(b.t, 1, 0))
        if isinstance(a, VInt) and isinstance(b, VInt):
            if z3.is_int_value(a.t) and z3.is_int_value(b.t):
                return z3.BoolVal(a.t.as_long() == b.t.as_long())
            return a.t == b.t
        if isinstance(a, VBool) and isinstance(b, VBool):
            return a.t == b.t
        if isinstance(a, VSeq) and isinstance(b, VSeq):
            ka = "bytes" if a.kind == "bytearray" else a.kind
            kb = "bytes" if b.kind == "bytearray" else b.kind
            if ka != kb:
                return z3.BoolVal(False)
            if a.py is not None and b.py is not None:
                return z3.BoolVal(a.py == b.py)
            return IS.eq(a.t, b.t)
        if isinstance(a, VList) and isinstance(b, VList):
            return VS.eq(a.t, b.t)
        if isinstance(a, VNone) or isinstance(b, VNone):
            if isinstance(a, VNone) and isinstance(b, VNone):
                return z3.BoolVal(True)
            o = b if isinstance(a, VNone) else a
            if isinstance(o, VAny):
                return Val.is_VN(o.t)
            if isinstance(o, VOpt):
                return o.isnone
            return z3.BoolVal(False)
        if isinstance(a, VOpt) or isinstance(b, VOpt):
            if isinstance(a, VOpt) and isinstance(b, VOpt):
                return z3.Or(z3.And(a.isnone, b.isnone),
                             z3.And(z3.Not(a.isnone), z3.Not(b.isnone), self.eq_vals(st, a.value, b.value)))
            o, x = (a, b) if isinstance(a, VOpt) else (b, a)
            return z3.And(z3.Not(o.isnone), self.eq_vals(st, o.value, x))
        if isinstance(a, VTuple) and isinstance(b, VTuple):
            if len(a.items) != len(b.items):
                return z3.BoolVal(False)
            return z3.And(*[self.eq_vals(st, x, y) for x, y in zip(a.items, b.items)]) if a.items else z3.BoolVal(True)
        if isinstance(a, VAny) or isinstance(b, VAny):
            if isinstance(b, VAny) and not isinstance(a, VAny):
                a, b = b, a
            if isinstance(b, VSeq):
                tag = {"bytes": ("is_VBy", "byval"), "bytearray": ("is_VBy", "byval"), "str": ("is_VStr", "strval"),
                       "ilist": ("is_VIL", "ilval"), "ituple": ("is_VIL", "ilval")}[b.kind]
                return z3.And(getattr(Val, tag[0])(a.t), IS.eq(getattr(Val, tag[1])(a.t), b.t))
            if isinstance(b, VInt):
                return z3.Or(z3.And(Val.is_VI(a.t), Val.ival(a.t) == b.t),
                             z3.And(Val.is_VB(a.t), z3.If(Val.bval(a.t), 1, 0) == b.t))
            if isinstance(b, VBool):
                return z3.Or(z3.And(Val.is_VB(a.t), Val.bval(a.t) == b.t),
                             z3.And(Val.is_VI(a.t), Val.ival(a.t) == z3.If(b.t, 1, 0)))
            if isinstance(b, VTuple):
                tv = Val.tval(a.t)
                return z3.And(Val.is_VT(a.t), VS.len(tv) == len(b.items),
                              *[self.eq_vals(st, VAny(VS.at(tv, z3.IntVal(k))), x) for k, x in enumerate(b.items)])
            return a.t == box(b)
        if isinstance(a, VConst) and isinstance(b, VConst):
            return z3.BoolVal(a.py == b.py)
        if isinstance(a, VRecord) and a.cls == "cenum" and isinstance(b, (VInt, VBool)):
            return a.fields["value"].t == self.as_int(st, b)
        if isinstance(b, VRecord) and b.cls == "cenum" and isinstance(a, (VInt, VBool)):
            return b.fields["value"].t == self.as_int(st, a)
        if isinstance(a, VRecord) and isinstance(b, VRecord) and a.cls == b.cls == "cenum":
            if a.fields["enum"].py != b.fields["enum"].py:
                return z3.BoolVal(False)
            return a.fields["value"].t == b.fields["value"].t
        if isinstance(a, VRecord) and isinstance(b, VRecord) and a.cls == b.cls:
            return z3.And(*[self.eq_vals(st, a.fields[k], b.fields[k]) for k in a.fields])
        if type(a) is not type(b):
            return z3.BoolVal(False)
        raise Unsupported(f"== between {a!r} and {b!r}")

    def named(self, st, v, hint="t"):
        """Give complex terms (anything with an if-then-else inside) a name, so they can occur in patterns."""
        from .values import has_ite, Binder
        if Binder.depth > 0:
            return v
        if isinstance(v, VInt) and has_ite(v.t):
            c = fresh(hint, I)
            st.assume(c == v.t)
            return VInt(c)
        if isinstance(v, VSeq) and v.py is None and z3.is_app(v.t) and v.t.num_args() > 0:
            c = fresh(hint, ISq)
            st.assume(c == v.t)
            return VSeq(c, v.kind)
        if isinstance(v, VList) and z3.is_app(v.t) and v.t.num_args() > 0 and has_ite(v.t):
            c = fresh(hint, VSq)
            st.assume(c == v.t)
            return VList(c, v.et, v.kind)
        if isinstance(v, VTuple):
            return VTuple([self.named(st, x, hint) for x in v.items], is_list=getattr(v, "is_list", False))
        return v

    def as_int(self, st, v, node=None):
        v = self.deref(st, v)
        if isinstance(v, VInt):
            return v.t
        if isinstance(v, VRecord) and v.cls == "cenum":
            return v.fields["value"].t
        if isinstance(v, VOpt):
            if not self.spec_mode:
                self.implicit_error(st, z3.Not(v.isnone), "TypeError", node, "None-used-as-int")
            return self.as_int(st, v.value, node)
        if isinstance(v, VBool):
            return z3.If(v.t, z3.IntVal(1), z3.IntVal(0))
        if isinstance(v, VAny):
            if not self.spec_mode:
                self.implicit_error(st, z3.Or(Val.is_VI(v.t), Val.is_VB(v.t)), "TypeError", node, "int-operand")
            return z3.If(Val.is_VB(v.t), z3.If(Val.bval(v.t), 1, 0), Val.ival(v.t))
        raise Unsupported(f"expected int, got {v!r}")

    def dict_has(self, st, cell, item):
        from .heapmodel import dict_has_term
        return dict_has_term(cell, box(self.deref(st, item)))

    def dict_getitem(self, st, cell, iv, node):
        from .heapmodel import dict_has_term
        kt = box(self.deref(st, iv))
        if not self.spec_mode:
            self.implicit_error(st, dict_has_term(cell, kt), "KeyError", node, "key")
        sel = z3.Select(cell["map"], kt)
        vt = cell.get("vt")
        return [(st, unbox(sel, vt) if vt else VAny(sel))]

    def any_as_seq(self, st, v, kind, node=None):
        """a dynamically typed value used where a bytes / str / int-list operand is required (TypeError otherwise)"""
        rec, acc = {"bytes": (Val.is_VBy, Val.byval), "bytearray": (Val.is_VBy, Val.byval), "str": (Val.is_VStr, Val.strval),
                    "ilist": (Val.is_VIL, Val.ilval), "ituple": (Val.is_VIL, Val.ilval)}[kind]
        if not self.spec_mode:
            self.implicit_error(st, rec(v.t), "TypeError", node, "operand-type")
        return VSeq(acc(v.t), kind)

    def as_iseq(self, st, v, node=None):
        v = self.deref(st, v)
        if isinstance(v, VOpt):
            if not self.spec_mode:
                self.implicit_error(st, z3.Not(v.isnone), "TypeError", node, "None-used-as-bytes")
            v = v.value
        if isinstance(v, VSeq):
            return v
        if isinstance(v, VNone) and self.spec_mode:
            return VSeq(z3.Const("none_as_seq", ISq), "bytes")     # meaningless value of an ill-typed spec term
        if isinstance(v, VTuple) and all(isinstance(x, (VInt, VBool)) for x in v.items):
            t = IS.empty
            for x in v.items:
                t = IS.cat(t, IS.unit(self.as_int(st, x)))
            return VSeq(t, "ituple")
        raise Unsupported(f"expected int sequence, got {v!r}")

    # ------------------------------------------------------------------ slices / indices
    def norm_index(self, idx, L):
        """Python index normalisation for a possibly negative index term.  In contract expressions a
        symbolic index is used as is (specs only index with non-negative terms; keeps triggers clean)."""
        if z3.is_int_value(idx):
            return idx if idx.as_long() >= 0 else L + idx
        if self.spec_mode:
            return idx
        return z3.If(idx < 0, idx + L, idx)

    def clamp(self, x, L):
        if z3.is_int_value(x) and x.as_long() >= 0:
            if x.as_long() == 0:
                return z3.IntVal(0)
            return z3.If(x <= L, x, L)
        if z3.is_int_value(x):
            y = L + x
            return z3.If(y < 0, z3.IntVal(0), y)
        return z3.If(x < 0, z3.If(x + L < 0, z3.IntVal(0), x + L), z3.If(x <= L, x, L))

    def py_slice(self, th, s, lo, hi):
        L = th.len(s)
        a = z3.IntVal(0) if lo is None else self.clamp(lo, L)
        b = L if hi is None else self.clamp(hi, L)
        if lo is None and hi is None:
            return s
        if hi is None:
            return th.sl(s, a, L)
        b2 = b if lo is None else z3.If(b < a, a, b)
        return th.sl(s, a, b2)

    # ------------------------------------------------------------------ expressions
    spec_mode = False

    def ev(self, e, st):
        """Evaluate expression -> list of (state, value).  Exceptional outcomes are routed via throw()."""
        m = getattr(self, "ev_" + type(e).__name__, None)
        if m is None:
            raise Unsupported(f"expression {type(e).__name__}: {ast.unparse(e)[:60]}")
        return m(e, st)

    def ev1(self, e, st):
        """Spec-mode evaluation: total, single result."""
        old = self.spec_mode
        self.spec_mode = True
        try:
            r = self.ev(e, st)
        finally:
            self.spec_mode = old
        if len(r) != 1:
            raise Unsupported(f"spec expression forks: {ast.unparse(e)[:80]}")
        return r[0][1]

    def evs(self, exprs, st):
        """Evaluate a list of expressions left to right -> list of (state, [values])."""
        outs = [(st, [])]
        for e in exprs:
            nxt = []
            for s, vals in outs:
                for s2, v in self.ev(e, s):
                    nxt.append((s2, vals + [v]))
            outs = nxt
        return outs

    def ev_Constant(self, e, st):
        c = e.value
        if isinstance(c, bool):
            return [(st, VBool(c))]
        if isinstance(c, int):
            return [(st, VInt(c))]
        if isinstance(c, bytes):
            return [(st, lit_seq(c, "bytes"))]
        if isinstance(c, str):
            return [(st, lit_seq(c, "str"))]
        if c is None:
            return [(st, VNone())]
        raise Unsupported(f"constant {c!r}")

    def ev_Name(self, e, st):
        n = e.id
        if n in st.env:
            return [(st, st.env[n])]
        if n in ("True", "False"):
            return [(st, VBool(n == "True"))]
        v = self.resolve_global(n)
        if v is not None:
            return [(st, v)]
        if self.fr and n in getattr(self.fr, "maybe_unbound", ()):
            self.throw(st, "UnboundLocalError", e, n)
            return []
        raise Unsupported(f"unknown name {n}")

    def resolve_global(self, n, module=None):
        module = module or (self.fr.module if self.fr else None)
        if module is not None:
            if n in module.funcs:
                return VConst(f"{module.modname}:{n}", "func")
            if n in module.classes:
                return VConst(f"{module.modname}:{n}", "class")
            if n in module.assigns:
                return self.module_constant(module, n)
            if n in module.imports:
                tgt = module.imports[n]
                if ":" in tgt:
                    mod2, name2 = tgt.split(":")
                    m2 = self.repo.module(mod2)
                    if m2 is not None:
                        r = self.resolve_global(name2, m2)
                        if r is not None:
                            return r
                        sub = self.repo.module(f"{mod2}.{name2}")
                        if sub is not None:
                            return VConst(f"{mod2}.{name2}", "module")
                    return VConst(tgt, "ext")
                m2 = self.repo.module(tgt)
                return VConst(tgt, "module" if m2 is not None else "extmodule")
        if n in self.specs.funcs:
            return VConst(n, "spec")
        if n in self.cdb.pure:
            return VConst(self.cdb.pure[n].target, "func")
        if n in self.cdb.lemmas:
            return VConst(n, "lemma")
        if n in BUILTIN_NAMES:
            return VConst(n, "builtin")
        return None

    def module_constant(self, module, n):
        node = module.assigns[n]
        from . import cstructmodel as cm
        if cm.is_cstruct_instance(module, n):
            return VConst((module.modname, n), "cstruct")
        if isinstance(node, ast.Attribute) and isinstance(node.value, ast.Name) and node.value.id in module.assigns \
                and cm.is_cstruct_instance(module, node.value.id):
            return self.getattr_(None, VConst((module.modname, node.value.id), "cstruct"), node.attr, node)
        # functools.partial binding -> partial constant
        if isinstance(node, ast.Call) and ast.unparse(node.func) in ("partial", "functools.partial"):
            base = self.resolve_global(ast.unparse(node.args[0]), module) if isinstance(node.args[0], ast.Name) else None
            if base is None:
                raise Unsupported(f"partial of {ast.unparse(node.args[0])}")
            return VConst((base.py, {k.arg: k.value for k in node.keywords}, module), "partial")
        try:
            c = ast.literal_eval(node)
        except Exception:
            if isinstance(node, ast.Call) and ast.unparse(node.func) == "bytes.fromhex":
                c = bytes.fromhex(ast.literal_eval(node.args[0]))
            elif isinstance(node, ast.Attribute) or isinstance(node, ast.Call):
                return VConst(f"{module.modname}:{n}", "opaque")
            else:
                raise Unsupported(f"module constant {n} = {ast.unparse(node)[:60]}")
        return self.const_value(c)

    def const_value(self, c):
        if isinstance(c, bool):
            return VBool(c)
        if isinstance(c, int):
            return VInt(c)
        if isinstance(c, bytes):
            return lit_seq(c, "bytes")
        if isinstance(c, str):
            return lit_seq(c, "str")
        if c is None:
            return VNone()
        if isinstance(c, (list, tuple)):
            items = [self.const_value(x) for x in c]
            return VTuple(items, is_list=isinstance(c, list))
        if isinstance(c, dict):
            return VConst(c, "pydict")
        raise Unsupported(f"constant {c!r}")

    def ev_IfExp(self, e, st):
        out = []
        for s, c in self.ev(e.test, st):
            ct = self.truth(s, c)
            if self.spec_mode:
                if z3.is_true(ct):
                    out.append((s, self.ev1(e.body, s)))
                elif z3.is_false(ct):
                    out.append((s, self.ev1(e.orelse, s)))
                else:
                    out.append((s, ite_val(ct, self.ev1(e.body, s), self.ev1(e.orelse, s))))
                continue
            if z3.is_true(ct):
                out += self.ev(e.body, s)
                continue
            if z3.is_false(ct):
                out += self.ev(e.orelse, s)
                continue
            s1 = s.fork()
            s1.assume(ct)
            s2 = s.fork()
            s2.assume(z3.Not(ct))
            out += self.ev(e.body, s1)
            out += self.ev(e.orelse, s2)
        return out

    def ev_BoolOp(self, e, st):
        is_and = isinstance(e.op, ast.And)
        if self.spec_mode:
            ts = []
            for v in e.values:
                t = self.truth(st, self.ev1(v, st))
                if (is_and and z3.is_false(t)) or (not is_and and z3.is_true(t)):
                    return [(st, VBool(not is_and))]
                ts.append(t)
            return [(st, VBool(z3.And(*ts) if is_and else z3.Or(*ts)))]
        # code mode: short-circuit evaluation, value semantics
        outs = []

        def go(k, s, acc_cond):
            for s1, v in self.ev(e.values[k], s):
                if k == len(e.values) - 1:
                    outs.append((s1, v))
                    continue
                t = self.truth(s1, v)
                # boolean fast path: operand pure bool/int and the remaining operands evaluate without effects
                if z3.is_true(t):
                    if is_and:
                        go(k + 1, s1, acc_cond)
                    else:
                        outs.append((s1, v))
                    continue
                if z3.is_false(t):
                    if is_and:
                        outs.append((s1, v))
                    else:
                        go(k + 1, s1, acc_cond)
                    continue
                sa = s1.fork()
                sa.assume(t)
                sb = s1.fork()
                sb.assume(z3.Not(t))
                if is_and:
                    go(k + 1, sa, acc_cond)
                    outs.append((sb, v if not isinstance(v, (VBool,)) else VBool(False)))
                else:
                    outs.append((sa, v if not isinstance(v, (VBool,)) else VBool(True)))
                    go(k + 1, sb, acc_cond)
        go(0, st, None)
        return outs

    def ev_UnaryOp(self, e, st):
        out = []
        for s, v in self.ev(e.operand, st):
            if isinstance(e.op, ast.Not):
                out.append((s, VBool(Not_(self.truth(s, v)))))
            elif isinstance(e.op, ast.USub):
                t = self.as_int(s, v, e)
                out.append((s, VInt(z3.IntVal(-t.as_long()) if z3.is_int_value(t) else -t)))
            elif isinstance(e.op, ast.UAdd):
                out.append((s, VInt(self.as_int(s, v, e))))
            else:
                raise Unsupported(f"unary {type(e.op).__name__}")
        return out

    def ev_Tuple(self, e, st):
        if any(isinstance(x, ast.Starred) for x in e.elts):
            raise Unsupported("starred tuple")
        return [(s, VTuple(vals)) for s, vals in self.evs(e.elts, st)]

    def ev_List(self, e, st):
        out = []
        for s, vals in self.evs(e.elts, st):
            if self.spec_mode:
                if vals and not all(isinstance(v, (VInt,)) for v in vals):
                    out.append((s, VTuple([self.deref(s, v) for v in vals], is_list=True)))
                    continue
                if all(isinstance(v, (VInt,)) for v in vals):
                    t = IS.empty
                    for v in vals:
                        t = IS.cat(t, IS.unit(v.t))
                    out.append((s, VSeq(t, "ilist")))
                else:
                    out.append((s, VList(mk_vsq([box(self.deref(s, v)) for v in vals]), "any")))
                continue
            out.append((s, self.new_list(s, vals)))
        return out

    def new_list(self, st, vals):
        ident = f"list!{next(_ids)}"
        if not vals:
            st.heap[ident] = {"__kind__": "emptylist"}
        elif all(isinstance(v, VInt) for v in vals):
            t = IS.empty
            for v in vals:
                t = IS.cat(t, IS.unit(v.t))
            st.heap[ident] = VSeq(t, "ilist")
        else:
            st.heap[ident] = VList(mk_vsq([box(self.deref(st, v)) for v in vals]), "any")
        if not isinstance(st.heap[ident], dict):
            st.heap[ident].static_items = [self.deref(st, v) for v in vals]    # literal contents, valid until the list is mutated
        return VRef(ident, "list")

    def ev_Compare(self, e, st):
        out = []
        for s, vals in self.evs([e.left] + list(e.comparators), st):
            conj = []
            for k, op in enumerate(e.ops):
                conj.append(self.compare(s, op, vals[k], vals[k + 1], e))
            out.append((s, VBool(z3.And(*conj) if len(conj) > 1 else conj[0])))
        return out

    def compare(self, st, op, a, b, node):
        if isinstance(op, ast.Eq):
            return self.eq_vals(st, a, b)
        if isinstance(op, ast.NotEq):
            return Not_(self.eq_vals(st, a, b))
        if isinstance(op, (ast.Is, ast.IsNot)):
            a2, b2 = self.deref(st, a), self.deref(st, b)
            if isinstance(b2, VNone) or isinstance(a2, VNone) or isinstance(a2, VOpt) or isinstance(b2, VOpt):
                r = self.eq_vals(st, a2, b2)
            elif isinstance(a2, VBool) or isinstance(b2, VBool):
                if isinstance(a2, VAny) and isinstance(b2, VBool):
                    r = z3.And(Val.is_VB(a2.t), Val.bval(a2.t) == b2.t)
                elif isinstance(a2, VBool) and isinstance(b2, VBool):
                    r = a2.t == b2.t
                else:
                    r = z3.BoolVal(False)
            elif isinstance(a, VRef) and isinstance(b, VRef):
                r = z3.BoolVal(a.ident == b.ident)
            elif isinstance(a2, VConst) and isinstance(b2, VConst):
                r = z3.BoolVal(a2.py == b2.py)
            elif self.spec_mode and ((isinstance(a2, VAny) and isinstance(b, VRef)) or (isinstance(b2, VAny) and isinstance(a, VRef))):
                # identity of an untyped result with a heap object: left open (an unconstrained proposition)
                r = fresh("same_object", B)
            else:
                raise Unsupported(f"`is` between {a2!r} and {b2!r}")
            return r if isinstance(op, ast.Is) else Not_(r)
        if isinstance(op, (ast.In, ast.NotIn)):
            r = self.contains(st, b, a, node)
            return r if isinstance(op, ast.In) else Not_(r)
        x, y = self.as_int(st, a, node), self.as_int(st, b, node)
        if z3.is_int_value(x) and z3.is_int_value(y):
            xv, yv = x.as_long(), y.as_long()
            return z3.BoolVal({ast.Lt: xv < yv, ast.LtE: xv <= yv, ast.Gt: xv > yv, ast.GtE: xv >= yv}[type(op)])
        if isinstance(op, ast.Lt):
            return x < y
        if isinstance(op, ast.LtE):
            return x <= y
        if isinstance(op, ast.Gt):
            return x > y
        if isinstance(op, ast.GtE):
            return x >= y
        raise Unsupported(f"compare {type(op).__name__}")

    def contains(self, st, container, item, node):
        c = self.deref(st, container)
        if isinstance(c, VTuple):
            if not c.items:
                return z3.BoolVal(False)
            return z3.Or(*[self.eq_vals(st, item, x) for x in c.items])
        if isinstance(c, VSeq):
            it = self.deref(st, item)
            if isinstance(it, VInt) and c.kind != "str":
                j = fresh("j", I)
                return z3.Exists([j], z3.And(0 <= j, j < IS.len(c.t), IS.at(c.t, j) == it.t), patterns=[IS.at(c.t, j)])
            if isinstance(it, VSeq) and c.py is not None and it.kind == c.kind:
                # substring test against a literal: enumerate the literal's substrings of that length
                lit = c.py
                alts = []
                for ln in range(0, len(lit) + 1):
                    subs = {lit[k:k + ln] for k in range(0, len(lit) - ln + 1)}
                    for sub in subs:
                        alts.append(IS.eq(it.t, lit_seq(sub, c.kind).t))
                return z3.Or(*alts)
            raise Unsupported(f"`in` on {c!r} with {it!r}")
        if isinstance(c, (VList, VSeq)) and getattr(c, "static_items", None) is not None:
            if not c.static_items:
                return z3.BoolVal(False)
            return z3.Or(*[self.eq_vals(st, item, x) for x in c.static_items])
        if isinstance(c, VList):
            j = fresh("j", I)
            bi = box(self.deref(st, item))
            return z3.Exists([j], z3.And(0 <= j, j < VS.len(c.t), VS.at(c.t, j) == bi), patterns=[VS.at(c.t, j)])
        if isinstance(c, VRef):
            cell = st.heap.get(c.ident)
            if isinstance(cell, dict) and cell.get("__kind__") == "dict":
                return self.dict_has(st, cell, item)
            if isinstance(cell, dict) and cell.get("__kind__") == "emptylist":
                return z3.BoolVal(False)
        raise Unsupported(f"`in` on {c!r}")

    def ev_BinOp(self, e, st):
        out = []
        for s, (a, b) in self.evs([e.left, e.right], st):
            out.append((s, self.binop(s, e.op, a, b, e)))
        return out

    def binop(self, st, op, a, b, node):
        a, b = self.deref(st, a), self.deref(st, b)
        if isinstance(op, ast.Add):
            if isinstance(a, VSeq) and isinstance(b, VAny):
                b = self.any_as_seq(st, b, a.kind, node)
            elif isinstance(b, VSeq) and isinstance(a, VAny):
                a = self.any_as_seq(st, a, b.kind, node)
            if isinstance(a, VSeq) and isinstance(b, VSeq):
                if a.kind != b.kind and not ({a.kind, b.kind} <= {"bytes", "bytearray"}):
                    if not self.spec_mode:
                        self.implicit_error(st, False, "TypeError", node, "concat")
                return VSeq(IS.cat(a.t, b.t), a.kind,
                            py=(a.py + b.py) if (a.py is not None and b.py is not None and type(a.py) is type(b.py)) else None)
            if isinstance(a, VList) != isinstance(b, VList):
                a2, b2 = as_vlist(a, getattr(b, "et", "any")), as_vlist(b, getattr(a, "et", "any"))
                if a2 is not None and b2 is not None:
                    a, b = a2, b2
            if isinstance(a, VList) and isinstance(b, VList):
                return VList(VS.cat(a.t, b.t), a.et if a.et == b.et else (a.et if b.et == "any" else b.et if a.et == "any" else "any"), a.kind)
            if isinstance(a, VList) and isinstance(b, VSeq) and b.kind == "ilist" and self.spec_mode:
                raise Unsupported("list + ilist in spec")
            if isinstance(a, VTuple) and isinstance(b, VTuple):
                return VTuple(a.items + b.items)
            if isinstance(a, VRef) or isinstance(b, VRef):
                ca, cb = st.heap.get(getattr(a, "ident", None)), st.heap.get(getattr(b, "ident", None))
                if isinstance(ca, dict) and ca.get("__kind__") == "emptylist":
                    return b if not isinstance(b, VRef) else self.copy_list(st, b)
                if isinstance(cb, dict) and cb.get("__kind__") == "emptylist":
                    return a
            x, y = self.as_int(st, a, node), self.as_int(st, b, node)
            if z3.is_int_value(x) and z3.is_int_value(y):
                return VInt(x.as_long() + y.as_long())
            return VInt(x + y)
        if isinstance(op, ast.Sub):
            x, y = self.as_int(st, a, node), self.as_int(st, b, node)
            if z3.is_int_value(x) and z3.is_int_value(y):
                return VInt(x.as_long() - y.as_long())
            return VInt(x - y)
        if isinstance(op, ast.Mult):
            if isinstance(a, VSeq) and isinstance(b, (VInt, VBool, VAny)):
                return self.seq_rep(st, a, self.as_int(st, b, node))
            if isinstance(b, VSeq) and isinstance(a, (VInt, VBool, VAny)):
                return self.seq_rep(st, b, self.as_int(st, a, node))
            x, y = self.as_int(st, a, node), self.as_int(st, b, node)
            return VInt(x * y)
        if isinstance(op, (ast.FloorDiv, ast.Mod)):
            x, y = self.as_int(st, a, node), self.as_int(st, b, node)
            if not (z3.is_int_value(y) and y.as_long() > 0):
                if not self.spec_mode:
                    self.implicit_error(st, y != 0, "ZeroDivisionError", node, "division")
                    # the encoding (SMT div/mod) equals Python's floor semantics only for positive divisors
                    self.oblige(st, y > 0, "encoding-positive-divisor", f"L{node.lineno}")
                # symbolic divisor: uninterpreted quotient/remainder linked to the product at this use site
                q, r = smt.pydiv(x, y), smt.pymod(x, y)
                st.assume(z3.Implies(y > 0, z3.And(y * q + r == x, 0 <= r, r < y)))
                return VInt(q if isinstance(op, ast.FloorDiv) else r)
            return VInt(x / y if isinstance(op, ast.FloorDiv) else x % y)
        if isinstance(op, ast.BitAnd):
            x, y = self.as_int(st, a, node), self.as_int(st, b, node)
            for p, q in ((x, y), (y, x)):
                if z3.is_int_value(q):
                    m = q.as_long()
                    if m == 0:
                        return VInt(0)
                    if m > 0:
                        lo = (m & -m).bit_length() - 1
                        hi = m.bit_length()
                        if m == (1 << hi) - (1 << lo):
                            return VInt((p % (1 << hi)) - (p % (1 << lo)))
            raise Unsupported("& with a non-contiguous or symbolic mask")
        if isinstance(op, ast.RShift):
            x, y = self.as_int(st, a, node), self.as_int(st, b, node)
            if z3.is_int_value(y) and y.as_long() >= 0:
                return VInt(x / (1 << y.as_long()))
            raise Unsupported(">> by symbolic amount")
        if isinstance(op, ast.LShift):
            x, y = self.as_int(st, a, node), self.as_int(st, b, node)
            if z3.is_int_value(y) and y.as_long() >= 0:
                return VInt(x * (1 << y.as_long()))
            raise Unsupported("<< by symbolic amount")
        if isinstance(op, ast.BitXor):
            x, y = self.as_int(st, a, node), self.as_int(st, b, node)
            if z3.is_int_value(x) and z3.is_int_value(y):
                return VInt(x.as_long() ^ y.as_long())
            return VInt(smt.bigxor(x, y))
        if isinstance(op, ast.BitOr):
            x, y = self.as_int(st, a, node), self.as_int(st, b, node)
            if z3.is_int_value(x) and z3.is_int_value(y):
                return VInt(x.as_long() | y.as_long())
            raise Unsupported("| on symbolic ints")
        if isinstance(op, ast.Pow):
            x, y = self.as_int(st, a, node), self.as_int(st, b, node)
            if z3.is_int_value(x) and z3.is_int_value(y):
                return VInt(x.as_long() ** y.as_long())
        raise Unsupported(f"binop {type(op).__name__}")

    def seq_rep(self, st, s, n):
        if z3.is_int_value(n) and s.py is not None and 0 <= n.as_long() * len(s.py) <= 64:
            return lit_seq(s.py * n.as_long(), s.kind)
        r = IS.rep(s.t, n)
        if s.py is not None and len(s.py) == 1:
            # single-element repeat: length n, every element the literal
            st.assume(z3.Implies(n >= 0, IS.len(r) == n))
        return VSeq(r, s.kind)

    def copy_list(self, st, ref):
        ident = f"list!{next(_ids)}"
        st.heap[ident] = st.heap[ref.ident]
        return VRef(ident, "list")

    def ev_Subscript(self, e, st):
        out = []
        if isinstance(e.slice, ast.Slice):
            sl = e.slice
            if sl.step is not None:
                stepc = ast.unparse(sl.step)
                if stepc == "-1" and sl.lower is None and sl.upper is None:
                    for s, v0 in self.ev(e.value, st):
                        v = self.deref(s, v0)
                        if isinstance(v, VSeq):
                            out.append((s, VSeq(IS.rev(v.t), v.kind)))
                        elif isinstance(v, VList):
                            r = VList(VS.rev(v.t), v.et, v.kind)
                            if isinstance(v0, VRef) and not self.spec_mode and v.kind == "list":
                                # a slice of a (mutable) list is a new list object
                                ident = f"list!{next(_ids)}"
                                s.heap[ident] = r
                                r = VRef(ident, "list")
                            out.append((s, r))
                        else:
                            raise Unsupported("[::-1] on " + repr(v))
                    return out
                raise Unsupported("slice step")
            parts = [e.value] + [x for x in (sl.lower, sl.upper) if x is not None]
            for s, vals in self.evs(parts, st):
                base = self.deref(s, vals[0])
                if isinstance(base, VOpt):
                    if not self.spec_mode:
                        self.implicit_error(s, z3.Not(base.isnone), "TypeError", e, "slice-of-None")
                    base = base.value
                rest = vals[1:]
                lo = hi = None
                if sl.lower is not None:
                    lo = rest.pop(0)
                    lo = None if isinstance(self.deref(s, lo), VNone) else self.as_int(s, lo, e)
                if sl.upper is not None:
                    hi = rest.pop(0)
                    hi = None if isinstance(self.deref(s, hi), VNone) else self.as_int(s, hi, e)
                if isinstance(base, VSeq):
                    py = None
                    if base.py is not None and (lo is None or z3.is_int_value(lo)) and (hi is None or z3.is_int_value(hi)):
                        py = base.py[(None if lo is None else lo.as_long()):(None if hi is None else hi.as_long())]
                        out.append((s, lit_seq(py, base.kind)))
                        continue
                    kind = base.kind
                    out.append((s, VSeq(self.py_slice(IS, base.t, lo, hi), kind)))
                elif isinstance(base, VList):
                    out.append((s, VList(self.py_slice(VS, base.t, lo, hi), base.et, base.kind)))
                elif isinstance(base, VTuple) and (lo is None or z3.is_int_value(lo)) and (hi is None or z3.is_int_value(hi)):
                    out.append((s, VTuple(base.items[(None if lo is None else lo.as_long()):(None if hi is None else hi.as_long())])))
                elif isinstance(base, VRef) and isinstance(s.heap.get(base.ident), dict) and s.heap[base.ident].get("__kind__") == "emptylist":
                    out.append((s, self.new_list(s, [])))
                else:
                    raise Unsupported(f"slice of {base!r}")
            return out
        for s, (bv, iv) in self.evs([e.value, e.slice], st):
            out += self.subscript(s, bv, iv, e)
        return out

    def subscript(self, st, bv, iv, node):
        base = self.deref(st, bv)
        if isinstance(base, VOpt):
            if not self.spec_mode:
                self.implicit_error(st, z3.Not(base.isnone), "TypeError", node, "subscript-of-None")
            base = base.value
        if isinstance(base, VTuple):
            i = self.as_int(st, iv, node)
            if z3.is_int_value(i):
                k = i.as_long()
                if -len(base.items) <= k < len(base.items):
                    return [(st, base.items[k])]
                self.throw(st, "IndexError", node, "tuple index")
                return []
            kinds = {type(x) for x in base.items}
            if len(kinds) == 1 and all(isinstance(x, VSeq) for x in base.items) and len({x.kind for x in base.items}) == 1:
                # homogeneous static table indexed symbolically: use the boxed list
                base = VList(mk_vsq([box(x) for x in base.items]), base.items[0].kind, "list")
            else:
                raise Unsupported("symbolic index into a static tuple")
        if isinstance(base, VSeq):
            i = self.as_int(st, iv, node)
            L = IS.len(base.t)
            j = self.norm_index(i, L)
            if not self.spec_mode:
                self.implicit_error(st, z3.And(0 <= j, j < L), "IndexError", node, "index")
            if base.kind in ("str", "clist"):
                return [(st, VSeq(IS.unit(IS.at(base.t, j)), "str"))]
            return [(st, VInt(IS.at(base.t, j)))]
        if isinstance(base, VList):
            i = self.as_int(st, iv, node)
            L = VS.len(base.t)
            j = self.norm_index(i, L)
            if not self.spec_mode:
                self.implicit_error(st, z3.And(0 <= j, j < L), "IndexError", node, "index")
            return [(st, unbox(VS.at(base.t, j), base.et))]
        if isinstance(base, VRef):
            cell = st.heap.get(base.ident)
            if isinstance(cell, dict) and cell.get("__kind__") == "dict":
                return self.dict_getitem(st, cell, iv, node)
        if isinstance(base, VAny):
            # subscript of a dynamically typed value (e.g. a dict inside a tuple): an uninterpreted selection; whether
            # the key exists is not modelled (recorded as an assumption)
            if self.fr is not None:
                self.fr.assumed_used.add("subscript of a dynamically typed value succeeds (no KeyError / IndexError modelled)")
            return [(st, VAny(smt.any_item(base.t, box(self.deref(st, iv)))))]
        raise Unsupported(f"subscript on {base!r}")

    def ev_Attribute(self, e, st):
        out = []
        for s, v in self.ev(e.value, st):
            out.append((s, self.getattr_(s, v, e.attr, e)))
        return out

    def getattr_(self, st, v, attr, node):
        if isinstance(v, VOpt):
            if not self.spec_mode:
                self.implicit_error(st, z3.Not(v.isnone), "AttributeError", node, "attribute-of-None")
            return self.getattr_(st, v.value, attr, node)
        if isinstance(v, VRecord) and not (v.cls == "cenum" and attr == "name"):
            if attr in v.fields:
                return v.fields[attr]
            return VConst((v, attr), "boundmethod")
        if isinstance(v, VRef):
            cell = st.heap.get(v.ident)
            if isinstance(cell, dict) and cell.get("__kind__") in ("obj", "file"):
                if attr in cell:
                    return cell[attr]
                return VConst((v, attr), "boundmethod")
            return VConst((v, attr), "boundmethod")
        if isinstance(v, VConst) and v.what == "cstruct":
            from . import cstructmodel as cm
            modname, inst = v.py
            module = self.repo.module(modname)
            defs = cm.module_cdefs(self, module, inst)
            if attr in defs.structs:
                return VConst((modname, inst, attr), "ctype")
            if attr in defs.enums:
                return VConst((modname, inst, attr), "cenumtype")
            if attr in defs.defines:
                return VInt(defs.defines[attr])
            if attr in cm.PRIMS:
                return VConst((modname, inst, attr), "cprim")
            if attr in defs.unsupported:
                raise Unsupported(f"cstruct type {attr}: {defs.unsupported[attr]}")
            raise Unsupported(f"cstruct attribute {attr}")
        if isinstance(v, VConst) and v.what == "cenumtype":
            from . import cstructmodel as cm
            modname, inst, ename = v.py
            module = self.repo.module(modname)
            defs = cm.module_cdefs(self, module, inst)
            members = defs.enums[ename][1]
            if attr in members:
                return cm.enum_value(ename, inst, module, z3.IntVal(members[attr]))
            raise Unsupported(f"enum {ename} has no member {attr}")
        if isinstance(v, VRecord) and v.cls == "cenum" and attr == "name":
            from . import cstructmodel as cm
            modname, inst, ename = v.fields["enum"].py
            defs = cm.module_cdefs(self, self.repo.module(modname), inst)
            val = v.fields["value"].t
            table = {}
            for k, x in defs.enums[ename][1].items():
                table[x] = k           # the last declared name of a value wins (dissect.cstruct 4.7, cross-checked)
            if z3.is_int_value(val):
                nm = table.get(val.as_long())
                return lit_seq(nm, "str") if nm is not None else VNone()
            term = IS.empty
            for x, k in table.items():
                term = z3.If(val == x, lit_seq(k, "str").t, term)
            known = z3.Or(*[val == x for x in table]) if table else z3.BoolVal(False)
            return VOpt(z3.Not(known), VSeq(term, "str"))
        if isinstance(v, VConst):
            if v.what in ("module", "extmodule"):
                m = self.repo.module(v.py) if v.what == "module" else None
                if m is not None:
                    r = self.resolve_global(attr, m)
                    if r is not None:
                        return r
                if v.py == "string":
                    import string as _string
                    val = getattr(_string, attr, None)
                    if isinstance(val, str):
                        return lit_seq(val, "str")
                if v.py == "io":
                    if attr in ("SEEK_SET", "SEEK_CUR", "SEEK_END"):
                        return VInt({"SEEK_SET": 0, "SEEK_CUR": 1, "SEEK_END": 2}[attr])
                    if attr == "DEFAULT_BUFFER_SIZE":
                        return self.symbolic_constant(st, "io.DEFAULT_BUFFER_SIZE")
                return VConst(f"{v.py}.{attr}", "ext")
            if v.what == "builtin" and v.py in ("int", "bytes", "str", "dict"):
                return VConst(f"{v.py}.{attr}", "builtin")
            if v.what == "ext":
                return VConst(f"{v.py}.{attr}", "ext")
            if v.what in ("aescipher", "hashobj", "pkcs1cipher", "counter", "pydict"):
                return VConst((v, attr), "boundmethod")
            if v.what == "class":
                modname, cname = v.py.split(":")
                m = self.repo.module(modname)
                if f"{cname}.{attr}" in m.assigns:
                    return self.module_constant_from(m, m.assigns[f"{cname}.{attr}"])
                if f"{cname}.{attr}" in m.funcs:
                    return VConst(f"{modname}:{cname}.{attr}", "func")
            if v.what == "opaque":
                return VConst(f"{v.py}.{attr}", "opaque")
        if isinstance(v, (VSeq, VList, VInt, VTuple, VAny)):
            return VConst((v, attr), "boundmethod")
        raise Unsupported(f"attribute {attr} of {v!r}")

    def module_constant_from(self, module, node):
        try:
            return self.const_value(ast.literal_eval(node))
        except Exception:
            raise Unsupported(f"class constant {ast.unparse(node)[:40]}")

    def symbolic_constant(self, st, name):
        if name not in st.ghost:
            c = z3.Int(name.replace(".", "_"))
            st.ghost[name] = VInt(c)
            st.assume(c >= 1)
        return st.ghost[name]

    def ev_ListComp(self, e, st):
        """[f(x) for x in xs] with a pure element expression over an int sequence: a fresh list with the
        element-wise characterisation (no filtering, single generator)."""
        if len(e.generators) != 1 or e.generators[0].ifs or not isinstance(e.generators[0].target, ast.Name):
            raise Unsupported("list comprehension (only `[f(x) for x in xs]`)")
        out = []
        tgt = e.generators[0].target.id
        gen_iter = e.generators[0].iter
        if isinstance(e.elt, ast.Call) and len(e.elt.args) == 1 and not e.elt.keywords:
            r = self.listcomp_struct_reads(e, st)
            if r is not None:
                return r
        for s, src in self.ev(e.generators[0].iter, st):
            src = self.deref(s, src)
            if isinstance(src, VTuple):
                # statically known length: unroll (the element expression may call functions under contract)
                states = [(s, [])]
                for item in src.items:
                    nxt = []
                    for s1, acc in states:
                        s1.env[tgt] = item
                        for s2, v in self.ev(e.elt, s1):
                            nxt.append((s2, acc + [v]))
                    states = nxt
                for s1, acc in states:
                    out.append((s1, VTuple(acc, is_list=True)))
                continue
            if isinstance(src, VRef) and isinstance(s.heap.get(src.ident), dict) and s.heap[src.ident].get("__kind__") == "emptylist":
                out.append((s, self.new_list(s, [])))
                continue
            if not isinstance(src, VSeq):
                raise Unsupported(f"list comprehension over {src!r}")
            src = self.named(s, src, "src")       # the source occurs in a pattern
            i = fresh("i", I)
            s2 = s.fork()
            s2.env[tgt] = VInt(IS.at(src.t, i)) if src.kind != "str" else VSeq(IS.unit(IS.at(src.t, i)), "str")
            elt = self.ev1(e.elt, s2)
            out_kind = "ilist"
            if isinstance(elt, VSeq) and elt.kind == "str" and z3.is_app(elt.t) and elt.t.decl().name() == IS.unit(z3.IntVal(0)).decl().name():
                # every element is a one-character string chr(...): a list of characters
                elt, out_kind = VInt(elt.t.arg(0)), "clist"
            if not isinstance(elt, VInt):
                raise Unsupported("list comprehension with non-integer elements")
            r = fresh("comp", ISq)
            s.assume(IS.len(r) == IS.len(src.t),
                     z3.ForAll([i], z3.Implies(z3.And(0 <= i, i < IS.len(src.t)), IS.at(r, i) == elt.t),
                               patterns=[IS.at(r, i), IS.at(src.t, i)]))      # two alternative triggers
            if out_kind == "clist":
                out.append((s, VSeq(r, "clist")))
                continue
            ident = f"list!{next(_ids)}"
            s.heap[ident] = VSeq(r, "ilist")
            out.append((s, VRef(ident, "list")))
        return out

    def listcomp_struct_reads(self, e, st):
        """[Struct(fh) for _ in range(n)] for a fixed-size cstruct type: n consecutive records at a constant
        stride, or EOFError when the file is too short (model derived from the struct definition)."""
        from . import cstructmodel as cm
        gen = e.generators[0]
        tgt = gen.target.id
        if any(isinstance(n, ast.Name) and n.id == tgt for n in ast.walk(e.elt)):
            return None
        outs = []
        for s0, fv in self.ev(e.elt.func, st):
            if not (isinstance(fv, VConst) and fv.what == "ctype"):
                return None
            modname, inst, sname = fv.py
            module = self.repo.module(modname)
            defs = cm.module_cdefs(self, module, inst)
            size = cm.fixed_size(defs, sname, None)
            if size is None:
                return None
            for s1, (fref, rng) in self.evs([e.elt.args[0], gen.iter], s0):
                if not (isinstance(rng, VConst) and rng.what == "range" and isinstance(fref, VRef)):
                    return None
                cell = s1.heap.get(fref.ident)
                if not (isinstance(cell, dict) and cell.get("__kind__") == "file"):
                    return None
                _, lo, hi, step = rng.py
                n = z3.If(hi > lo, hi - lo, z3.IntVal(0))
                n = self.named(s1, VInt(n), "count").t
                pos, L, content = cell["pos"].t, IS.len(cell["content"].t), cell["content"].t
                ok = z3.And(pos >= 0, pos + size * n <= L)
                bad = s1.fork()
                bad.assume(z3.Not(ok))
                nc = dict(bad.heap[fref.ident])
                nc["pos"] = VInt(fresh("pos", I))
                bad.assume(nc["pos"].t >= 0)
                bad.heap[fref.ident] = nc
                self.throw(bad, "EOFError", e, "cstruct-short-read")
                s1.assume(ok)
                # element-wise characterisation of the list of records
                rname = f"cstruct:{sname}"
                from .values import RECORDS
                if rname not in RECORDS:
                    ftypes = {}
                    for (f, fty, fc) in defs.structs[sname]:
                        ftypes[f] = "bytes" if (fty == "char" and fc is not None) else "int"
                    RECORDS[rname] = (ftypes, modname)
                Lst = fresh("structs", VSq)
                k = fresh("k", I)
                fields, off = {}, 0
                s2 = s1.fork()
                for (f, fty, fc) in defs.structs[sname]:
                    v, off = cm.fixed_field(self, s2, defs, inst, module, content, pos + size * k, off, fty, fc)
                    fields[f] = v
                defs_eq = [h for h in s2.pc[len(s1.pc):]]      # fld!n == value(k): inline them
                sub = []
                for h in defs_eq:
                    sub.append((h.arg(0), h.arg(1)))
                rec_term = box(VRecord(rname, fields))
                rec_term = z3.substitute(rec_term, *sub) if sub else rec_term
                s1.assume(VS.len(Lst) == n,
                          z3.ForAll([k], z3.Implies(z3.And(0 <= k, k < n), VS.at(Lst, k) == rec_term), patterns=[VS.at(Lst, k)]))
                nc = dict(s1.heap[fref.ident])
                nc["pos"] = VInt(pos + size * n)
                s1.heap[fref.ident] = nc
                ident = f"list!{next(_ids)}"
                s1.heap[ident] = VList(Lst, ("record", rname), "list")
                self.fr.assumed_used.add(f"dissect.cstruct read model derived from the definitions loaded into {modname}.{inst}")
                outs.append((s1, VRef(ident, "list")))
        return outs

    def ev_DictComp(self, e, st):
        """{k(x): v(x) for x in xs}: the resulting dict is left unconstrained (a fresh dict); exceptions of the key/value
        expressions are propagated for an arbitrary element.  (Content is covered by bounded stand-ins where needed.)"""
        from .heapmodel import new_dict
        if len(e.generators) != 1 or e.generators[0].ifs:
            raise Unsupported("dict comprehension with filters / nested generators")
        outs = []
        for s, src in self.ev(e.generators[0].iter, st):
            src = self.deref(s, src)
            if not isinstance(src, (VList, VSeq)):
                raise Unsupported(f"dict comprehension over {src!r}")
            k = fresh("k", I)
            probe = s.fork()
            if isinstance(src, VList):
                probe.assume(0 <= k, k < VS.len(src.t))
                elem = unbox(VS.at(src.t, k), src.et)
            else:
                probe.assume(0 <= k, k < IS.len(src.t))
                elem = VInt(IS.at(src.t, k))
            from .verify import copy_load
            for ps in self.assign(probe, e.generators[0].target, elem, e):
                self.evs([e.key, e.value], ps)          # only for the exceptional outcomes (routed via throw)
            ref = new_dict(self, s, log=fresh("dlog", VSq))
            self.fr.notes.append(f"dict comprehension at line {e.lineno}: content unconstrained")
            outs.append((s, ref))
        return outs

    def ev_Dict(self, e, st):
        from .heapmodel import new_dict, dict_set
        if any(k is None for k in e.keys):
            raise Unsupported("dict unpacking")
        outs = []
        for s, vals in self.evs(list(e.keys) + list(e.values), st):
            ref = new_dict(self, s)
            n = len(e.keys)
            for k, v in zip(vals[:n], vals[n:]):
                dict_set(self, s, ref, s.heap[ref.ident], k, v)
            keys = [self.deref(s, k) for k in vals[:n]]
            if all((isinstance(k, VInt) and z3.is_int_value(k.t)) or (isinstance(k, VSeq) and k.py is not None) for k in keys) \
                    and len({(k.t.as_long() if isinstance(k, VInt) else k.py) for k in keys}) == len(keys):
                cell = dict(s.heap[ref.ident])
                cell["static"] = list(zip(keys, [self.deref(s, v) for v in vals[n:]]))   # literal distinct keys
                s.heap[ref.ident] = cell
            outs.append((s, ref))
        return outs

    def ev_Lambda(self, e, st):
        return [(st, VConst((e, dict(st.env)), "lambda"))]

    def ev_JoinedStr(self, e, st):
        # f-strings are only used as opaque message strings
        return [(st, VSeq(fresh("fstr", ISq), "str"))]

    def ev_Call(self, e, st):
        from .calls import eval_call
        return eval_call(self, e, st)

    # ------------------------------------------------------------------ quantifiers (spec)
    def quantifier(self, st, lam, lo, hi, exists=False, trigger=None):
        """forall(lambda i: body, lo, hi)"""
        names = [a.arg for a in lam.args.args]
        vars_ = [fresh(n, I) for n in names]
        s2 = st.fork()
        for n, v in zip(names, vars_):
            s2.env[n] = VInt(v)
        from .values import Binder
        with Binder():
            body = self.ev1(lam.body, s2)
            bt = self.truth(s2, body)
        rng = []
        if lo is not None:
            for v in vars_:
                rng += [lo <= v, v < hi]
        pats = []
        if trigger is not None:
            for tr in (trigger.elts if isinstance(trigger, (ast.List, ast.Tuple)) else [trigger]):
                with Binder():
                    tv = self.ev1(tr, s2)
                pats.append(tv.t if hasattr(tv, "t") else box(tv))
        full = z3.Implies(z3.And(*rng), bt) if rng and not exists else (z3.And(*(rng + [bt])) if rng else bt)
        if not pats:
            pats = auto_patterns(full, vars_)
        kw = {"patterns": pats} if pats else {}
        return z3.Exists(vars_, full, **kw) if exists else z3.ForAll(vars_, full, **kw)


def auto_patterns(body, vars_):
    """Candidate E-matching patterns: minimal uninterpreted applications that contain all bound variables
    and no if-then-else.  Memoised over the term DAG."""
    vids = {v.get_id() for v in vars_}
    info = {}     # id -> (frozenset of bound var ids inside, has_ite, has_candidate_below)
    found = []

    def visit(t):
        tid = t.get_id()
        if tid in info:
            return info[tid]
        if tid in vids:
            info[tid] = (frozenset([tid]), False, False)
            return info[tid]
        if z3.is_quantifier(t) or not z3.is_app(t):
            info[tid] = (frozenset(), False, False)
            return info[tid]
        vs, ite, below = frozenset(), t.decl().kind() == z3.Z3_OP_ITE, False
        for c in t.children():
            cv, ci, cb = visit(c)
            vs |= cv
            ite = ite or ci
            below = below or cb
        k = t.decl().kind()
        cand = (k == z3.Z3_OP_UNINTERPRETED and t.num_args() > 0) or k == z3.Z3_OP_DT_ACCESSOR
        is_cand = cand and vs == vids and not ite
        if is_cand and not below:
            found.append(t)
        info[tid] = (vs, ite, below or is_cand)
        return info[tid]

    visit(body)
    uniq = {}
    for f in found:
        uniq[f.get_id()] = f
    return list(uniq.values())[:6]


import itertools
_ids = itertools.count()

BUILTIN_NAMES = {"len", "range", "bytes", "bytearray", "int", "str", "bool", "list", "tuple", "dict", "set", "sum",
                 "min", "max", "isinstance", "ord", "chr", "sorted", "enumerate", "zip", "map", "repr", "iter",
                 "next", "callable", "getattr", "hash", "print", "any", "all", "abs", "reversed", "hex", "cast",
                 "ValueError", "IndexError", "KeyError", "TypeError", "EOFError", "OSError", "AssertionError",
                 "StopIteration", "Exception", "OverflowError", "UnicodeDecodeError", "AttributeError",
                 "NotImplementedError", "KeyboardInterrupt"}
